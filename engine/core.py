"""Shared analysis context: model, resolver, call graph, reachability, option reads."""
from __future__ import annotations

import ast
import collections

from .model import Model, Func, FAMILY, MUTABLE, IMMUTABLE, AnalysisError
from .resolve import Resolver, CallSite, ANY

OPTION_ATTRS = ('lsb0', 'bytealigned', 'mxfp_overflow', 'no_color', '_lsb0', '_bytealigned', '_mxfp_overflow')


class Ctx:
    def __init__(self, repo=None):
        self.m = Model(repo)
        self.R = Resolver(self.m)
        self._cg = None
        self._optreads = None
        from .reasons import Renames
        self.renames = Renames(self.m)

    def rk(self, key):
        """Key under which a function appears in the reason tables (follows pure renames, engine/reasons.py)."""
        return self.renames.key(key)

    def rks(self, key):
        """Every key under which reasons for this function may be filed (own key + functions folded into it)."""
        return self.renames.keys(key)

    def reason_key(self, table, key, *rest):
        """The key of ``table`` that files function ``key`` (optionally with further components), or None."""
        for k in self.rks(key):
            kk = (k,) + rest if rest else k
            if kk in table:
                return kk
        return None

    # ------------------------------------------------------------------ call graph
    def node(self, func, ctx):
        if not (func.cls in FAMILY and not func.is_staticmethod()):
            # closures inherit the context of the enclosing method
            root = func
            while root.parent is not None:
                root = root.parent
            if not (root.cls in FAMILY and not root.is_staticmethod()):
                ctx = None
        return (func.key, ctx)

    def fa(self, node):
        return self.R.analyse(self.m.funcs[node[0]], node[1])

    def callgraph(self):
        """node -> list of (callee node, CallSite).  Nodes are (function key, context class)."""
        if self._cg is None:
            cg = {}
            work = []
            for f in self.m.funcs.values():
                for c in self.R.contexts(f):
                    work.append(self.node(f, c))
            seen = set()
            while work:
                n = work.pop()
                if n in seen:
                    continue
                seen.add(n)
                fa = self.fa(n)
                out = []
                for cs in fa.calls:
                    for (g, c) in cs.targets:
                        cn = self.node(g, c)
                        out.append((cn, cs))
                        if cn not in seen:
                            work.append(cn)
                # nested functions defined here are potential callees via closures handed out
                cg[n] = out
            self._cg = cg
        return self._cg

    def reachable(self, roots, edge_filter=None):
        """Map reachable node -> (parent node, CallSite) for path reconstruction."""
        cg = self.callgraph()
        parent = {}
        work = collections.deque()
        for r in roots:
            if r not in parent:
                parent[r] = None
                work.append(r)
        while work:
            n = work.popleft()
            for (c, cs) in cg.get(n, ()):
                if edge_filter and not edge_filter(n, c, cs):
                    continue
                if c not in parent:
                    parent[c] = (n, cs)
                    work.append(c)
        return parent

    @staticmethod
    def path_to(parent, node):
        out = []
        while node is not None:
            out.append(node)
            p = parent.get(node)
            node = p[0] if p else None
        return list(reversed(out))

    @staticmethod
    def fmt_path(path):
        return ' -> '.join(f"{k.split(':', 1)[1]}" + (f"[{c}]" if c else '') for k, c in path)

    # ------------------------------------------------------------------ option reads
    def is_options_expr(self, func, node, fa=None):
        """True if ``node`` denotes the module options singleton."""
        txt = ast.unparse(node)
        if txt in ('bitstring.options', 'options') :
            if txt == 'options':
                # module global `options = Options()` (array_.py, __init__.py)
                return 'options' in self.m.modglobals[func.mod] or func.mod == '__init__'
            return True
        if fa is not None:
            t = fa.expr_type.get(id(node), ANY)
            if t and t <= {'Options'}:
                return True
        return False

    def option_reads(self, func, ctx=None):
        """List of (option attr, node) read in ``func`` (Load context on the options object)."""
        fa = self.R.analyse(func, ctx)
        out = []
        for n in ast.walk(func.node):
            if isinstance(n, ast.Attribute) and isinstance(n.ctx, ast.Load) and n.attr in OPTION_ATTRS:
                if func.cls == 'Options' and isinstance(n.value, ast.Name) and n.value.id == 'self':
                    continue   # the singleton's own accessors
                if self.is_options_expr(func, n.value, fa):
                    out.append((n.attr.lstrip('_'), n))
        return out

    def option_writes(self, func, ctx=None):
        fa = self.R.analyse(func, ctx)
        out = []
        for n in ast.walk(func.node):
            if isinstance(n, ast.Attribute) and isinstance(n.ctx, (ast.Store, ast.Del)):
                if self.is_options_expr(func, n.value, fa) or (
                        func.cls == 'Options' and isinstance(n.value, ast.Name) and n.value.id == 'self'):
                    out.append((n.attr, n))
        return out

    # ------------------------------------------------------------------ misc helpers
    def public_api(self, classes=FAMILY):
        """(class, name, [Func]) for every public name resolvable on the classes."""
        out = []
        for c in classes:
            for name in sorted(self.m.public_names(c)):
                kind, p = self.m.lookup(c, name)
                if kind == 'method':
                    out.append((c, name, p))
                elif kind == 'prop':
                    out.append((c, name, [f for f in p if f is not None]))
        return out


def stmt_list(func):
    """All statements of a function body in source order (no nested defs)."""
    out = []

    def rec(stmts):
        for s in stmts:
            out.append(s)
            if isinstance(s, (ast.FunctionDef, ast.AsyncFunctionDef, ast.ClassDef)):
                continue
            for fld in ('body', 'orelse', 'finalbody'):
                if hasattr(s, fld):
                    rec(getattr(s, fld))
            if isinstance(s, ast.Try):
                for h in s.handlers:
                    rec(h.body)
    rec(func.node.body)
    return out


def own_walk(node):
    """ast.walk that does not descend into nested function/class/lambda definitions."""
    stack = [node]
    first = True
    while stack:
        n = stack.pop()
        if not first and isinstance(n, (ast.FunctionDef, ast.AsyncFunctionDef, ast.ClassDef, ast.Lambda)):
            continue
        first = False
        yield n
        stack.extend(ast.iter_child_nodes(n))

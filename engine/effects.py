"""Store effects, provenance of BitStore values and object kinds (DESIGN 2.3, analysis A/B).

Everything is computed per (function, context class) from the resolved call sites.
"""
from __future__ import annotations

import ast
import collections

from .core import own_walk, Ctx
from .model import FAMILY, MUTABLE, IMMUTABLE, AnalysisError
from .resolve import BITARRAY_MUTATORS, ANY

FRESH, CACHED, BUFFER, SELFSTORE, UNKNOWN = 'FRESH', 'CACHED', 'BUFFER', 'SELFSTORE', 'UNKNOWN'
# ('BORROWED', owner description, owner classes) ; ('MAYBE_SHARED', owner, owner classes) ; ('OWNED', var)


def bitstore_mutators(ctx):
    """BitStore methods that mutate self._bitarray in place — derived from bitstore.py, not listed by hand."""
    m = ctx.m
    bs = m.classes.get('BitStore')
    if bs is None:
        raise AnalysisError('anchor vanished: class BitStore')
    out = {}
    for name, f in bs.methods.items():
        kinds = set()
        for n in own_walk(f.node):
            if isinstance(n, ast.AugAssign) and ast.unparse(n.target) == 'self._bitarray':
                kinds.add('aug')
            if isinstance(n, ast.Call) and isinstance(n.func, ast.Attribute) and ast.unparse(n.func.value) == 'self._bitarray' \
                    and n.func.attr in BITARRAY_MUTATORS:
                kinds.add(n.func.attr)
            if isinstance(n, ast.Subscript) and isinstance(n.ctx, (ast.Store, ast.Del)) and ast.unparse(n.value) == 'self._bitarray':
                kinds.add('subscript')
        if kinds:
            out[name] = kinds
    for (c, s), modes in m.slots.items():
        if c == 'BitStore' and any(v[1] in out for v in modes.values()):
            out[s] = {'slot'}
    if len(out) < 8:
        raise AnalysisError(f'only {len(out)} mutating BitStore methods derived (floor 8)')
    return out


class Effect:
    __slots__ = ('root', 'kind', 'detail', 'node', 'value')

    def __init__(self, root, kind, detail, node, value=None):
        self.root, self.kind, self.detail, self.node, self.value = root, kind, detail, node, value

    def __repr__(self):
        return f"<{self.kind} on {self.root}: {self.detail}>"


def _root_name(e):
    """Name at the root of X._bitstore...; returns X's name if X is a plain name."""
    return e.id if isinstance(e, ast.Name) else None


class Effects:
    def __init__(self, ctx: Ctx):
        self.ctx = ctx
        self.m = ctx.m
        self.mut = bitstore_mutators(ctx)
        self._direct = {}
        self._selfeff = {}
        self._locals = {}

    # ------------------------------------------------------------------ direct effects
    def direct(self, node):
        if node in self._direct:
            return self._direct[node]
        f = self.m.funcs[node[0]]
        fa = self.ctx.fa(node)
        out = []

        def is_store_expr(e):
            """e denotes X._bitstore (returns X) for a family-typed/untyped X."""
            if isinstance(e, ast.Attribute) and e.attr == '_bitstore':
                return e.value
            return None

        for n in own_walk(f.node):
            if isinstance(n, ast.Assign):
                for t in n.targets:
                    for tt in (t.elts if isinstance(t, (ast.Tuple, ast.List)) else [t]):
                        x = is_store_expr(tt)
                        if x is not None:
                            out.append(Effect(_root_name(x) or ast.unparse(x), 'install', ast.unparse(n.value), n, n.value))
                        if isinstance(tt, ast.Attribute) and tt.attr == 'immutable':
                            x2 = is_store_expr(tt.value)
                            if x2 is not None:
                                out.append(Effect(_root_name(x2) or ast.unparse(x2), 'flag', ast.unparse(n.value), n, n.value))
                            elif isinstance(tt.value, ast.Name):
                                out.append(Effect(tt.value.id, 'flag-on-store', ast.unparse(n.value), n, n.value))
                        if isinstance(tt, ast.Subscript):
                            x3 = is_store_expr(tt.value)
                            if x3 is not None:
                                out.append(Effect(_root_name(x3) or ast.unparse(x3), 'inplace', 'setitem', n))
            elif isinstance(n, ast.AugAssign):
                x = is_store_expr(n.target)
                if x is not None:
                    out.append(Effect(_root_name(x) or ast.unparse(x), 'inplace', 'aug ' + type(n.op).__name__, n))
                if isinstance(n.target, ast.Subscript):
                    x3 = is_store_expr(n.target.value)
                    if x3 is not None:
                        out.append(Effect(_root_name(x3) or ast.unparse(x3), 'inplace', 'setitem', n))
            elif isinstance(n, ast.Delete):
                for tt in n.targets:
                    if isinstance(tt, ast.Subscript):
                        x3 = is_store_expr(tt.value)
                        if x3 is not None:
                            out.append(Effect(_root_name(x3) or ast.unparse(x3), 'inplace', 'delitem', n))
            elif isinstance(n, ast.Call) and isinstance(n.func, ast.Attribute):
                x = is_store_expr(n.func.value)
                if x is not None and n.func.attr in self.mut:
                    out.append(Effect(_root_name(x) or ast.unparse(x), 'inplace', n.func.attr, n))
                # raw mutation of the bitarray of a family object's store
                v = n.func.value
                if isinstance(v, ast.Attribute) and v.attr == '_bitarray' and n.func.attr in BITARRAY_MUTATORS:
                    x4 = is_store_expr(v.value)
                    if x4 is not None:
                        out.append(Effect(_root_name(x4) or ast.unparse(x4), 'inplace', 'raw ' + n.func.attr, n))
        self._direct[node] = out
        return out

    # ------------------------------------------------------------------ edges by receiver
    def edges(self, node):
        """(callee node, receiver root name or None, CallSite) for calls whose receiver object is identifiable."""
        f = self.m.funcs[node[0]]
        fa = self.ctx.fa(node)
        selfname = None
        if f.cls and not f.is_staticmethod() and (f.node.args.posonlyargs or f.node.args.args):
            selfname = (f.node.args.posonlyargs + f.node.args.args)[0].arg
        out = []
        for cs in fa.calls:
            for (g, c) in cs.targets:
                cn = self.ctx.node(g, c)
                root = None
                if cs.recv is not None and isinstance(cs.recv, ast.Name):
                    root = cs.recv.id
                    # Class.method(obj, ...) — receiver is the first argument
                    t = fa.expr_type.get(id(cs.recv), ANY)
                    if any(x.startswith('cls:') for x in t) and not g.is_classmethod() and not g.is_staticmethod():
                        root = cs.args[0].id if cs.args and isinstance(cs.args[0], ast.Name) else None
                elif cs.recv is None and isinstance(cs.node, ast.Call) and isinstance(cs.node.func, ast.Attribute) \
                        and isinstance(cs.node.func.value, ast.Call) and ast.unparse(cs.node.func.value.func) == 'super':
                    root = selfname
                elif cs.role in ('set', 'get', 'read') or (cs.role or '').endswith('0'):
                    root = cs.args[0].id if cs.args and isinstance(cs.args[0], ast.Name) else None
                elif cs.kind in ('prop-get', 'prop-set', 'op') and isinstance(cs.recv, ast.Name):
                    root = cs.recv.id
                if g.is_classmethod() or g.is_staticmethod() or g.name == '__new__':
                    root = None
                if g.name == '__init__' and not (isinstance(cs.node, ast.Call) and isinstance(cs.node.func, ast.Attribute)
                                                 and cs.node.func.attr == '__init__'):
                    root = None      # K(...) / self.__class__(): the constructor runs on a new object
                out.append((cn, root, cs))
        return out, selfname

    def resolve_alias(self, node, name, selfname):
        """Follow `x = self` style aliases: returns selfname if ``name`` can only denote self."""
        seen = set()
        while name is not None and name != selfname and name not in seen:
            seen.add(name)
            b = self.locals(node).get(name, set())
            al = {x[1] for x in b if x[0] == 'alias'}
            if len(al) == 1 and len(b) == 1:
                name = next(iter(al))
            else:
                break
        return name

    def may_return_self(self, node, stack=()):
        """Can the function return its own receiver?  (return self / return self.m() where m may return self)"""
        key = ('mrs', node)
        if key in self._selfeff:
            return self._selfeff[key]
        if node in stack:
            return False
        f = self.m.funcs[node[0]]
        edges, selfname = self.edges(node)
        res = False
        if selfname is not None:
            fa = self.ctx.fa(node)
            for x in own_walk(f.node):
                if isinstance(x, ast.Return) and x.value is not None:
                    vals = [x.value.body, x.value.orelse] if isinstance(x.value, ast.IfExp) else [x.value]
                    for v in vals:
                        if isinstance(v, ast.Name) and self.resolve_alias(node, v.id, selfname) == selfname:
                            res = True
                        if isinstance(v, ast.Call):
                            for (cn, root, cs) in edges:
                                if cs.node is v and root == selfname and self.may_return_self(cn, stack + (node,)):
                                    res = True
        self._selfeff[key] = res
        return res

    def maybe_self_locals(self, node):
        """Local names that may denote the receiver itself: assigned from a self-call that can return self."""
        f = self.m.funcs[node[0]]
        edges, selfname = self.edges(node)
        out = set()
        if selfname is None:
            return out
        for x in own_walk(f.node):
            if isinstance(x, ast.Assign) and len(x.targets) == 1 and isinstance(x.targets[0], ast.Name):
                vals = [x.value.body, x.value.orelse] if isinstance(x.value, ast.IfExp) else [x.value]
                for v in vals:
                    if isinstance(v, ast.Call):
                        for (cn, root, cs) in edges:
                            if cs.node is v and root == selfname and self.may_return_self(cn):
                                out.add(x.targets[0].id)
        return out

    # ------------------------------------------------------------------ transitive self effects
    def selfeff(self, node, stack=()):
        """Set of (kind, function key, detail) store effects on ``self`` of this function, through self-calls."""
        if node in self._selfeff:
            return self._selfeff[node]
        if node in stack:
            return set()
        out = set()
        edges, selfname = self.edges(node)
        if selfname is None:
            self._selfeff[node] = out
            return out
        maybe = self.maybe_self_locals(node) if not stack or True else set()
        for e in self.direct(node):
            if (self.resolve_alias(node, e.root, selfname) == selfname or e.root in maybe) and e.kind in ('install', 'inplace'):
                out.add((e.kind, node[0], e.detail + (' (on a local that may be self)' if e.root in maybe else '')))
        for (cn, root, cs) in edges:
            if root is not None and (self.resolve_alias(node, root, selfname) == selfname or root in maybe):
                out |= self.selfeff(cn, stack + (node,))
        if not stack:
            self._selfeff[node] = out
        return out

    # ------------------------------------------------------------------ local bindings
    def locals(self, node):
        """var -> set of kinds: ('alloc', classes, how) | ('view', arg expr) | ('self',) | ('param',) | ('other',)"""
        if node in self._locals:
            return self._locals[node]
        f = self.m.funcs[node[0]]
        fa = self.ctx.fa(node)
        env = collections.defaultdict(set)
        params = f.params()
        selfname = None
        if f.cls and not f.is_staticmethod() and params and f.parent is None:
            selfname = params[0]
            env[selfname].add(('self',) if not (f.is_classmethod() or f.name == '__new__') else ('cls',))
        for p in params:
            if p != selfname:
                env[p].add(('param',))
        for n in own_walk(f.node):
            tgt = val = None
            if isinstance(n, ast.Assign) and len(n.targets) == 1 and isinstance(n.targets[0], ast.Name):
                tgt, val = n.targets[0].id, n.value
            elif isinstance(n, ast.NamedExpr) and isinstance(n.target, ast.Name):
                tgt, val = n.target.id, n.value
            elif isinstance(n, ast.AnnAssign) and isinstance(n.target, ast.Name) and n.value is not None:
                tgt, val = n.target.id, n.value
            if tgt is None:
                continue
            for v in (val.body, val.orelse) if isinstance(val, ast.IfExp) else (val,):
                env[tgt].add(self.classify_value(v, fa, node))
        self._locals[node] = env
        return env

    def classify_value(self, v, fa, node):
        t = fa.expr_type.get(id(v), ANY)
        fam = frozenset(x for x in t if x in FAMILY)
        if isinstance(v, ast.Call):
            fn = v.func
            txt = ast.unparse(fn)
            if isinstance(fn, ast.Attribute) and fn.attr in self.m.promoters:
                return ('view', ast.unparse(v.args[0]) if v.args else '', fam)
            if txt.endswith('.__new__') or txt == 'object.__new__':
                return ('alloc', fam, 'raw')
            if isinstance(fn, ast.Attribute) and fn.attr in ('_copy', '__copy__'):
                return ('alloc', fam, 'copy')
            if isinstance(fn, ast.Attribute) and fn.attr == '__class__' or txt.split('.')[-1] in FAMILY:
                return ('alloc', fam, 'ctor')
            if txt in ('copy.copy', 'copy.deepcopy'):
                return ('alloc', fam, 'copy')
            if fam:
                return ('result', fam, txt)
        if isinstance(v, ast.Name):
            return ('alias', v.id)
        if fam:
            return ('result', fam, ast.unparse(v)[:40])
        return ('other',)

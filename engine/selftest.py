"""Seeded-fault self-test of the rules (DESIGN 7).

Every variant is one edit of the current tree applied to a scratch copy of /repo/bitstring (outside
/repo and /verif, removed immediately).  'fire' variants break one instance and must be reported by
the named rule; 'silent' variants are behaviour-preserving refactorings and must add no finding.
A failure here is an ANALYSIS-ERROR of the checker, never a violation of the library.
"""
from __future__ import annotations

import multiprocessing
import os
import shutil
import sys
import tempfile
import traceback

from .model import AnalysisError, repo_root


def _findings(prop_rules, repo, tolerate=None):
    from .core import Ctx
    from .props import RULES
    ctx = Ctx(repo)
    out = {}
    errors = []
    for rid in prop_rules:
        try:
            r = RULES[rid](ctx)
            if getattr(r, 'deferred', None):
                errors.append(f'{rid}: ' + '; '.join(r.deferred))
        except AnalysisError as e:
            errors.append(f'{rid}: {e}')
            continue
        for f in r.findings:
            out[f.key] = (f.rule, f.where, f.message)
    if errors and tolerate is None:
        raise AnalysisError('; '.join(errors))
    if tolerate is not None:
        tolerate.extend(errors)
    return out


def _apply(variant, dst):
    import ast
    if 'patch' in variant:
        import subprocess
        p = subprocess.run(['git', 'apply', '--unsafe-paths', '--directory=' + dst, variant['patch']], cwd=dst, capture_output=True, text=True)
        if p.returncode != 0:
            p = subprocess.run(['patch', '-p1', '-s', '-i', variant['patch']], cwd=dst, capture_output=True, text=True)
        return p.returncode == 0
    if 'pkg_all_fn' in variant:
        pkg = os.path.join(dst, 'bitstring')
        srcs = {fn: open(os.path.join(pkg, fn)).read() for fn in sorted(os.listdir(pkg)) if fn.endswith('.py') and fn != 'luts.py'}
        new = variant['pkg_all_fn'](dict(srcs))
        changed = False
        for fn, txt in (new or {}).items():
            if txt != srcs.get(fn):
                ast.parse(txt)
                open(os.path.join(pkg, fn), 'w').write(txt)
                changed = True
        return changed
    if 'pkg_fn' in variant:
        pkg = os.path.join(dst, 'bitstring')
        changed = False
        for fn in sorted(os.listdir(pkg)):
            if fn.endswith('.py') and fn != 'luts.py':
                src = open(os.path.join(pkg, fn)).read()
                new = variant['pkg_fn'](fn, src)
                if new is not None and new != src:
                    ast.parse(new)
                    open(os.path.join(pkg, fn), 'w').write(new)
                    changed = True
        return changed
    path = os.path.join(dst, 'bitstring', variant['file'])
    src = open(path).read()
    if 'fn' in variant:
        new = variant['fn'](src)
        if new is None or new == src:
            return False
    else:
        if src.count(variant['old']) != 1:
            return False
        new = src.replace(variant['old'], variant['new'])
    import ast
    ast.parse(new)      # the variant must still compile
    with open(path, 'w') as fh:
        fh.write(new)
    return True


def seeded_variants(prop, rules):
    """The kept independent seeded faults that this property's check reported when they were recorded: they must stay reported."""
    import json
    out = []
    root = os.path.join(os.path.dirname(os.path.dirname(os.path.abspath(__file__))), 'seeded')
    if not os.path.isdir(root):
        return out
    for fid in sorted(os.listdir(root)):
        mp = os.path.join(root, fid, 'meta.json')
        if not os.path.exists(mp):
            continue
        meta = json.load(open(mp))
        rep = meta.get('checks_reporting_it', {}).get(prop)
        if not rep:
            continue
        rids = {x.split(']')[0].lstrip('[') for x in rep}
        out.append(dict(id='seeded:' + fid, props=[prop], file='*', kind='fire', where='', expect=sorted(rids & set(rules)) or sorted(rules),
                        patch=os.path.join(root, fid, 'patch.diff')))
    return out


def refactor_variants(prop):
    """The kept independent behaviour-preserving refactorings (negative controls): no rule of any property may report them."""
    out = []
    root = os.path.join(os.path.dirname(os.path.dirname(os.path.abspath(__file__))), 'refactors')
    if not os.path.isdir(root):
        return out
    for rid in sorted(os.listdir(root)):
        pp = os.path.join(root, rid, 'patch.diff')
        if os.path.exists(pp):
            out.append(dict(id='refactor:' + rid, props=[prop], file='*', kind='silent', where='', expect=[], patch=pp))
    return out


_EXTRA = {}


def _run_variant(args):
    vid, rules, base_keys, repo = args
    from .variants import VARIANTS
    variant = _EXTRA.get(vid) or next(v for v in VARIANTS if v['id'] == vid)
    tmp = tempfile.mkdtemp(prefix='vst_')
    try:
        shutil.copytree(os.path.join(repo, 'bitstring'), os.path.join(tmp, 'bitstring'),
                        ignore=shutil.ignore_patterns('__pycache__'))
        try:
            if not _apply(variant, tmp):
                return vid, 'skipped', 'anchor text not found exactly once (source moved)'
        except SyntaxError as e:
            return vid, 'failed', f'variant does not compile: {e}'
        errs = [] if variant['kind'] == 'fire' else None
        try:
            got = _findings(rules, tmp, tolerate=errs)
        except AnalysisError as e:
            if variant['kind'] == 'fire' and variant.get('accept_analysis_error'):
                return vid, 'ok', f'ANALYSIS-ERROR (accepted): {e}'
            return vid, 'failed', f'ANALYSIS-ERROR on variant: {e}'
        new = {k: v for k, v in got.items() if k not in base_keys}
        if variant['kind'] == 'silent':
            if new:
                return vid, 'failed', f'refactoring variant produced findings: {sorted(new)[:3]}'
            return vid, 'ok', 'silent'
        want = set(variant['expect'])
        hits = [k for k, v in new.items() if v[0] in want and variant.get('where', '') in v[1]]
        if hits:
            return vid, 'ok', hits[0]
        if errs:
            return vid, 'failed', 'only ANALYSIS-ERROR, no finding: ' + '; '.join(errs)[:200]
        return vid, 'failed', f"expected a new {sorted(want)} finding{' in ' + variant['where'] if variant.get('where') else ''}; new findings: {sorted(new)[:4]}"
    except Exception:
        return vid, 'failed', 'crash: ' + traceback.format_exc(limit=3)
    finally:
        shutil.rmtree(tmp, ignore_errors=True)


def run(variants, rules, repo=None, jobs=16):
    repo = repo or repo_root()
    base = _findings(rules, repo)
    base_keys = set(base)
    work = [(v, rules, base_keys, repo) for v in variants]
    if not work:
        return []
    # fork keeps the callables ('fn') usable without pickling by name
    ctxmp = multiprocessing.get_context('fork')
    with ctxmp.Pool(min(jobs, len(work))) as pool:
        res = pool.map(_run_variant, [(v['id'], r, b, rp) for v, r, b, rp in work], chunksize=1)
    return res


def run_for_property(prop, jobs=16):
    from .props import PROPS
    from .variants import VARIANTS
    rules = PROPS[prop]['rules']
    # a must-fire variant is relevant to a property only if one of the rules expected to report it belongs to the property
    mine = [v for v in VARIANTS if prop in v['props'] and (v['kind'] == 'silent' or set(v['expect']) & set(rules))]
    extra = seeded_variants(prop, rules) + refactor_variants(prop)
    for v in extra:
        _EXTRA[v['id']] = v
    mine = mine + extra
    res = run(mine, rules, jobs=jobs)
    failed = [f'{vid}: {msg}' for vid, st, msg in res if st == 'failed']
    skipped = [vid for vid, st, _ in res if st == 'skipped']
    ok_fire = [vid for (vid, st, _), v in zip(res, mine) if st == 'ok' and v['kind'] == 'fire']
    ok_silent = [vid for (vid, st, _), v in zip(res, mine) if st == 'ok' and v['kind'] == 'silent']
    if mine and len(skipped) > len(mine) // 2:
        failed.append(f'{len(skipped)} of {len(mine)} variants no longer apply to the source: refresh engine/variants.py')
    return {'variants': len(mine), 'fired_as_expected': ok_fire, 'silent_as_expected': ok_silent, 'skipped': skipped,
            'failed': failed, 'details': {vid: msg for vid, st, msg in res}}


def main():
    from .props import PROPS
    props = sys.argv[1:] or sorted(PROPS)
    rc = 0
    for p in props:
        out = run_for_property(p)
        print(f"{p}: {out['variants']} variants, {len(out['fired_as_expected'])} fired, {len(out['silent_as_expected'])} silent, "
              f"{len(out['skipped'])} skipped, {len(out['failed'])} FAILED")
        for f in out['failed']:
            print('   FAILED', f)
            rc = 2
        for s in out['skipped']:
            print('   skipped', s)
    return rc


if __name__ == '__main__':
    sys.exit(main())

"""Check driver: runs the rule set of one property, classifies findings, writes evidence.

Exit codes: 0 property's claimed clauses hold (known findings are printed), 1 VIOLATION, 2 ANALYSIS-ERROR.
"""
from __future__ import annotations

import json
import os
import sys
import time
import traceback

from . import report
from .core import Ctx
from .model import AnalysisError, repo_root
from .props import PROPS, RULES, TRUSTED_BASE


def run_property(prop, tier='quick', ctx=None, write=True, quiet=False):
    t0 = time.time()
    spec = PROPS[prop]
    ctx = ctx or Ctx()
    results = []
    analysis_errors = []
    for rid in spec['rules']:
        fn = RULES[rid]
        try:
            r = fn(ctx)
            if getattr(r, 'deferred', None):
                if r.findings:
                    analysis_errors.append(f'{rid}: ' + '; '.join(r.deferred))      # the findings stand, the rest could not be vouched for
                else:
                    raise AnalysisError('; '.join(r.deferred))
            if r.instances == 0:
                raise AnalysisError(f"rule {rid} examined zero instances (vacuous pass refused)")
            floor = spec.get('floors', {}).get(rid)
            if floor is not None and r.instances < floor:
                raise AnalysisError(f"rule {rid} examined {r.instances} instances, below the confirmed floor {floor}")
        except AnalysisError as e:
            # one rule that cannot vouch does not silence what the other rules of the property do find
            analysis_errors.append(f'{rid}: {e}')
            continue
        results.append(r)
    findings = [f for r in results for f in r.findings if _applies(prop, f)]
    hit, new, stale = report.classify(prop, findings)
    selftest = None
    if tier == 'thorough':
        from . import selftest as st
        selftest = st.run_for_property(prop)
        if selftest['failed']:
            raise AnalysisError(f"self-test failed for {prop}: {selftest['failed'][:3]}")
    wall = time.time() - t0
    lines = []
    for f, k in hit:
        lines.append(f"KNOWN-FINDING: property={prop} {f.key} :: {k.get('input', '')} -> {k.get('observed', '')}")
    replay_paths = []
    for i, f in enumerate(new):
        p = report.write_replay(prop, f, i) if write else '-'
        replay_paths.append(p)
        lines.append(f"VIOLATION property={prop} replay={p}")
        lines.append(f"  [{f.rule}] {f.where}: {f.construct}")
        lines.append(f"      {f.message} ({f.loc})")
    if analysis_errors and not new:
        raise AnalysisError('; '.join(analysis_errors))
    for ae in analysis_errors:
        lines.append(f'ANALYSIS-ERROR property={prop} (rule could not vouch; the violations above stand) {ae}')
    if stale:
        # a known entry that no longer matches anything: the file must be kept current
        raise AnalysisError("stale known-finding entries (no longer reported by any rule): " +
                            '; '.join(k['key'] for k in stale))
    obligations = sum(r.instances for r in results)
    failed = len(findings)
    distinct = sum(len(r.constructs) for r in results) - sum(r.trivial for r in results)
    samples = []
    for r in results:
        for s in r.samples[:3]:
            samples.append({'rule': r.rule, **(s if isinstance(s, dict) else {'instance': s})})
        for f in r.findings[:2]:
            samples.append({'rule': f.rule, 'instance': f.where, 'construct': f.construct, 'verdict': 'reported',
                            'why': f.message})
    coverage = {
        'explanation': spec['explanation'],
        'decided_clauses': spec['decided'],
        'declined_clauses': spec['declined'],
        'obligations': obligations,
        'discharged': obligations - failed,
        'evaluations': obligations,
        'distinct_nontrivial': max(distinct, 0),
        'rule': 'each evaluation is one rule instance (a site, function, table entry or path) recomputed from '
                "/repo's source on this run; distinct = distinct normalised constructs, minus instances discharged "
                'trivially (e.g. literal non-zero divisor)',
        'samples': samples[:24],
        'rules': [r.summary() for r in results],
        'known_findings_matched': [f.key for f, _ in hit],
        'new_findings': [f.to_json() for f in new],
        'checker_cmd': f"./bin/vcheck {prop}" + (' --tier thorough' if tier == 'thorough' else ''),
        'trusted_base': TRUSTED_BASE,
        'call_resolution': ctx.R.stats(),
        'model': ctx.m.stats(),
        'repo': ctx.m.repo,
        'exhaustive': bool(spec.get('exhaustive', False)),
    }
    if selftest is not None:
        coverage['selftest'] = selftest
    if write:
        report.write_evidence(prop, tier, spec.get('level', 'other'), coverage, spec['assumptions'], wall,
                              len(new), seed=int(os.environ.get('VERIF_SEED', '0') or 0))
    if not quiet:
        print(f"{prop}: {len(results)} rules, {obligations} instances, {len(hit)} known, {len(new)} new "
              f"[{wall:.2f}s, repo={ctx.m.repo}]")
        for r in results:
            print(f"  {r.rule:5s} {r.title}: {r.instances} instances, {len(r.findings)} reported")
        for ln in lines:
            print(ln)
    return (1 if new else 0), new, hit


def _applies(prop, f):
    props = f.extra.get('props') if f.extra else None
    return props is None or prop in props


def main(argv=None):
    argv = list(sys.argv[1:] if argv is None else argv)
    tier = os.environ.get('VERIF_TIER') or 'quick'
    if '--tier' in argv:
        i = argv.index('--tier')
        tier = argv[i + 1]
        del argv[i:i + 2]
    write = True
    if '--no-evidence' in argv:
        argv.remove('--no-evidence')
        write = False
    if '--self-check' in argv:
        try:
            c = Ctx()
            print('self-check ok:', c.m.stats())
            return 0
        except AnalysisError as e:
            print('ANALYSIS-ERROR', e)
            return 2
    if '--replay' in argv:
        i = argv.index('--replay')
        path = argv[i + 1]
        with open(path) as fh:
            rp = json.load(fh)
        rc, new, hit = run_property(rp['property'], 'quick', write=False, quiet=True)
        still = [f for f in new if f.key == rp['key']] + [f for f, _ in hit if f.key == rp['key']]
        if still:
            f = still[0]
            print(f"VIOLATION property={rp['property']} replay={path}")
            print(f"  [{f.rule}] {f.where}: {f.construct}\n      {f.message} ({f.loc})")
            return 1
        print(f"replay: instance {rp['key']} no longer reported on {repo_root()}")
        return 0
    if not argv:
        print('usage: vcheck <ID>|all [--tier quick|thorough] | --self-check | --replay <file>')
        return 2
    props = sorted(PROPS) if argv[0] == 'all' else [argv[0]]
    rc = 0
    broken = False
    ctx = None
    for p in props:
        if p not in PROPS:
            print(f"ANALYSIS-ERROR unknown or unclaimed property {p}")
            return 2
        try:
            ctx = ctx or Ctx()
            r, _, _ = run_property(p, tier, ctx, write=write)
            rc = max(rc, r)
        except AnalysisError as e:
            print(f"ANALYSIS-ERROR property={p} {e}")
            broken = True           # with `all`, the remaining properties are still decided
        except Exception:
            traceback.print_exc()
            print(f"ANALYSIS-ERROR property={p} analyser crashed")
            broken = True
    return rc if rc else (2 if broken else 0)


if __name__ == '__main__':
    sys.exit(main())

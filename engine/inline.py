"""Procedure integration of NEW private helpers, so that an extract-function refactoring shows the rules the same shape
as before.

A function is *new* when its key is not in the recorded baseline (`*functions` in reason_digests.json, written by
tools/gen_reason_digests.py for the tree the reason tables were reviewed on).  A new, private, undecorated (or
static/classmethod), non-recursive, closure-free helper whose every use is a plain call in a position where hoisting is
exact is substituted at its call sites (parameters bound, locals renamed, `return`s turned into the statement that used
the value) and removed.  Everything else is left exactly as written - in particular memoised helpers (decorated) are never
inlined, because calling them is not the same as running their body.

On the unchanged tree there are no new functions and this is the identity.
"""
from __future__ import annotations

import ast
import copy
import json
import os

HERE = os.path.dirname(os.path.abspath(__file__))
MAX_STMTS = 80


def baseline_functions():
    """{key: body digest} of the functions of the reviewed tree."""
    try:
        with open(os.path.join(HERE, 'reason_digests.json')) as fh:
            b = json.load(fh).get('*functions', {})
            return b if isinstance(b, dict) else {k: None for k in b}
    except (OSError, ValueError):
        return {}


def _digest(fn):
    from .reasons import node_digest
    return node_digest(fn)


def _functions(mods):
    """(key, module, class name|None, FunctionDef, container list) for module-level functions and methods."""
    for mod, tree in mods.items():
        if mod == 'luts':
            continue
        for n in tree.body:
            if isinstance(n, ast.FunctionDef):
                yield f'{mod}:{n.name}', mod, None, n, tree.body
            elif isinstance(n, ast.ClassDef):
                for k in n.body:
                    if isinstance(k, ast.FunctionDef):
                        yield f'{mod}:{n.name}.{k.name}', mod, n.name, k, n.body


def _nested_defs(fn):
    """(containing statement list, def) for the functions defined directly in fn's own scope (at any block depth)."""
    def rec(stmts):
        for st in stmts:
            if isinstance(st, ast.FunctionDef):
                yield stmts, st
                continue
            if isinstance(st, ast.ClassDef):
                continue
            for fld in ('body', 'orelse', 'finalbody'):
                sub = getattr(st, fld, None)
                if isinstance(sub, list) and sub and isinstance(sub[0], ast.stmt):
                    yield from rec(sub)
            for h in getattr(st, 'handlers', []) or []:
                yield from rec(h.body)
    yield from rec(fn.body)


def _kind(fn):
    decs = [ast.unparse(d) for d in fn.decorator_list]
    if not decs:
        return 'plain'
    if decs == ['staticmethod']:
        return 'static'
    if decs == ['classmethod']:
        return 'class'
    return None


def _own_nodes(fn):
    """Nodes of the function's own scope: nested function and lambda bodies are left out (their names are theirs)."""
    stack = list(fn.body) if isinstance(fn, (ast.FunctionDef, ast.Lambda)) and not isinstance(fn, ast.Lambda) else [fn]
    while stack:
        n = stack.pop()
        yield n
        for c in ast.iter_child_nodes(n):
            if isinstance(c, (ast.FunctionDef, ast.Lambda, ast.ClassDef)):
                # the def statement itself belongs to this scope (decorators, defaults), its body does not
                yield c
                if isinstance(c, ast.FunctionDef):
                    stack.extend(c.decorator_list)
                    stack.extend(d for d in c.args.defaults + c.args.kw_defaults if d is not None)
                continue
            stack.append(c)


def _contains(node, types):
    return any(isinstance(x, types) for x in ast.walk(node))


def _returns_in_loops(fn):
    body = [s for s in fn.body if not (isinstance(s, ast.Expr) and isinstance(s.value, ast.Constant))]
    for x in _own_nodes(fn):
        if isinstance(x, (ast.For, ast.While, ast.With, ast.Try)) and x is not fn:
            if isinstance(x, ast.Try) and body and x is body[-1] and not x.finalbody:
                continue          # `try: return f(..) except E: raise/return ..` as the last statement: handled by _conv
            if isinstance(x, ast.Try) and any(x is b for b in body) and _handlers_leave(x):
                continue          # `try: v = f(..) except E: return None` followed by more: the rest becomes the try's else
            if isinstance(x, ast.With) and body and x is body[-1] and not any(
                    isinstance(z, (ast.For, ast.While, ast.Try, ast.With)) and any(isinstance(r_, ast.Return) for r_ in _own_nodes(z)) for z in _own_nodes(x) if z is not x):
                continue          # `with ...: <returns>` as the last statement: the returns become the caller's statement inside the with
            for y in _own_nodes(x):
                if isinstance(y, ast.Return):
                    return True
    return False


def _handlers_leave(t):
    """A try without else/finally whose body does not return and whose every handler leaves the function."""
    return not t.finalbody and not t.orelse and not _has_return(t.body) and t.handlers and all(_always_exits(h.body) for h in t.handlers)


def _forwards_only(fn):
    """*args / **kwargs of the helper are used for nothing but being passed on: `g(*args, **kwargs)`."""
    va = fn.args.vararg.arg if fn.args.vararg else None
    kw = fn.args.kwarg.arg if fn.args.kwarg else None
    ok_nodes = set()
    for x in ast.walk(fn):
        if isinstance(x, ast.Call):
            for a in x.args:
                if isinstance(a, ast.Starred) and isinstance(a.value, ast.Name) and a.value.id == va:
                    ok_nodes.add(id(a.value))
            for k in x.keywords:
                if k.arg is None and isinstance(k.value, ast.Name) and k.value.id == kw:
                    ok_nodes.add(id(k.value))
    for x in ast.walk(fn):
        if isinstance(x, ast.Name) and x.id in (va, kw) and id(x) not in ok_nodes:
            return False
    return True


class _Forward(ast.NodeTransformer):
    """g(*args, **kwargs) with the call site's extra arguments written out."""
    def __init__(self, va, extra, kw, extrakw):
        self.va, self.extra, self.kw, self.extrakw = va, extra, kw, extrakw

    def visit_Call(self, node):
        self.generic_visit(node)
        args = []
        for a in node.args:
            if isinstance(a, ast.Starred) and isinstance(a.value, ast.Name) and a.value.id == self.va:
                args.extend(copy.deepcopy(self.extra))
            else:
                args.append(a)
        kws = []
        for k in node.keywords:
            if k.arg is None and isinstance(k.value, ast.Name) and k.value.id == self.kw:
                kws.extend(copy.deepcopy(self.extrakw))
            else:
                kws.append(k)
        node.args, node.keywords = args, kws
        return node


def _eligible(fn):
    if fn.name.startswith('__') and fn.name.endswith('__'):
        return False
    if _kind(fn) is None:
        return False
    a = fn.args
    if (a.vararg or a.kwarg) and not _forwards_only(fn):
        return False
    inner = [x for x in ast.walk(fn) if x is not fn]
    if any(isinstance(x, (ast.AsyncFunctionDef, ast.Yield, ast.YieldFrom, ast.Await, ast.Global, ast.Nonlocal, ast.ClassDef)) for x in inner):
        return False
    # closures defined by the helper (a closure factory) come along; their own returns are theirs
    if any(isinstance(x, (ast.FunctionDef, ast.Lambda)) for x in inner) and any(
            isinstance(y, ast.Name) and isinstance(y.ctx, ast.Store) and y.id in {a.arg for a in fn.args.posonlyargs + fn.args.args + fn.args.kwonlyargs}
            for y in _own_nodes(fn)):
        return False          # a parameter that is re-bound while closures capture it: not a plain substitution
    if _returns_in_loops(fn):
        return False
    if sum(isinstance(x, ast.stmt) for x in inner) > MAX_STMTS:
        return False
    if any(isinstance(x, ast.Name) and x.id == fn.name for x in inner) or any(isinstance(x, ast.Attribute) and x.attr == fn.name for x in inner):
        return False        # recursive
    if any(isinstance(x, ast.Call) and isinstance(x.func, ast.Name) and x.func.id in ('locals', 'vars', 'eval', 'exec') for x in inner):
        return False
    return True


def _is_called(fn, attr):
    return any(isinstance(c, ast.Call) and c.func is attr for c in ast.walk(fn))


def _uses_super(fn):
    return any(isinstance(x, ast.Call) and isinstance(x.func, ast.Name) and x.func.id == 'super' for x in ast.walk(fn))


# ---------------------------------------------------------------------------------------------- return elimination
def _always_exits(stmts):
    if not stmts:
        return False
    s = stmts[-1]
    if isinstance(s, (ast.Return, ast.Raise)):
        return True
    if isinstance(s, ast.If):
        return bool(s.orelse) and _always_exits(s.body) and _always_exits(s.orelse)
    return False


def _has_return(stmts):
    for s in stmts:
        if isinstance(s, ast.Return):
            return True
        if isinstance(s, (ast.FunctionDef, ast.ClassDef)):
            continue
        for y in _own_nodes(s):
            if isinstance(y, ast.Return):
                return True
    return False


def _conv(stmts, make):
    """Body without `return`: every `return v` becomes make(v) (a list of statements) and ends its path; statements after an
    `if` whose branch returns are moved into the branches (continuation duplication - helpers are small)."""
    out = []
    for i, s in enumerate(stmts):
        if isinstance(s, ast.Return):
            out.extend(make(s.value))
            return out
        if isinstance(s, ast.Raise):
            out.append(s)
            return out
        if isinstance(s, ast.Try) and _has_return([s]) and i == len(stmts) - 1:
            # last statement: each part of the try ends the helper, so the returns become the caller's statement in place
            new = ast.Try(body=_conv(list(s.body), make), handlers=[ast.ExceptHandler(type=h.type, name=h.name, body=_conv(list(h.body), make)) for h in s.handlers],
                          orelse=_conv(list(s.orelse), make) if s.orelse else [], finalbody=[])
            out.append(new)
            return out
        if isinstance(s, ast.With) and _has_return([s]) and i == len(stmts) - 1:
            new = ast.With(items=s.items, body=_conv(list(s.body), make) or [ast.Pass()])
            out.append(new)
            return out
        if isinstance(s, ast.Try) and _handlers_leave(s) and _has_return([s]):
            # the handlers leave; what follows the try runs only when nothing was caught, i.e. it is the try's else-clause
            # (where, as before, the handlers do not apply to it)
            rest = stmts[i + 1:]
            new = ast.Try(body=list(s.body), handlers=[ast.ExceptHandler(type=h.type, name=h.name, body=_conv(list(h.body), make)) for h in s.handlers],
                          orelse=_conv(list(rest), make), finalbody=[])
            out.append(new)
            return out
        if isinstance(s, ast.If) and (_has_return(s.body) or _has_return(s.orelse)):
            rest = stmts[i + 1:]
            body = _conv(list(s.body) + copy.deepcopy(rest), make)
            orelse = _conv(list(s.orelse) + copy.deepcopy(rest), make)
            new = ast.If(test=s.test, body=body or [ast.Pass()], orelse=orelse)
            out.append(new)
            return out
        out.append(s)
    out.extend(make(None))       # fell off the end: returns None
    return out


# ---------------------------------------------------------------------------------------------- substitution
class _Subst(ast.NodeTransformer):
    def __init__(self, mapping):
        self.mapping = mapping

    def _inner(self, node, bound):
        inner = {k: v for k, v in self.mapping.items() if k not in bound}
        return _Subst(inner)

    def visit_FunctionDef(self, node):
        # the def's own name may be one of the renamed locals of the helper; its parameters and locals shadow the mapping
        if node.name in self.mapping and isinstance(self.mapping[node.name], ast.Name):
            node.name = self.mapping[node.name].id
        node.decorator_list = [self.visit(d) for d in node.decorator_list]
        node.args.defaults = [self.visit(d) for d in node.args.defaults]
        node.args.kw_defaults = [self.visit(d) if d is not None else None for d in node.args.kw_defaults]
        a = node.args
        bound = {x.arg for x in a.posonlyargs + a.args + a.kwonlyargs} | ({a.vararg.arg} if a.vararg else set()) | ({a.kwarg.arg} if a.kwarg else set())
        bound |= {y.id for y in _own_nodes(node) if isinstance(y, ast.Name) and isinstance(y.ctx, (ast.Store, ast.Del))}
        bound |= {y.name for y in _own_nodes(node) if isinstance(y, ast.FunctionDef)}
        sub = self._inner(node, bound)
        node.body = [sub.visit(st) for st in node.body]
        return node

    def visit_Lambda(self, node):
        a = node.args
        bound = {x.arg for x in a.posonlyargs + a.args + a.kwonlyargs} | ({a.vararg.arg} if a.vararg else set()) | ({a.kwarg.arg} if a.kwarg else set())
        node.args.defaults = [self.visit(d) for d in node.args.defaults]
        node.body = self._inner(node, bound).visit(node.body)
        return node

    def visit_Name(self, node):
        if node.id in self.mapping:
            new = copy.deepcopy(self.mapping[node.id])
            if isinstance(new, ast.Name):
                new.ctx = node.ctx
            return ast.copy_location(new, node)
        return node


def _pure(e):
    if isinstance(e, (ast.Name, ast.Constant, ast.Lambda)):
        return True           # (creating a lambda has no effect; where it is called is where its body runs)
    if isinstance(e, ast.Attribute):
        if isinstance(e.value, ast.Call) and isinstance(e.value.func, ast.Name) and e.value.func.id == 'super' and not e.value.args and not e.value.keywords:
            return True           # super().method: a bound-method lookup
        return _pure(e.value)
    if isinstance(e, ast.UnaryOp) and isinstance(e.operand, ast.Constant):
        return True
    return False


class _Inliner:
    def __init__(self, mods, baseline):
        self.mods = mods
        self.baseline = baseline
        self.counter = 0
        self.done = []

    # -- which helpers ----------------------------------------------------------------------------------------------
    def candidates(self):
        out = {}
        present = {key for key, *_ in _functions(self.mods)}
        def nested(k):
            parts = k.split('#')[0].split('.')
            return any('.'.join(parts[:i]) in self.baseline for i in range(1, len(parts)))
        # (closures are not listed by _functions: they have not vanished, they are just not top-level)
        vanished = {d for k, d in self.baseline.items() if k not in present and d and not nested(k)}
        vanished_names = {k.split(':')[1] for k in self.baseline if k not in present and not nested(k) and '.' not in k.split(':')[1] and '@' not in k}
        bp = _baseline_params()
        # (a static method of the reviewed tree that became a module-level function of the same name has moved, too)
        vanished_names |= {k.split('.')[-1] for k in self.baseline if k not in present and not nested(k) and k.split(':')[1].count('.') == 1 and '@' not in k
                           and '#' not in k and (bp.get(k) or ['self'])[0] not in ('self', 'cls')}
        for key, mod, cls, fn, container in _functions(self.mods):
            if key in self.baseline:
                continue
            if _digest(fn) in vanished:
                continue          # a renamed function, not a new helper
            if cls is None and fn.name in vanished_names:
                continue          # a module-level function of the reviewed tree that moved to another module (same name)
            if not _eligible(fn):
                continue
            # a name defined more than once anywhere (override, overload) is not safely resolvable by name
            same = [k for k, _, _, f2, _ in _functions(self.mods) if f2.name == fn.name]
            if len(same) != 1:
                continue
            out[fn.name] = (key, mod, cls, fn, container)
        # closures that are only ever called by their sibling closures (a check shared by two readers, say)
        all_names = [f2.name for _k, _m, _c, f2, _ in _functions(self.mods)]
        for key, mod, cls, fn, container in _functions(self.mods):
            for lst, g in _nested_defs(fn):
                all_names.append(g.name)
        for key, mod, cls, fn, container in _functions(self.mods):
            for lst, g in _nested_defs(fn):
                k2 = f'{key}.{g.name}'
                if k2 in self.baseline or any(b.startswith(k2 + '#') for b in self.baseline) or not _eligible(g) or g.decorator_list:
                    continue
                if all_names.count(g.name) != 1 or g.name in out:
                    continue
                if _digest(g) in {d for kk, d in self.baseline.items() if kk.startswith(key + '.')}:
                    continue      # a renamed closure of the reviewed tree
                out[g.name] = (k2, mod, None, g, lst)
        return out

    def _call_kind(self, call, name, info):
        """'recv' receiver expression for the first parameter, or None if this is not a recognised call of the helper."""
        key, mod, cls, fn, _ = info
        f = call.func
        if cls is None:
            if isinstance(f, ast.Name) and f.id == name:
                return ('module', None)
            if isinstance(f, ast.Attribute) and f.attr == name and isinstance(f.value, (ast.Name, ast.Attribute)) and ast.unparse(f.value).split('.')[-1] == mod:
                return ('module', None)
            return None
        if isinstance(f, ast.Attribute) and f.attr == name and _pure(f.value):
            return ('method', f.value)
        return None

    # -- one statement list ------------------------------------------------------------------------------------------
    def _header_exprs(self, s):
        """Expressions of statement s evaluated exactly once, unconditionally and first, when s runs."""
        if isinstance(s, (ast.Expr, ast.Return)):
            return [s.value] if s.value is not None else []
        if isinstance(s, ast.Assign):
            return [s.value]
        if isinstance(s, (ast.AugAssign, ast.AnnAssign)):
            return [s.value] if s.value is not None else []
        if isinstance(s, ast.If):
            return [s.test]
        if isinstance(s, ast.For):
            return [s.iter]
        if isinstance(s, ast.Raise):
            return [x for x in (s.exc,) if x is not None]
        if isinstance(s, ast.Assert):
            return [s.test]
        return []

    def _find_call(self, s, cands):
        """First helper call in the header of s that can be hoisted exactly: not under a short-circuit, conditional
        expression, comprehension or lambda.  Returns (call, name) or None; 'blocked' if a helper call sits somewhere else."""
        found = None
        blocked = False
        headers = self._header_exprs(s)

        def walk(e, ok):
            nonlocal found, blocked
            if isinstance(e, ast.Call):
                for name, info in cands.items():
                    if self._call_kind(e, name, info) is not None:
                        if ok and found is None:
                            found = (e, name)
                        elif not ok:
                            blocked = True
            if isinstance(e, ast.BoolOp):
                walk(e.values[0], ok)
                for v in e.values[1:]:
                    walk(v, False)
                return
            if isinstance(e, ast.IfExp):
                walk(e.test, ok)
                walk(e.body, False)
                walk(e.orelse, False)
                return
            if isinstance(e, (ast.ListComp, ast.SetComp, ast.DictComp, ast.GeneratorExp, ast.Lambda)):
                for ch in ast.iter_child_nodes(e):
                    walk(ch, False)
                return
            for ch in ast.iter_child_nodes(e):
                walk(ch, ok)
        for h in headers:
            walk(h, True)
        # helper calls in places we do not look at (while tests, with items, elif chains are handled as nested Ifs)
        if isinstance(s, (ast.While, ast.With)):
            hdr = [s.test] if isinstance(s, ast.While) else [i.context_expr for i in s.items]
            for h in hdr:
                for e in ast.walk(h):
                    if isinstance(e, ast.Call) and any(self._call_kind(e, n, i) is not None for n, i in cands.items()):
                        blocked = True
        return found, blocked

    # -- helpers that are one expression --------------------------------------------------------------------------------
    def _expr_body(self, fn):
        body = [x for x in fn.body if not (isinstance(x, ast.Expr) and isinstance(x.value, ast.Constant))]
        if len(body) == 1 and isinstance(body[0], ast.Return) and body[0].value is not None and not fn.args.vararg and not fn.args.kwarg:
            return body[0].value
        return None

    def _expr_replace(self, s, cands):
        """`return <expr>` helpers called with side-effect-free arguments are substituted where they stand - also inside lambdas,
        comprehensions and short-circuit operands, where no statement can be placed.  Returns True if something was replaced."""
        changed = False
        for _ in range(8):
            hit = None
            for e in ast.walk(s):
                if isinstance(e, (ast.FunctionDef, ast.ClassDef)) and e is not s:
                    continue
                if isinstance(e, ast.Call):
                    for name, info in cands.items():
                        if self._call_kind(e, name, info) is not None and self._expr_body(info[3]) is not None:
                            hit = (e, name, info)
                            break
                if hit:
                    break
            if not hit:
                break
            call, name, info = hit
            key, mod, cls, fn, _ = info
            expr = self._expr_body(fn)
            kind = _kind(fn)
            params = [a.arg for a in fn.args.posonlyargs + fn.args.args]
            kwonly = [a.arg for a in fn.args.kwonlyargs]
            defaults = dict(zip(reversed(params), reversed(fn.args.defaults)))
            kwdefaults = {a: d for a, d in zip(kwonly, fn.args.kw_defaults) if d is not None}
            ck, recv = self._call_kind(call, name, info)
            bind = {}
            pos = list(params)
            if cls is not None and kind in ('plain', 'class'):
                first = pos.pop(0)
                if kind == 'plain':
                    bind[first] = recv
                else:
                    r = ast.unparse(recv)
                    bind[first] = recv if (r == 'cls' or r[:1].isupper() or r.endswith('.__class__') or r.startswith('type(') or r.split('.')[-1][:1].isupper()) \
                        else ast.Attribute(value=recv, attr='__class__', ctx=ast.Load())
            if any(isinstance(a, ast.Starred) for a in call.args) or any(k.arg is None for k in call.keywords) or len(call.args) > len(pos):
                return changed
            for p_, a in zip(pos, call.args):
                bind[p_] = a
            bad = False
            for k in call.keywords:
                if (k.arg not in pos and k.arg not in kwonly) or k.arg in bind:
                    bad = True
                bind[k.arg] = k.value
            for p_ in pos + kwonly:
                if p_ not in bind:
                    d = defaults.get(p_, kwdefaults.get(p_))
                    if d is None:
                        bad = True
                    else:
                        bind[p_] = d
            bound_inside = {y.id for y in ast.walk(expr) if isinstance(y, ast.Name) and isinstance(y.ctx, ast.Store)} | \
                {a.arg for y in ast.walk(expr) if isinstance(y, ast.Lambda) for a in y.args.args}
            arg_names = {y.id for a in bind.values() for y in ast.walk(a) if isinstance(y, ast.Name)}
            if bad or not all(_pure(a) for a in bind.values()) or (bound_inside & (arg_names | set(bind))):
                return changed
            body_expr = copy.deepcopy(expr)
            cm = getattr(self, 'cur_mod', mod)
            if cls is None and cm != mod:
                wrapped = self._qualify([ast.Expr(value=body_expr)], mod, cm, set(bind) | bound_inside)
                body_expr = wrapped[0].value
            new = _Subst(bind).visit(body_expr)
            new = _ConstIfExp().visit(new)
            if not _replace_node(s, call, new):
                return changed
            changed = True
        return changed

    def _expand(self, s, call, name, info, caller=None):
        key, mod, cls, fn, _ = info
        self.counter += 1
        tag = f'_inl{self.counter}_'
        kind = _kind(fn)
        params = [a.arg for a in fn.args.posonlyargs + fn.args.args]
        kwonly = [a.arg for a in fn.args.kwonlyargs]
        defaults = dict(zip(reversed(params), reversed(fn.args.defaults)))
        kwdefaults = {a: d for a, d in zip(kwonly, fn.args.kw_defaults) if d is not None}
        ck, recv = self._call_kind(call, name, info)
        bind = {}
        pos = list(params)
        if cls is not None and kind in ('plain', 'class'):
            first = pos.pop(0)
            if kind == 'plain':
                bind[first] = recv
            else:
                r = ast.unparse(recv)
                bind[first] = recv if (r == 'cls' or r[:1].isupper() or r.endswith('.__class__') or r.startswith('type(') or r.split('.')[-1][:1].isupper()) \
                        else ast.Attribute(value=recv, attr='__class__', ctx=ast.Load())
        if any(isinstance(a, ast.Starred) for a in call.args):
            return None
        if any(k.arg is None for k in call.keywords) and not (fn.args.kwarg and all(_pure(k.value) for k in call.keywords if k.arg is None)):
            return None
        extra, extrakw = [], []
        npos = len([a for a in fn.args.posonlyargs + fn.args.args]) - (len(params) - len(pos))
        if len(call.args) > len(pos):
            if not fn.args.vararg:
                return None
            extra = list(call.args[len(pos):])
        for p, a in zip(pos, call.args):
            bind[p] = a
        posonly = {a.arg for a in fn.args.posonlyargs}
        for k in call.keywords:
            if k.arg is None:
                extrakw.append(k)
                continue
            if (k.arg not in pos and k.arg not in kwonly) or k.arg in posonly:
                if fn.args.kwarg:
                    extrakw.append(k)
                    continue
                return None
            if k.arg in bind:
                return None
            bind[k.arg] = k.value
        extra_prefix = []
        if any(not _pure(a) for a in extra) or any(not _pure(k.value) for k in extrakw):
            # forwarded arguments with something to evaluate: evaluated once, in order, before the helper's body (as at a call)
            if extrakw and any(not _pure(k.value) for k in extrakw):
                return None
            new_extra = []
            for j, a in enumerate(extra):
                if _pure(a):
                    new_extra.append(a)
                else:
                    tmp = f'{tag}arg{j}'
                    extra_prefix.append(ast.Assign(targets=[ast.Name(id=tmp, ctx=ast.Store())], value=a))
                    new_extra.append(ast.Name(id=tmp, ctx=ast.Load()))
            # (the pure ones before an impure one must not be re-ordered past it: names and constants are unaffected by evaluation)
            extra = new_extra
        for p in pos + kwonly:
            if p not in bind:
                d = defaults.get(p, kwdefaults.get(p))
                if d is None:
                    return None
                bind[p] = d
        fn = self._default_idiom(fn, bind)
        assigned = {x.id for x in _own_nodes(fn) if isinstance(x, ast.Name) and isinstance(x.ctx, (ast.Store, ast.Del))}
        for x in _own_nodes(fn):
            if isinstance(x, ast.ExceptHandler) and x.name:
                assigned.add(x.name)
            if isinstance(x, ast.FunctionDef):
                assigned.add(x.name)
        has_closures = any(isinstance(x, (ast.FunctionDef, ast.Lambda)) for x in ast.walk(fn) if x is not fn)
        if has_closures and caller is not None:
            # what the closures capture must stay what it is: an argument name the caller re-binds cannot be captured in its place
            caller_stores = {y.id for y in ast.walk(caller) if isinstance(y, ast.Name) and isinstance(y.ctx, (ast.Store, ast.Del))}
            for p_, a_ in bind.items():
                if isinstance(a_, ast.Name) and a_.id in caller_stores:
                    return None
        prefix = list(extra_prefix)
        mapping = {}
        # `v = helper(v, ...)`: the caller's v is dead once the statement completes, so the helper's parameter can be v itself
        reuse = None
        if isinstance(s, ast.Assign) and s.value is call and len(s.targets) == 1 and isinstance(s.targets[0], ast.Name):
            reuse = s.targets[0].id
        for p, a in bind.items():
            if _pure(a) and p not in assigned:
                mapping[p] = a
            elif reuse is not None and isinstance(a, ast.Name) and a.id == reuse:
                mapping[p] = a
            elif isinstance(a, ast.Name) and caller is not None and _dead_after(caller, s, a.id):
                mapping[p] = a            # the caller never looks at this variable again: the helper may work on it directly
            else:
                tmp = tag + p
                prefix.append(ast.Assign(targets=[ast.Name(id=tmp, ctx=ast.Store())], value=a))
                mapping[p] = ast.Name(id=tmp, ctx=ast.Load())
        for nm in assigned:
            if nm not in mapping:
                mapping[nm] = ast.Name(id=tag + nm, ctx=ast.Load())
        body = [copy.deepcopy(x) for x in fn.body]
        if body and isinstance(body[0], ast.Expr) and isinstance(body[0].value, ast.Constant) and isinstance(body[0].value.value, str):
            body = body[1:]
        if fn.args.vararg or fn.args.kwarg:
            fw = _Forward(fn.args.vararg.arg if fn.args.vararg else None, extra, fn.args.kwarg.arg if fn.args.kwarg else None, extrakw)
            body = [fw.visit(x) for x in body]
        cm = getattr(self, 'cur_mod', None)
        if cm is not None and cm != mod and cls is None:
            body = self._qualify(body, mod, cm, set(mapping) | assigned)
        sub = _Subst(mapping)
        body = [sub.visit(x) for x in body]
        body = _prune(body)            # a constant passed for a flag parameter decides the helper's branches
        for x in body:
            for y in ast.walk(x):
                if isinstance(y, ast.ExceptHandler) and y.name and y.name in mapping and isinstance(mapping[y.name], ast.Name):
                    y.name = mapping[y.name].id
        # how the value is used
        whole = None
        if isinstance(s, (ast.Expr, ast.Return)) and s.value is call:
            whole = 'stmt'
        elif isinstance(s, (ast.Assign, ast.AnnAssign, ast.AugAssign)) and s.value is call:
            whole = 'stmt'
        if whole:
            def make(v):
                v = v if v is not None else ast.Constant(value=None)
                t = copy.copy(s)
                t.value = v
                if isinstance(t, ast.Expr) and isinstance(v, (ast.Constant, ast.Name)):
                    return []
                if isinstance(t, ast.Assign) and len(t.targets) == 1 and isinstance(t.targets[0], ast.Name) and isinstance(v, ast.Name) \
                        and v.id == t.targets[0].id:
                    return []          # v = v
                if isinstance(t, ast.Assign) and len(t.targets) == 1 and isinstance(t.targets[0], ast.Attribute) and _pure(t.targets[0]) \
                        and isinstance(v, ast.Attribute) and ast.unparse(v) == ast.unparse(t.targets[0]):
                    return []          # self.x = self.x
                return [t]
            return prefix + _conv(body, make), None
        ret = tag + 'ret'

        def make(v):
            return [ast.Assign(targets=[ast.Name(id=ret, ctx=ast.Store())], value=v if v is not None else ast.Constant(value=None))]
        stmts = prefix + _conv(body, make)
        return stmts, ret

    def _is_function_ref(self, a):
        if isinstance(a, ast.Attribute) and isinstance(a.value, (ast.Name, ast.Attribute)):
            mod = ast.unparse(a.value).split('.')[-1]
            tree = self.mods.get(mod)
            return tree is not None and any(isinstance(x, ast.FunctionDef) and x.name == a.attr for x in tree.body)
        return False

    def _default_idiom(self, fn, bind):
        """`if p is None: p = <pure>` at the top of the helper, with a constant passed for p: decided here, so that p stays a plain
        substitution instead of a re-bound temporary.  Returns fn or a copy with those statements resolved (bind is updated)."""
        body = list(fn.body)
        start = 1 if body and isinstance(body[0], ast.Expr) and isinstance(body[0].value, ast.Constant) else 0
        new = body[:start]
        changed = False
        i = start
        while i < len(body):
            s = body[i]
            if isinstance(s, ast.If) and not s.orelse and len(s.body) == 1 and isinstance(s.body[0], ast.Assign) and len(s.body[0].targets) == 1 \
                    and isinstance(s.body[0].targets[0], ast.Name) and isinstance(s.test, ast.Compare) and len(s.test.ops) == 1 \
                    and isinstance(s.test.ops[0], ast.Is) and isinstance(s.test.left, ast.Name) and s.test.left.id == s.body[0].targets[0].id \
                    and isinstance(s.test.comparators[0], ast.Constant) and s.test.comparators[0].value is None:
                p = s.test.left.id
                a = bind.get(p)
                others = sum(1 for x in ast.walk(fn) if isinstance(x, ast.Name) and x.id == p and isinstance(x.ctx, (ast.Store, ast.Del)))
                if (isinstance(a, ast.Constant) or self._is_function_ref(a)) and others == 1 and _pure(s.body[0].value) \
                        and not any(isinstance(x, ast.Name) and x.id == p for x in ast.walk(s.body[0].value)):
                    if isinstance(a, ast.Constant) and a.value is None:
                        bind[p] = s.body[0].value
                    changed = True
                    i += 1
                    continue
            break
        if not changed:
            return fn
        new = copy.copy(fn)
        new.body = body[:start] + body[i:]
        return new

    def _module_names(self, mod):
        """Names bound at the top level of a module: definitions, assignments, imports."""
        out = set()
        for n in self.mods[mod].body:
            if isinstance(n, (ast.FunctionDef, ast.ClassDef)):
                out.add(n.name)
            elif isinstance(n, ast.Assign):
                out |= {t.id for t in n.targets if isinstance(t, ast.Name)}
            elif isinstance(n, ast.AnnAssign) and isinstance(n.target, ast.Name):
                out.add(n.target.id)
            elif isinstance(n, ast.Import):
                out |= {(a.asname or a.name.split('.')[0]) for a in n.names}
            elif isinstance(n, ast.ImportFrom):
                out |= {(a.asname or a.name) for a in n.names}
        return out

    def _qualify(self, body, home, here, local_names):
        """A module-level helper of module ``home`` is folded into module ``here``: names it takes from its own module and that
        mean nothing (or could mean something else) in the other module are written as home.name."""
        home_names, here_names = self._module_names(home), self._module_names(here)
        qual = ast.Name(id=home, ctx=ast.Load()) if home in here_names else \
            ast.Attribute(value=ast.Name(id='bitstring', ctx=ast.Load()), attr=home, ctx=ast.Load())
        plain_imports = {(a.asname or a.name.split('.')[0]) for n in self.mods[home].body if isinstance(n, ast.Import) for a in n.names}
        need = {n for n in home_names if n not in here_names and n not in local_names and n not in plain_imports}
        if not need:
            return body

        class Q(ast.NodeTransformer):
            def visit_Name(self, node):
                if isinstance(node.ctx, ast.Load) and node.id in need:
                    return ast.copy_location(ast.Attribute(value=copy.deepcopy(qual), attr=node.id, ctx=ast.Load()), node)
                return node
        return [Q().visit(b) for b in body]

    def _process_list(self, stmts, cands, caller=None):
        changed = False
        out = []
        for s in stmts:
            # `return A if c else helper(..)` is the statement form `if c: return A else: return helper(..)`
            if isinstance(s, (ast.Return, ast.Assign)) and isinstance(s.value, ast.IfExp) and any(
                    isinstance(x, ast.Call) and any(self._call_kind(x, n, i) is not None for n, i in cands.items())
                    for part in (s.value.body, s.value.orelse) for x in ast.walk(part)):
                a, b = copy.copy(s), copy.copy(s)
                a.value, b.value = s.value.body, s.value.orelse
                s = ast.copy_location(ast.If(test=s.value.test, body=[a], orelse=[b]), s)
                changed = True
            # nested statement lists first
            for fld in ('body', 'orelse', 'finalbody'):
                sub = getattr(s, fld, None)
                if isinstance(sub, list) and sub and isinstance(sub[0], ast.stmt) and not isinstance(s, (ast.FunctionDef, ast.ClassDef, ast.AsyncFunctionDef)):
                    new, ch = self._process_list(sub, cands, caller)
                    if ch:
                        setattr(s, fld, new)
                        changed = True
            if isinstance(s, ast.FunctionDef) and caller is not None:
                # a closure defined in the function: its body is rewritten like any other (free variables keep their meaning)
                new, ch = self._process_list(s.body, cands, s)
                if ch:
                    s.body = new
                    changed = True
                out.append(s)
                continue
            if isinstance(s, ast.Try):
                for h in s.handlers:
                    new, ch = self._process_list(h.body, cands, caller)
                    if ch:
                        h.body = new
                        changed = True
            if self._expr_replace(s, cands):
                changed = True
            guard = 0
            cur = [s]
            while guard < 20:
                guard += 1
                found, blocked = self._find_call(cur[-1], cands)
                if blocked:
                    raise _Blocked()
                if not found:
                    break
                call, name = found
                res = self._expand(cur[-1], call, name, cands[name], caller)
                if res is None:
                    raise _Blocked()
                new_stmts, ret = res
                if ret is None:
                    cur = cur[:-1] + new_stmts
                    changed = True
                    break          # the statement itself was distributed into the helper's paths
                last = cur[-1]
                _replace_node(last, call, ast.Name(id=ret, ctx=ast.Load()))
                cur = cur[:-1] + new_stmts + [last]
                changed = True
            out.extend(cur)
        return out, changed

    def _usable(self, cands):
        """Candidates all of whose references are recognised calls."""
        cands = dict(cands)
        for mod, tree in self.mods.items():
            if mod == 'luts':
                continue
            calls = {id(x.func) for x in ast.walk(tree) if isinstance(x, ast.Call)}
            imported = {(a.asname or a.name) for n_ in ast.walk(tree) if isinstance(n_, ast.ImportFrom) for a in n_.names}

            def could_be(x, nm):
                """Can this occurrence of the name refer to the candidate?  A module-level function of module H is H's bare name in H,
                an imported bare name elsewhere, or <...>.H.name; a parameter or local called the same in another module is not it."""
                info = cands[nm]
                if info[2] is not None:            # a method: any attribute of that name may be it
                    return True
                if isinstance(x, ast.Name):
                    return mod == info[1] or nm in imported
                if isinstance(x, ast.Attribute):
                    return isinstance(x.value, (ast.Name, ast.Attribute)) and ast.unparse(x.value).split('.')[-1] == info[1]
                return False
            for x in ast.walk(tree):
                nm = x.id if isinstance(x, ast.Name) else x.attr if isinstance(x, ast.Attribute) else None
                if nm in cands and not (isinstance(x, ast.Name) and isinstance(x.ctx, ast.Store)) and could_be(x, nm):
                    if id(x) not in calls:
                        cands.pop(nm, None)
            for x in ast.walk(tree):
                if isinstance(x, ast.Call):
                    for nm in list(cands):
                        f = x.func
                        named = ((isinstance(f, ast.Name) and f.id == nm) or (isinstance(f, ast.Attribute) and f.attr == nm)) and could_be(f, nm)
                        if named and self._call_kind(x, nm, cands[nm]) is None:
                            cands.pop(nm, None)
        return cands

    def _related(self, c1, c2):
        if c1 is None or c2 is None:
            return False
        bases = {}
        for m_, t in self.mods.items():
            if m_ == 'luts':
                continue
            for n in t.body:
                if isinstance(n, ast.ClassDef):
                    bases[n.name] = [ast.unparse(b).split('.')[-1] for b in n.bases]
        def anc(c, seen=()):
            out = {c}
            for b in bases.get(c, ()):
                if b not in seen:
                    out |= anc(b, seen + (c,))
            return out
        return c2 in anc(c1) or c1 in anc(c2)

    @staticmethod
    def _touches_private_state(fn):
        first = (fn.args.posonlyargs + fn.args.args)[:1]
        if not first:
            return False
        me = first[0].arg
        return any(isinstance(x, ast.Attribute) and isinstance(x.value, ast.Name) and x.value.id == me and x.attr.startswith('_')
                   and not x.attr.startswith('__') for x in ast.walk(fn) if not _is_called(fn, x))

    def run(self):
        cands = self.candidates()
        if not cands:
            return {}
        # every reference to a candidate must be a recognised call; otherwise drop the candidate
        dropped = set(cands)
        cands = self._usable(cands)
        dropped -= set(cands)
        touched = {}
        # helpers may call helpers: integrate one at a time, innermost first by repeating until nothing changes
        for _round in range(16):
            progress = False
            for name in sorted(cands):
                info = cands[name]
                one = {name: info}
                backup = {m: copy.deepcopy(t) for m, t in self.mods.items() if m != 'luts'}
                try:
                    any_change = False
                    for key, mod, cls, fn, container in list(_functions(self.mods)):
                        if fn is info[3]:
                            continue
                        if _uses_super(info[3]) and (cls != info[2] or mod != info[1]) and any(
                                isinstance(x, ast.Call) and self._call_kind(x, name, info) is not None for x in ast.walk(fn)):
                            raise _Blocked()       # zero-argument super() means something else in another class
                        if info[2] is not None and cls != info[2] and not self._related(cls, info[2]) and self._touches_private_state(info[3]) and any(
                                isinstance(x, ast.Call) and self._call_kind(x, name, info) is not None for x in ast.walk(fn)):
                            raise _Blocked()       # a method reading its object's private fields stays inside its class: who may
                            #                        consult which field is itself something the rules decide
                        self.cur_mod = mod
                        new, ch = self._process_list(fn.body, one, fn)
                        if ch:
                            fn.body = new
                            any_change = True
                            touched.setdefault(mod, set()).add(key)
                    # module-level statements
                    for mod, tree in self.mods.items():
                        if mod == 'luts':
                            continue
                        for n in tree.body:
                            if not isinstance(n, (ast.FunctionDef, ast.ClassDef)) and any(
                                    isinstance(x, ast.Call) and self._call_kind(x, name, info) is not None for x in ast.walk(n)):
                                raise _Blocked()
                    if any_change:
                        # nothing may still call it (e.g. from a nested closure we do not rewrite)
                        for m2, t2 in self.mods.items():
                            if m2 == 'luts':
                                continue
                            for x in ast.walk(t2):
                                if isinstance(x, ast.Call) and self._call_kind(x, name, info) is not None and \
                                        not any(x is y for y in ast.walk(info[3])):
                                    raise _Blocked()
                        if not _remove_def(self.mods[info[1]], info[3]):
                            raise _Blocked()
                        self.done.append(info[0])
                        # leave each rewritten caller in its normal form (the next helper may only become integrable then)
                        for key2, mod2, cls2, fn2, _c2 in list(_functions(self.mods)):
                            if key2 in touched.get(mod2, ()):
                                nb = _prune([_OperatorCalls(_literal_tables(self.mods[mod2]), _all_tables(self.mods, self), mod2).visit(b) for b in fn2.body])
                                fn2.body = nb
                                tidy(fn2)
                        cands.pop(name)
                        # consistent line numbers for the next helper (and for the rules): re-parse what was rewritten
                        for m2 in list(self.mods):
                            if m2 != 'luts' and (m2 in touched or m2 == info[1]):
                                ast.fix_missing_locations(self.mods[m2])
                                self.mods[m2] = ast.parse(ast.unparse(self.mods[m2]))
                        # (integration can bring new candidates with it: closures of an integrated factory, under their new names)
                        fresh = self.candidates()
                        newly = {k: v for k, v in fresh.items() if k not in cands and k not in dropped}
                        usable_new = self._usable(newly) if newly else {}
                        dropped |= set(newly) - set(usable_new)
                        cands = {k: v for k, v in fresh.items() if k in cands or k in usable_new}
                        progress = True
                        break
                except _Blocked:
                    for m, t in backup.items():
                        self.mods[m] = t
                    # the restored trees are copies: candidate records point into the old trees, so recompute them
                    dropped.add(name)
                    cands = {k: v for k, v in self.candidates().items() if k in cands and k != name}
                    progress = True
                    break
            if not progress:
                break
        return touched


def _remove_def(tree, fn):
    """Take the definition out of whichever statement list holds it now (lists are rebuilt while statements are expanded)."""
    for parent in ast.walk(tree):
        for fld in ('body', 'orelse', 'finalbody'):
            lst = getattr(parent, fld, None)
            if isinstance(lst, list):
                for i, st in enumerate(lst):
                    if st is fn:
                        del lst[i]
                        if not lst and fld == 'body':
                            lst.append(ast.Pass())
                        return True
    return False


class _Blocked(Exception):
    pass


def _truth(e):
    """True / False if the test is decided by constants alone, else None."""
    if isinstance(e, ast.Constant) and isinstance(e.value, (bool, int, type(None), str)):
        return bool(e.value)
    if isinstance(e, ast.Lambda):
        return True
    if isinstance(e, ast.Compare) and len(e.ops) == 1 and isinstance(e.ops[0], (ast.Is, ast.IsNot)):
        a, b = e.left, e.comparators[0]
        for u, v in ((a, b), (b, a)):
            if isinstance(v, ast.Constant) and v.value is None:
                if isinstance(u, ast.Lambda):
                    return isinstance(e.ops[0], ast.IsNot)
                if isinstance(u, ast.Constant):
                    return (u.value is None) == isinstance(e.ops[0], ast.Is)
    if isinstance(e, ast.UnaryOp) and isinstance(e.op, ast.Not):
        v = _truth(e.operand)
        return None if v is None else not v
    if isinstance(e, ast.BoolOp):
        vals = [_truth(v) for v in e.values]
        if isinstance(e.op, ast.And):
            # evaluation stops at the first false operand; operands before it must be side-effect free constants or tests
            for v, node in zip(vals, e.values):
                if v is False:
                    return False
                if v is None:
                    break
            return True if all(v is True for v in vals) else None
        for v in vals:
            if v is True:
                return True
            if v is None:
                break
        return False if all(v is False for v in vals) else None
    return None


class _ConstIfExp(ast.NodeTransformer):
    def visit_IfExp(self, node):
        self.generic_visit(node)
        t = _truth(node.test)
        if t is True:
            return node.body
        if t is False:
            return node.orelse
        return node


def _prune(stmts, top=True):
    if top:
        stmts = [_ConstIfExp().visit(s) for s in stmts]
    out = []
    for s in stmts:
        if isinstance(s, ast.If):
            s.body = _prune(s.body, False)
            s.orelse = _prune(s.orelse, False)
            t = _truth(s.test)
            if t is True:
                out.extend(s.body)
                continue
            if t is False:
                out.extend(s.orelse)
                continue
            if not s.body:
                s.body = [ast.Pass()]
            if s.orelse and all(isinstance(b, ast.Pass) for b in s.body):
                # `if c: pass else: X` is `if not c: X`
                t0 = s.test
                inv = {ast.Eq: ast.NotEq, ast.NotEq: ast.Eq, ast.Lt: ast.GtE, ast.GtE: ast.Lt, ast.Gt: ast.LtE, ast.LtE: ast.Gt, ast.Is: ast.IsNot,
                       ast.IsNot: ast.Is, ast.In: ast.NotIn, ast.NotIn: ast.In}
                if isinstance(t0, ast.UnaryOp) and isinstance(t0.op, ast.Not):
                    s.test = t0.operand
                elif isinstance(t0, ast.Compare) and len(t0.ops) == 1 and type(t0.ops[0]) in inv:
                    s.test = ast.Compare(left=t0.left, ops=[inv[type(t0.ops[0])]()], comparators=t0.comparators)
                else:
                    s.test = ast.UnaryOp(op=ast.Not(), operand=t0)
                s.body, s.orelse = s.orelse, []
        out.append(s)
        if isinstance(s, (ast.Raise, ast.Return)):
            break              # what follows an unconditional raise/return (after a flag was decided) cannot run
    return out


def _dead_after(caller, s, name):
    """No read of ``name`` in ``caller`` can execute after statement ``s``: not in the statements that follow s in its block or
    in the blocks enclosing it (the other branch of an enclosing `if` does not follow it), and s is not inside a loop."""
    for x in ast.walk(caller):
        if isinstance(x, (ast.For, ast.While)) and any(s is y for y in ast.walk(x)):
            return False
        if isinstance(x, (ast.FunctionDef, ast.Lambda)) and x is not caller and any(isinstance(y, ast.Name) and y.id == name for y in ast.walk(x)):
            return False

    def path(node):
        """[(parent statement, field, index)] from the caller's body down to s."""
        for fld in ('body', 'orelse', 'finalbody', 'handlers'):
            lst = getattr(node, fld, None)
            if not isinstance(lst, list):
                continue
            for i, c in enumerate(lst):
                if c is s:
                    return [(node, fld, i)]
                if isinstance(c, (ast.stmt, ast.ExceptHandler)):
                    sub = path(c)
                    if sub is not None:
                        return [(node, fld, i)] + sub
        return None
    p = path(caller)
    if p is None:
        return False
    later = []
    if isinstance(s, (ast.Return, ast.Raise)) and not any(isinstance(parent, ast.Try) for parent, _f, _i in p):
        p = []                 # the statement leaves the function, and no handler or finally clause is in the way
    for parent, fld, i in reversed(p):
        lst = getattr(parent, fld)
        if fld == 'handlers':
            later.extend(getattr(parent, 'finalbody', []))
            continue
        later.extend(lst[i + 1:])
        if isinstance(parent, ast.Try):
            if fld == 'body':
                later.extend(parent.handlers + parent.orelse + parent.finalbody)
            elif fld == 'orelse':
                later.extend(parent.finalbody)
        elif _always_exits(lst[i + 1:]) and not any(isinstance(q, ast.Try) for q, _f, _i in p):
            break              # the rest of this block leaves the function: nothing further out runs after s
    for st in later:
        for x in ast.walk(st):
            if isinstance(x, ast.Name) and x.id == name and isinstance(x.ctx, ast.Load):
                return False
    return True


def _replace_node(root, old, new):
    for parent in ast.walk(root):
        for fld, val in ast.iter_fields(parent):
            if val is old:
                setattr(parent, fld, new)
                return True
            if isinstance(val, list):
                for i, v in enumerate(val):
                    if v is old:
                        val[i] = new
                        return True
    return False


_OPERATOR = {'and_': ast.BitAnd, 'or_': ast.BitOr, 'xor': ast.BitXor, 'add': ast.Add, 'sub': ast.Sub, 'mul': ast.Mult,
             'lshift': ast.LShift, 'rshift': ast.RShift, 'floordiv': ast.FloorDiv, 'truediv': ast.Div, 'mod': ast.Mod,
             }
_OPERATOR_CMP = {'eq': ast.Eq, 'ne': ast.NotEq, 'lt': ast.Lt, 'le': ast.LtE, 'gt': ast.Gt, 'ge': ast.GtE, 'is_': ast.Is, 'is_not': ast.IsNot}
_OPERATOR_INPLACE = {'iand': ast.BitAnd, 'ior': ast.BitOr, 'ixor': ast.BitXor, 'iadd': ast.Add, 'isub': ast.Sub, 'imul': ast.Mult,
                     'ilshift': ast.LShift, 'irshift': ast.RShift}


def _literal_tables(tree):
    """Module-level dict / tuple literals that are only ever read (name -> literal node)."""
    out = {}
    for n in tree.body:
        tgt = val = None
        if isinstance(n, ast.Assign) and len(n.targets) == 1 and isinstance(n.targets[0], ast.Name):
            tgt, val = n.targets[0].id, n.value
        elif isinstance(n, ast.AnnAssign) and isinstance(n.target, ast.Name) and n.value is not None:
            tgt, val = n.target.id, n.value
        if tgt and isinstance(val, (ast.Dict, ast.Tuple)):
            out[tgt] = val
    for x in ast.walk(tree):
        if isinstance(x, ast.Name) and x.id in out and isinstance(x.ctx, (ast.Store, ast.Del)) and sum(
                1 for n in tree.body for y in ast.walk(n) if isinstance(y, ast.Name) and y.id == x.id and isinstance(y.ctx, ast.Store)) > 1:
            out.pop(x.id, None)
    # any use other than a subscript load could change it (passed around, .update(), ...)
    parents = {}
    for p_ in ast.walk(tree):
        for c in ast.iter_child_nodes(p_):
            parents[id(c)] = p_
    for x in ast.walk(tree):
        if isinstance(x, ast.Name) and x.id in out and isinstance(x.ctx, ast.Load):
            par = parents.get(id(x))
            ok = (isinstance(par, ast.Subscript) and par.value is x and isinstance(par.ctx, ast.Load)) or \
                (isinstance(par, ast.Compare) and x in par.comparators and all(isinstance(o, (ast.In, ast.NotIn)) for o in par.ops)) or \
                isinstance(par, (ast.For, ast.comprehension)) or \
                (isinstance(par, ast.Attribute) and par.attr in ('items', 'keys', 'values', 'get') and isinstance(par.ctx, ast.Load))
            if not ok:
                out.pop(x.id, None)
    return out


def _all_tables(mods, inl):
    out = {m_: _literal_tables(t) for m_, t in mods.items() if m_ != 'luts'}
    out['*names'] = {m_: inl._module_names(m_) for m_ in mods if m_ != 'luts'}
    return out


def _simple_literal(e, depth=0):
    if isinstance(e, (ast.Name, ast.Constant)):
        return True
    if isinstance(e, ast.Attribute):
        return _simple_literal(e.value, depth)
    if isinstance(e, (ast.Tuple, ast.List)) and depth < 3:
        return all(_simple_literal(x, depth + 1) for x in e.elts)
    if isinstance(e, ast.Dict) and depth < 3:
        return all(k is not None and isinstance(k, ast.Constant) for k in e.keys) and all(_simple_literal(v, depth + 1) for v in e.values)
    return False


class _QualifyLiteral(ast.NodeTransformer):
    def __init__(self, qual, names):
        self.qual, self.names = qual, names

    def visit_Name(self, node):
        if isinstance(node.ctx, ast.Load) and node.id in self.names:
            return ast.Attribute(value=copy.deepcopy(self.qual), attr=node.id, ctx=ast.Load())
        return node


class _OperatorCalls(ast.NodeTransformer):
    """operator.and_(a, b) -> a & b (what it means), so that an operator handed to a merged helper reads as the operator.
    The in-place forms are only rewritten where they mean exactly an augmented assignment: `X = operator.ior(X, Y)` -> `X |= Y`
    (anywhere else they stay calls: `a | b` would hide that the left operand is modified)."""
    def __init__(self, tables=None, other_tables=None, here=None):
        self.tables = tables or {}
        self.other = other_tables or {}       # {module name: its literal tables}
        self.here = here                      # name of the module being rewritten

    def visit_IfExp(self, node):
        self.generic_visit(node)
        # the same thing either way (and a test without calls): the thing
        if ast.dump(node.body) == ast.dump(node.orelse) and not any(isinstance(y, (ast.Call, ast.NamedExpr, ast.Await)) for y in ast.walk(node.test)):
            return node.body
        return node

    def visit_BoolOp(self, node):
        self.generic_visit(node)
        # literal True / False operands of and / or
        vals = []
        for v in node.values:
            if isinstance(v, ast.UnaryOp) and isinstance(v.op, ast.Not) and isinstance(v.operand, ast.Constant) and isinstance(v.operand.value, bool):
                v = ast.Constant(value=not v.operand.value)
            vals.append(v)
        out = []
        for i, v in enumerate(vals):
            if isinstance(v, ast.Constant) and isinstance(v.value, bool):
                if isinstance(node.op, ast.And):
                    if v.value:
                        continue
                    return v if not out else ast.BoolOp(op=node.op, values=out + [v]) if len(out) else v
                else:
                    if not v.value:
                        continue
                    return v if not out else ast.BoolOp(op=node.op, values=out + [v])
            out.append(v)
        if not out:
            return ast.Constant(value=isinstance(node.op, ast.And))
        if len(out) == 1 and len(out) != len(vals):
            return out[0] if isinstance(out[0], (ast.Compare, ast.UnaryOp, ast.BoolOp)) or True else out[0]
        if len(out) != len(vals):
            return ast.BoolOp(op=node.op, values=out)
        return node

    def visit_Subscript(self, node):
        self.generic_visit(node)
        if not isinstance(node.ctx, ast.Load) or isinstance(node.slice, ast.Slice):
            return node
        base = node.value
        if isinstance(base, ast.Name) and base.id in self.tables:
            base = self.tables[base.id]
        elif isinstance(base, ast.Attribute) and isinstance(base.value, (ast.Name, ast.Attribute)):
            modname = ast.unparse(base.value).split('.')[-1]
            if modname in self.other and base.attr in self.other[modname]:
                # a table of another module: what it lists is written in that module's terms
                tbl = self.other[modname][base.attr]
                names_ = self.other.get('*names', {})
                base = _QualifyLiteral(copy.deepcopy(base.value), names_.get(modname, set()) - names_.get(self.here, set())).visit(copy.deepcopy(tbl))
        # TABLE['key'] / {..}['key'] with a literal key the literal lists: the value it lists
        if isinstance(base, ast.Dict) and isinstance(node.slice, ast.Constant) and all(k is not None and isinstance(k, ast.Constant) for k in base.keys):
            hits = [v for k, v in zip(base.keys, base.values) if k.value == node.slice.value and type(k.value) is type(node.slice.value)]
            if len(hits) == 1 and _simple_literal(hits[0]):
                return ast.copy_location(copy.deepcopy(hits[0]), node)
        # {True: A, False: B}[<comparison>]: A if <comparison> else B
        if isinstance(base, ast.Dict) and len(base.keys) == 2 and all(isinstance(k, ast.Constant) and isinstance(k.value, bool) for k in base.keys) \
                and {k.value for k in base.keys} == {True, False} and isinstance(node.slice, (ast.Compare, ast.BoolOp)) \
                and all(_simple_literal(v) for v in base.values):
            t = next(v for k, v in zip(base.keys, base.values) if k.value is True)
            f = next(v for k, v in zip(base.keys, base.values) if k.value is False)
            return ast.copy_location(ast.IfExp(test=node.slice, body=copy.deepcopy(t), orelse=copy.deepcopy(f)), node)
        if isinstance(base, ast.Tuple) and isinstance(node.slice, ast.Constant) and isinstance(node.slice.value, int) \
                and not isinstance(node.slice.value, bool) and -len(base.elts) <= node.slice.value < len(base.elts) and isinstance(node.value, ast.Tuple) \
                and _simple_literal(base):
            return ast.copy_location(copy.deepcopy(base.elts[node.slice.value]), node)
        return node

    def visit_Assign(self, node):
        v = node.value
        if isinstance(v, ast.Call) and isinstance(v.func, ast.Attribute) and isinstance(v.func.value, ast.Name) and v.func.value.id == 'operator' \
                and v.func.attr in _OPERATOR_INPLACE and len(v.args) == 2 and not v.keywords and len(node.targets) == 1 \
                and isinstance(node.targets[0], (ast.Name, ast.Attribute)) and ast.unparse(node.targets[0]) == ast.unparse(v.args[0]):
            self.generic_visit(v.args[1])
            return ast.copy_location(ast.AugAssign(target=node.targets[0], op=_OPERATOR_INPLACE[v.func.attr](), value=v.args[1]), node)
        self.generic_visit(node)
        return node

    def visit_Call(self, node):
        self.generic_visit(node)
        f = node.func
        # (lambda a, b: E)(x, y) with side-effect-free arguments is E[a := x, b := y]
        if isinstance(f, ast.Lambda) and not node.keywords and not f.args.vararg and not f.args.kwarg and not f.args.kwonlyargs \
                and not f.args.defaults and len(node.args) == len(f.args.posonlyargs + f.args.args) \
                and all(_pure(a) and not isinstance(a, ast.Starred) for a in node.args):
            params = [a.arg for a in f.args.posonlyargs + f.args.args]
            bound_inside = {y.id for y in ast.walk(f.body) if isinstance(y, ast.Name) and isinstance(y.ctx, ast.Store)} | \
                {a.arg for y in ast.walk(f.body) if isinstance(y, ast.Lambda) for a in y.args.args}
            arg_names = {y.id for a in node.args for y in ast.walk(a) if isinstance(y, ast.Name)}
            if not (bound_inside & (arg_names | set(params))):
                new = _Subst(dict(zip(params, node.args))).visit(copy.deepcopy(f.body))
                return ast.copy_location(self.visit(new) if isinstance(new, ast.Call) else new, node)
        # getattr(x, 'name') with a literal identifier is the attribute x.name
        if isinstance(f, ast.Name) and f.id == 'getattr' and len(node.args) == 2 and not node.keywords and isinstance(node.args[1], ast.Constant) \
                and isinstance(node.args[1].value, str) and node.args[1].value.isidentifier() and _pure(node.args[0]):
            return ast.copy_location(ast.Attribute(value=node.args[0], attr=node.args[1].value, ctx=ast.Load()), node)
        if isinstance(f, ast.Attribute) and isinstance(f.value, ast.Name) and f.value.id == 'operator' and f.attr in _OPERATOR_CMP \
                and len(node.args) == 2 and not node.keywords:
            return ast.copy_location(ast.Compare(left=node.args[0], ops=[_OPERATOR_CMP[f.attr]()], comparators=[node.args[1]]), node)
        if isinstance(f, ast.Attribute) and isinstance(f.value, ast.Name) and f.value.id == 'operator' and f.attr in _OPERATOR \
                and len(node.args) == 2 and not node.keywords:
            return ast.copy_location(ast.BinOp(left=node.args[0], op=_OPERATOR[f.attr](), right=node.args[1]), node)
        return node


# ---------------------------------------------------------------------------------------------- tidy-up after integration
def _noneness(v):
    """True: the expression is None; False: it certainly is not (a tuple/list/dict/number/string display); None: unknown."""
    if isinstance(v, ast.Constant):
        return v.value is None
    if isinstance(v, (ast.Tuple, ast.List, ast.Dict, ast.Set, ast.JoinedStr)):
        return False
    if isinstance(v, ast.Call) and isinstance(v.func, (ast.Name, ast.Attribute)):
        last = v.func.id if isinstance(v.func, ast.Name) else v.func.attr
        if last[:1].isupper():
            return False          # instantiating a class (CreationError(...)) never gives None
        builtin_values = ('int', 'str', 'bytes', 'float', 'bool', 'len', 'abs', 'bin', 'hex', 'oct', 'tuple', 'list', 'dict', 'set', 'frozenset',
                          'bytearray', 'repr', 'format', 'sum', 'round', 'divmod', 'ord', 'chr', 'sorted', 'reversed', 'range', 'enumerate', 'zip')
        if isinstance(v.func, ast.Name) and v.func.id in builtin_values:
            return False
        if isinstance(v.func, ast.Attribute) and isinstance(v.func.value, ast.Name) and v.func.value.id in ('int', 'str', 'bytes', 'float', 'bytearray') \
                and v.func.attr in ('from_bytes', 'fromhex', 'join', 'format', 'maketrans'):
            return False          # int.from_bytes(..) and the like
    return None


def _last_binding(stmts, name):
    """The value `name` certainly holds at the end of the statement list: the list ends in `name = <value>`."""
    if stmts and isinstance(stmts[-1], ast.Assign) and len(stmts[-1].targets) == 1 and isinstance(stmts[-1].targets[0], ast.Name) \
            and stmts[-1].targets[0].id == name:
        return stmts[-1].value
    return None


def _sentinel_test(t):
    """(name, True if the test holds when the name is None) for `x is None` / `x is not None` / `not x` / `x`."""
    if isinstance(t, ast.Compare) and len(t.ops) == 1 and isinstance(t.left, ast.Name) and isinstance(t.comparators[0], ast.Constant) \
            and t.comparators[0].value is None and isinstance(t.ops[0], (ast.Is, ast.IsNot, ast.Eq, ast.NotEq)):
        return t.left.id, isinstance(t.ops[0], (ast.Is, ast.Eq))
    return None


def _thread(stmts):
    """Jump threading for the optional-result idiom an extracted helper leaves behind:

        if c: ...; r = None          if c: ...; r = None; <A>
        else: ...; r = (a, b)   =>   else: ...; r = (a, b); <B, rest>
        if r is None: <A>
        <rest>

    Both branches of the first `if` end by binding r to something whose None-ness is evident, so the test that follows is
    decided separately in each branch."""
    out = list(stmts)
    i = 0
    changed = False
    while i < len(out) - 1:
        s, nxt = out[i], out[i + 1]
        if isinstance(s, ast.If) and s.orelse and isinstance(nxt, ast.If):
            st = _sentinel_test(nxt.test)
            if st is not None:
                name, when_none = st
                vb, ve = _last_binding(s.body, name), _last_binding(s.orelse, name)
                nb, ne = (_noneness(vb) if vb is not None else None), (_noneness(ve) if ve is not None else None)
                if nb is not None and ne is not None:
                    rest = out[i + 2:]

                    def cont(is_none):
                        taken = nxt.body if is_none == when_none else nxt.orelse
                        return copy.deepcopy(list(taken)) + ([] if _always_exits(taken) else copy.deepcopy(rest))
                    s.body = list(s.body) + cont(nb)
                    s.orelse = list(s.orelse) + cont(ne)
                    out = out[:i + 1]
                    changed = True
                    break
        i += 1
    # the same test twice in a row (`if c: A else: B` then `if c: C else: D`), nothing in A or B changing what c reads:
    # `if c: A; C else: B; D`
    i = 0
    while i < len(out) - 1 and not changed:
        s, nxt = out[i], out[i + 1]
        if isinstance(s, ast.If) and isinstance(nxt, ast.If) and ast.dump(s.test) == ast.dump(nxt.test):
            calls_ok = all(isinstance(y.func, ast.Name) and y.func.id in ('isinstance', 'len', 'callable', 'hasattr') for y in ast.walk(s.test) if isinstance(y, ast.Call))
            tnames = {y.id for y in ast.walk(s.test) if isinstance(y, ast.Name)}
            def root_(a):
                while isinstance(a, ast.Attribute):
                    a = a.value
                return a.id if isinstance(a, ast.Name) else None
            # attributes of objects (self.x) may be changed by calls in between; attributes of modules (numbers.Integral) not
            tattrs = any(isinstance(y, ast.Attribute) and root_(y) in (None, 'self', 'cls') for y in ast.walk(s.test)) or any(
                isinstance(y, ast.Attribute) and root_(y) in {z.id for b in s.body + s.orelse for z in ast.walk(b) if isinstance(z, ast.Name)} - {'numbers', 'abc', 'io', 'math'}
                for y in ast.walk(s.test))
            stored = {y.id for b in s.body + s.orelse for y in ast.walk(b) if isinstance(y, ast.Name) and isinstance(y.ctx, (ast.Store, ast.Del))}
            effects = any(isinstance(y, ast.Call) for b in s.body + s.orelse for y in ast.walk(b)) and tattrs
            if calls_ok and not (tnames & stored) and not effects:
                rest = out[i + 2:]
                tail_b = copy.deepcopy(list(nxt.body)) + ([] if _always_exits(nxt.body) else copy.deepcopy(rest))
                tail_e = copy.deepcopy(list(nxt.orelse)) + ([] if (nxt.orelse and _always_exits(nxt.orelse)) else copy.deepcopy(rest))
                s.body = list(s.body) + ([] if _always_exits(s.body) else tail_b)
                s.orelse = list(s.orelse) + ([] if (s.orelse and _always_exits(s.orelse)) else tail_e)
                out = out[:i + 1]
                changed = True
                break
        i += 1
    # the same through a try: each handler and the else-clause end by binding r
    i = 0
    while i < len(out) - 1:
        s, nxt = out[i], out[i + 1]
        if isinstance(s, ast.Try) and s.orelse and not s.finalbody and isinstance(nxt, ast.If):
            st = _sentinel_test(nxt.test)
            if st is not None:
                name, when_none = st
                parts = [h.body for h in s.handlers] + [s.orelse]
                vals = [_last_binding(p_, name) for p_ in parts]
                nones = [(_noneness(v) if v is not None else None) for v in vals]
                bound_in_body = any(isinstance(y, ast.Name) and y.id == name and isinstance(y.ctx, ast.Store) for b in s.body for y in ast.walk(b))
                if all(n_ is not None for n_ in nones) and not bound_in_body:
                    rest = out[i + 2:]

                    def cont2(is_none):
                        taken = nxt.body if is_none == when_none else nxt.orelse
                        return copy.deepcopy(list(taken)) + ([] if _always_exits(taken) else copy.deepcopy(rest))
                    for h, n_ in zip(s.handlers, nones[:-1]):
                        h.body = list(h.body) + cont2(n_)
                    s.orelse = list(s.orelse) + cont2(nones[-1])
                    out = out[:i + 1]
                    changed = True
                    break
        i += 1
    for s in out:
        for h in getattr(s, 'handlers', []) or []:
            new, ch = _thread(h.body)
            if ch:
                h.body = new
                changed = True
        for fld in ('body', 'orelse', 'finalbody'):
            sub = getattr(s, fld, None)
            if isinstance(sub, list) and sub and isinstance(sub[0], ast.stmt) and not isinstance(s, (ast.FunctionDef, ast.ClassDef)):
                new, ch = _thread(sub)
                if ch:
                    setattr(s, fld, new)
                    changed = True
    return out, changed


def _unnest(stmts):
    """`if c: <exits> else: <rest>` -> `if c: <exits>` followed by <rest> (same paths, the usual guard shape)."""
    out = []
    changed = False
    for s in stmts:
        for fld in ('body', 'orelse', 'finalbody'):
            sub = getattr(s, fld, None)
            if isinstance(sub, list) and sub and isinstance(sub[0], ast.stmt) and not isinstance(s, (ast.FunctionDef, ast.ClassDef)):
                new, ch = _unnest(sub)
                if ch:
                    setattr(s, fld, new)
                    changed = True
        if isinstance(s, ast.Try) and s.orelse and not s.finalbody and s.handlers and all(_always_exits(h.body) for h in s.handlers):
            # `try: A except E: <leaves> else: B` is `try: A except E: <leaves>` followed by B
            tail = s.orelse
            s.orelse = []
            out.append(s)
            out.extend(tail)
            changed = True
            continue
        if isinstance(s, ast.If) and s.orelse and _always_exits(s.body):
            tail = s.orelse
            s.orelse = []
            out.append(s)
            out.extend(tail)
            changed = True
            continue
        out.append(s)
    return out, changed


class _ConstantsRight(ast.NodeTransformer):
    """`0 == x`, `8 < n`: the literal goes to the right (`x == 0`, `n > 8`) - one spelling for the rules to know."""
    _SW = {ast.Lt: ast.Gt, ast.Gt: ast.Lt, ast.LtE: ast.GtE, ast.GtE: ast.LtE, ast.Eq: ast.Eq, ast.NotEq: ast.NotEq}

    def visit_Compare(self, node):
        self.generic_visit(node)
        lit = lambda e: isinstance(e, ast.Constant) or (isinstance(e, ast.UnaryOp) and isinstance(e.op, (ast.USub, ast.UAdd)) and isinstance(e.operand, ast.Constant))
        if len(node.ops) == 1 and type(node.ops[0]) in self._SW and lit(node.left) and not lit(node.comparators[0]):
            node.left, node.comparators, node.ops = node.comparators[0], [node.left], [self._SW[type(node.ops[0])]()]
        return node


class _NegationsInward(ast.NodeTransformer):
    """`not (not a and not b)` reads `a or b`: negations are pushed through and / or, double negations vanish, and `not` in front
    of ==, !=, is, is not, in, not in becomes the opposite operator.  (Order comparisons are left alone: `not x < y` is not
    `x >= y` for NaN.)"""
    _INV = {ast.Eq: ast.NotEq, ast.NotEq: ast.Eq, ast.Is: ast.IsNot, ast.IsNot: ast.Is, ast.In: ast.NotIn, ast.NotIn: ast.In}

    def _neg(self, e):
        if isinstance(e, ast.UnaryOp) and isinstance(e.op, ast.Not):
            return e.operand
        if isinstance(e, ast.BoolOp):
            return ast.BoolOp(op=ast.Or() if isinstance(e.op, ast.And) else ast.And(), values=[self._neg(v) for v in e.values])
        if isinstance(e, ast.Compare) and len(e.ops) == 1 and type(e.ops[0]) in self._INV:
            return ast.Compare(left=e.left, ops=[self._INV[type(e.ops[0])]()], comparators=e.comparators)
        return ast.UnaryOp(op=ast.Not(), operand=e)

    def visit_UnaryOp(self, node):
        self.generic_visit(node)
        if isinstance(node.op, ast.Not):
            inner = node.operand
            def invertible(e):
                return (isinstance(e, ast.UnaryOp) and isinstance(e.op, ast.Not)) or \
                    (isinstance(e, ast.Compare) and len(e.ops) == 1 and type(e.ops[0]) in self._INV) or \
                    (isinstance(e, ast.BoolOp) and all(invertible(v) for v in e.values))
            if invertible(inner):
                return ast.copy_location(self._neg(inner), node)
        return node


_INPLACE_OPS = {'iadd': ast.Add, 'ior': ast.BitOr, 'iand': ast.BitAnd, 'ixor': ast.BitXor, 'imul': ast.Mult, 'isub': ast.Sub}


def _reduce_loops(node, counter=[0]):
    """`x = functools.reduce(operator.iadd, items, init)` is the accumulation loop `x = init; for t in items: x += t` (reduce calls
    the function on the running value and each item in order, and operator.iadd(a, b) is `a += b; a`).  A generator expression over
    one loop variable is written as that loop."""
    for fld in ('body', 'orelse', 'finalbody'):
        lst = getattr(node, fld, None)
        if not (isinstance(lst, list) and lst and isinstance(lst[0], ast.stmt)):
            continue
        out = []
        for st in lst:
            v = getattr(st, 'value', None)
            if isinstance(st, ast.Assign) and len(st.targets) == 1 and isinstance(st.targets[0], ast.Name) and isinstance(v, ast.Call) \
                    and ast.unparse(v.func) in ('functools.reduce', 'reduce') and len(v.args) == 3 and not v.keywords \
                    and isinstance(v.args[0], ast.Attribute) and ast.unparse(v.args[0].value) == 'operator' and v.args[0].attr in _INPLACE_OPS \
                    and not any(isinstance(y, ast.Name) and y.id == st.targets[0].id for y in ast.walk(v)):
                acc = st.targets[0].id
                it = v.args[1]
                counter[0] += 1
                init = ast.copy_location(ast.Assign(targets=[ast.Name(id=acc, ctx=ast.Store())], value=v.args[2]), st)
                if isinstance(it, (ast.GeneratorExp, ast.ListComp)) and len(it.generators) == 1 and not it.generators[0].ifs and not it.generators[0].is_async:
                    target, iterable, item = it.generators[0].target, it.generators[0].iter, it.elt
                else:
                    tname = f'_red{counter[0]}_item'
                    target, iterable, item = ast.Name(id=tname, ctx=ast.Store()), it, ast.Name(id=tname, ctx=ast.Load())
                loop = ast.copy_location(ast.For(target=target, iter=iterable, body=[ast.copy_location(ast.AugAssign(
                    target=ast.Name(id=acc, ctx=ast.Store()), op=_INPLACE_OPS[v.args[0].attr](), value=item), st)], orelse=[]), st)
                out += [init, loop]
            else:
                if not isinstance(st, (ast.FunctionDef, ast.ClassDef)):
                    _reduce_loops(st)
                out.append(st)
        setattr(node, fld, out)
    for h in getattr(node, 'handlers', []) or []:
        _reduce_loops(h)


def flatten_guards(mods):
    """Every function of the package in guard-clause form: `if c: <leaves> else: <rest>` (also as an if/elif/else staircase) reads
    `if c: <leaves>` followed by <rest>.  Same paths, same order of evaluation; done in place, line numbers stay."""
    for mod, tree in mods.items():
        if mod == 'luts':
            continue
        _ConstantsRight().visit(tree)
        _NegationsInward().visit(tree)
        ast.fix_missing_locations(tree)
        for fn in [x for x in ast.walk(tree) if isinstance(x, ast.FunctionDef)]:
            _reduce_loops(fn)
            ast.fix_missing_locations(fn)
            for _ in range(12):
                body, ch = _unnest(fn.body)
                fn.body = body
                if not ch:
                    break


def _stores(fn, name):
    n = 0
    for x in ast.walk(fn):
        if isinstance(x, ast.Name) and x.id == name and isinstance(x.ctx, (ast.Store, ast.Del)):
            n += 1
        if isinstance(x, ast.arg) and x.arg == name:
            n += 1
    return n


def _copyprop(fn):
    """`u, v = r` right after `r = (a, b)` becomes `u = a; v = b`; then a single-assignment local that merely renames another
    variable (`u = a`, a not re-bound afterwards, no closure) is replaced by that variable."""
    changed = False

    def lists(node):
        for fld in ('body', 'orelse', 'finalbody'):
            sub = getattr(node, fld, None)
            if isinstance(sub, list) and sub and isinstance(sub[0], ast.stmt):
                yield node, fld, sub
                for c in sub:
                    if not isinstance(c, (ast.FunctionDef, ast.ClassDef)):
                        yield from lists(c)
        for h in getattr(node, 'handlers', []) or []:
            yield from lists(h)
    # tuple unpacking of a tuple just bound
    for node, fld, sub in list(lists(fn)):
        for i in range(len(sub) - 1):
            a, b = sub[i], sub[i + 1]
            if isinstance(a, ast.Assign) and len(a.targets) == 1 and isinstance(a.targets[0], ast.Name) and isinstance(a.value, ast.Tuple) \
                    and isinstance(b, ast.Assign) and len(b.targets) == 1 and isinstance(b.targets[0], ast.Tuple) and isinstance(b.value, ast.Name) \
                    and b.value.id == a.targets[0].id and len(b.targets[0].elts) == len(a.value.elts) \
                    and all(isinstance(t, ast.Name) for t in b.targets[0].elts) and all(_pure(e) for e in a.value.elts):
                r = a.targets[0].id
                # r is read nowhere else
                reads = [x for x in ast.walk(fn) if isinstance(x, ast.Name) and x.id == r and isinstance(x.ctx, ast.Load)]
                if sum(1 for x in reads) - sum(1 for n2, f2, s2 in lists(fn) for j in range(len(s2) - 1)
                                                if isinstance(s2[j + 1], ast.Assign) and isinstance(s2[j + 1].value, ast.Name) and s2[j + 1].value.id == r
                                                and isinstance(s2[j + 1].targets[0], ast.Tuple)) > 0:
                    continue
                tnames = [t.id for t in b.targets[0].elts]
                srcs = {y.id for e in a.value.elts for y in ast.walk(e) if isinstance(y, ast.Name)}
                if set(tnames) & srcs or len(set(tnames)) != len(tnames):
                    continue
                new = [ast.Assign(targets=[ast.Name(id=t, ctx=ast.Store())], value=e) for t, e in zip(tnames, a.value.elts)]
                sub[i:i + 2] = new
                changed = True
                break
    # `a, b = (x, y)`: two assignments, when no target is read by a later element
    for node, fld, sub in list(lists(fn)):
        i = 0
        while i < len(sub):
            a = sub[i]
            if isinstance(a, ast.Assign) and len(a.targets) == 1 and isinstance(a.targets[0], ast.Tuple) and isinstance(a.value, ast.Tuple) \
                    and len(a.targets[0].elts) == len(a.value.elts) and all(isinstance(t, ast.Attribute) and _pure(t) for t in a.targets[0].elts) \
                    and all(isinstance(e, (ast.Name, ast.Constant)) for e in a.value.elts):
                # `self.a, self.b = (x, y)` with plain names on the right: two assignments
                new = [ast.Assign(targets=[t], value=e) for t, e in zip(a.targets[0].elts, a.value.elts)]
                sub[i:i + 1] = new
                changed = True
                i += len(new)
                continue
            if isinstance(a, ast.Assign) and len(a.targets) == 1 and isinstance(a.targets[0], ast.Tuple) and isinstance(a.value, ast.Tuple) \
                    and len(a.targets[0].elts) == len(a.value.elts) and all(isinstance(t, ast.Name) for t in a.targets[0].elts):
                tn = [t.id for t in a.targets[0].elts]
                safe = all(not any(isinstance(y, ast.Name) and y.id == tn[j] for y in ast.walk(a.value.elts[k]))
                           for j in range(len(tn)) for k in range(j + 1, len(tn)))
                if safe:
                    new = [ast.Assign(targets=[ast.Name(id=t, ctx=ast.Store())], value=e) for t, e in zip(tn, a.value.elts)
                           if not (isinstance(e, ast.Name) and e.id == t)]
                    sub[i:i + 1] = new or [ast.Pass()]
                    changed = True
                    i += len(new) or 1
                    continue
            i += 1
    # `u = E` immediately followed by `return u`: `return E` (the path ends there, whatever else is called u elsewhere)
    for node, fld, sub in list(lists(fn)):
        for i in range(len(sub) - 1):
            a, b = sub[i], sub[i + 1]
            if isinstance(a, ast.Assign) and len(a.targets) == 1 and isinstance(a.targets[0], ast.Name) and isinstance(b, ast.Return) \
                    and isinstance(b.value, ast.Name) and b.value.id == a.targets[0].id and not isinstance(node, (ast.Try,)) \
                    and not any(isinstance(x, (ast.FunctionDef, ast.Lambda)) and x is not fn and any(
                        isinstance(y, ast.Name) and y.id == a.targets[0].id for y in ast.walk(x)) for x in ast.walk(fn)):
                b.value = a.value
                del sub[i]
                changed = True
                break
    # renaming locals
    for node, fld, sub in list(lists(fn)):
        i = 0
        while i < len(sub):
            a = sub[i]
            glob_attr = False
            if isinstance(a, ast.Assign) and len(a.targets) == 1 and isinstance(a.targets[0], ast.Name) and isinstance(a.value, ast.Attribute) \
                    and _stores(fn, a.targets[0].id) == 1:
                root = a.value
                while isinstance(root, ast.Attribute):
                    root = root.value
                # `f = module.function`: a global's attribute (the root is neither a parameter nor assigned in the function)
                glob_attr = isinstance(root, ast.Name) and _stores(fn, root.id) == 0
            if glob_attr:
                u = a.targets[0].id
                later = sub[i + 1:]
                nested = any(isinstance(x, (ast.FunctionDef, ast.Lambda)) and x is not fn and any(
                    isinstance(y, ast.Name) and y.id == u for y in ast.walk(x)) for x in ast.walk(fn))
                reads_all = sum(1 for x in ast.walk(fn) if isinstance(x, ast.Name) and x.id == u and isinstance(x.ctx, ast.Load))
                reads_later = sum(1 for st in later for x in ast.walk(st) if isinstance(x, ast.Name) and x.id == u and isinstance(x.ctx, ast.Load))
                if not nested and reads_all == reads_later:
                    sb = _Subst({u: a.value})
                    sub[i + 1:] = [sb.visit(st) for st in later]
                    del sub[i]
                    changed = True
                    continue
            if isinstance(a, ast.Assign) and len(a.targets) == 1 and isinstance(a.targets[0], ast.Name) and a.targets[0].id.startswith('_inl') \
                    and _stores(fn, a.targets[0].id) == 1 and i + 1 < len(sub) and not isinstance(a.value, (ast.Constant, ast.Name)) \
                    and not any(isinstance(y, (ast.Call, ast.Lambda, ast.NamedExpr, ast.Await, ast.Yield, ast.ListComp, ast.GeneratorExp, ast.DictComp, ast.SetComp,
                                               ast.IfExp, ast.BoolOp)) for y in ast.walk(a.value)):
                # a helper's result held in a temporary for one statement: `_ret = tokens * factor; out.extend(_ret)`
                u = a.targets[0].id
                nxt = sub[i + 1]
                reads_all = sum(1 for x in ast.walk(fn) if isinstance(x, ast.Name) and x.id == u and isinstance(x.ctx, ast.Load))
                heads = [nxt] if not isinstance(nxt, (ast.If, ast.For, ast.While, ast.With, ast.Try, ast.FunctionDef)) else []
                reads_next = sum(1 for st in heads for x in ast.walk(st) if isinstance(x, ast.Name) and x.id == u and isinstance(x.ctx, ast.Load))
                in_scope = not any(isinstance(x, (ast.Lambda, ast.ListComp, ast.GeneratorExp, ast.DictComp, ast.SetComp)) and any(
                    isinstance(y, ast.Name) and y.id == u for y in ast.walk(x)) for st in heads for x in ast.walk(st))
                if reads_all == 1 and reads_next == 1 and in_scope:
                    sub[i + 1] = _Subst({u: a.value}).visit(nxt)
                    del sub[i]
                    changed = True
                    continue
            if isinstance(a, ast.Assign) and len(a.targets) == 1 and isinstance(a.targets[0], ast.Name) and isinstance(a.value, ast.Constant) \
                    and _stores(fn, a.targets[0].id) == 1 and a.targets[0].id.startswith('_inl'):
                # a helper's local that is a literal (`length = 6` out of a table row)
                u = a.targets[0].id
                later = sub[i + 1:]
                reads_all = sum(1 for x in ast.walk(fn) if isinstance(x, ast.Name) and x.id == u and isinstance(x.ctx, ast.Load))
                reads_later = sum(1 for st in later for x in ast.walk(st) if isinstance(x, ast.Name) and x.id == u and isinstance(x.ctx, ast.Load))
                if reads_all == reads_later:
                    sb = _Subst({u: a.value})
                    sub[i + 1:] = [sb.visit(st) for st in later]
                    del sub[i]
                    changed = True
                    continue
            if isinstance(a, ast.Assign) and len(a.targets) == 1 and isinstance(a.targets[0], ast.Name) and isinstance(a.value, ast.Name) \
                    and a.targets[0].id != a.value.id and _stores(fn, a.targets[0].id) == 1:
                u, v = a.targets[0].id, a.value.id
                later = sub[i + 1:]
                rebound = any(isinstance(x, ast.Name) and x.id == v and isinstance(x.ctx, (ast.Store, ast.Del)) for st in later for x in ast.walk(st))
                nested = any(isinstance(x, (ast.FunctionDef, ast.Lambda)) and x is not fn and any(
                    isinstance(y, ast.Name) and y.id == u for y in ast.walk(x)) for x in ast.walk(fn))       # a closure captures u
                # every read of u is in the statements that follow the binding in this very block
                reads_all = sum(1 for x in ast.walk(fn) if isinstance(x, ast.Name) and x.id == u and isinstance(x.ctx, ast.Load))
                reads_later = sum(1 for st in later for x in ast.walk(st) if isinstance(x, ast.Name) and x.id == u and isinstance(x.ctx, ast.Load))
                if not rebound and not nested and reads_all == reads_later:
                    sb = _Subst({u: ast.Name(id=v, ctx=ast.Load())})
                    sub[i + 1:] = [sb.visit(st) for st in later]
                    del sub[i]
                    changed = True
                    continue
            i += 1
    return changed


def _dead_stores(fn):
    """`r = <no side effect>` where r is read nowhere in the function: dropped."""
    loads = {x.id for x in ast.walk(fn) if isinstance(x, ast.Name) and isinstance(x.ctx, (ast.Load, ast.Del))}
    if any(isinstance(x, (ast.Global, ast.Nonlocal)) for x in ast.walk(fn)):
        return False
    changed = False

    def effect_free(v):
        return _pure(v) or (isinstance(v, (ast.Tuple, ast.List)) and all(effect_free(e) for e in v.elts))

    def scan(stmts):
        nonlocal changed
        out = []
        for st in stmts:
            if isinstance(st, ast.Assign) and len(st.targets) == 1 and isinstance(st.targets[0], ast.Name) and st.targets[0].id not in loads \
                    and effect_free(st.value):
                changed = True
                continue
            for fld in ('body', 'orelse', 'finalbody'):
                sub = getattr(st, fld, None)
                if isinstance(sub, list) and sub and isinstance(sub[0], ast.stmt) and not isinstance(st, (ast.FunctionDef, ast.ClassDef)):
                    setattr(st, fld, scan(sub) or ([ast.Pass()] if fld == 'body' else []))
            for h in getattr(st, 'handlers', []) or []:
                h.body = scan(h.body) or [ast.Pass()]
            out.append(st)
        return out
    fn.body = scan(fn.body) or [ast.Pass()]
    return changed


def tidy(fn):
    """Post-integration normal form of one rewritten function."""
    for _ in range(6):
        _dead_stores(fn)
        body, c1 = _thread(fn.body)
        fn.body = body
        body, c2 = _unnest(fn.body)
        fn.body = body
        c3 = _copyprop(fn)
        if not (c1 or c2 or c3):
            break


def undo_renames(mods):
    """Pure renames of private functions, undone for the analysis.  A function of the reviewed baseline is gone and a function
    that did not exist then has exactly its body, in the same module and class: every occurrence of the new name in the package
    is read as the old one (the new name must be new everywhere, the old one gone everywhere), so the rules, whose anchors and
    call patterns name functions of the reviewed tree, see the tree they know.  Returns {new name: old name}."""
    baseline = baseline_functions()
    done = {}
    if not baseline:
        return done
    base_names = {k.split(':')[1].split('.')[-1].split('#')[0].split('@')[0] for k in baseline}
    for _round in range(12):
        present = {key: (mod, cls, fn) for key, mod, cls, fn, _c in _functions(mods)}

        def nested(k):
            parts = k.split('#')[0].split('.')
            return any('.'.join(parts[:i]) in baseline for i in range(1, len(parts)))
        missing = {k: d for k, d in baseline.items() if k not in present and d and not nested(k) and '@' not in k}
        if not missing:
            break
        used = set()
        for mod, tree in mods.items():
            if mod == 'luts':
                continue
            for x in ast.walk(tree):
                if isinstance(x, ast.Name):
                    used.add(x.id)
                elif isinstance(x, ast.Attribute):
                    used.add(x.attr)
                elif isinstance(x, (ast.FunctionDef, ast.ClassDef)):
                    used.add(x.name)
                elif isinstance(x, ast.arg):
                    used.add(x.arg)
        pairs = {}
        for old, d in sorted(missing.items()):
            oldname = old.split(':')[1].split('.')[-1]
            scope = old[:len(old) - len(oldname)]
            cands = [k for k, (mod, cls, fn) in present.items() if k not in baseline and k[:len(k) - len(fn.name)] == scope and _digest(fn) == d]
            if len(cands) != 1:
                continue
            newname = present[cands[0]][2].name
            still_there = any(k in present and k.split(':')[1].split('.')[-1] == oldname for k in baseline)
            if not oldname.startswith('_') or oldname.startswith('__') or newname in base_names or (oldname in used and not still_there):
                continue          # (an old name that other functions of the reviewed tree still carry is as it was)
            if sum(1 for k, (m_, c_, fn) in present.items() if fn.name == newname) != sum(1 for k in missing if k.split(':')[1].split('.')[-1] == oldname):
                continue            # the new name also names something else
            if pairs.get(newname, oldname) != oldname:
                continue
            pairs[newname] = oldname
        if not pairs:
            break
        for mod, tree in mods.items():
            if mod == 'luts':
                continue
            for x in ast.walk(tree):
                if isinstance(x, ast.Name) and x.id in pairs:
                    x.id = pairs[x.id]
                elif isinstance(x, ast.Attribute) and x.attr in pairs:
                    x.attr = pairs[x.attr]
                elif isinstance(x, ast.FunctionDef) and x.name in pairs:
                    x.name = pairs[x.name]
        done.update(pairs)
    # second phase: a renamed function whose body was also restyled.  A function of the reviewed tree is gone, its name is used
    # nowhere any more, and among the new functions of the same scope and arity exactly one uses the same vocabulary (identifiers,
    # attributes, constants) - that one is read under the old name.  The rules then examine its body as they would the old one's,
    # so nothing is taken on trust: the association only decides WHICH rules look at it.  A module-level function may have been
    # moved to another module at the same time (the model then follows the move, _moved_aliases); parameter names do not count.
    def nested(k):
        parts = k.split('#')[0].split('.')
        return any('.'.join(parts[:i]) in baseline for i in range(1, len(parts)))

    def vocab(fn):
        out = set()
        for x in ast.walk(fn):
            if x is fn:
                continue
            if isinstance(x, ast.Name):
                out.add(x.id)
            elif isinstance(x, ast.Attribute):
                out.add(x.attr)
            elif isinstance(x, ast.Constant) and not (isinstance(x.value, str) and len(x.value) > 20):
                out.add(repr(x.value))
        return out
    base_vocab = _baseline_vocab()
    base_params = _baseline_params()
    base_vocab_defaults = _baseline_defaults()
    for _round2 in range(6):
        present = {key: (mod, cls, fn) for key, mod, cls, fn, _c in _functions(mods)}
        missing = [k for k, d in baseline.items() if k not in present and d and not nested(k) and '@' not in k]
        if not missing:
            break
        used = set()
        for mod, tree in mods.items():
            if mod == 'luts':
                continue
            for x in ast.walk(tree):
                if isinstance(x, ast.Name):
                    used.add(x.id)
                elif isinstance(x, ast.Attribute):
                    used.add(x.attr)
                elif isinstance(x, (ast.FunctionDef, ast.ClassDef)):
                    used.add(x.name)
        pairs = {}
        for old in sorted(missing):
            oldname = old.split(':')[1].split('.')[-1]
            scope = old[:len(old) - len(oldname)]
            still_there = any(k in present and k.split(':')[1].split('.')[-1] == oldname for k in baseline)
            if (oldname in used and not still_there) or oldname.startswith('__') or old not in base_vocab:
                continue
            arity, ov = base_vocab[old]
            ovp = ov - set(base_params.get(old, ()))
            for cross in (False, True):
                if cross and not scope.endswith(':') and (base_params.get(old) or ['self'])[0] in ('self', 'cls'):
                    break             # only module-level functions and static methods are followed into another module
                cands = []
                for k, (mod, cls, fn) in present.items():
                    kscope = k[:len(k) - len(fn.name)]
                    if k in baseline or fn.name in base_names or fn.name in pairs:
                        continue
                    if (not cross and kscope != scope) or (cross and (cls is not None or not kscope.endswith(':') or kscope == scope)):
                        continue
                    a = fn.args
                    if len(a.posonlyargs + a.args) != arity or a.vararg or a.kwarg:
                        continue
                    if len(a.defaults) != base_vocab_defaults.get(old, len(a.defaults)):
                        continue          # a parameter gained or lost its default: more than a restyling (two functions merged, say)
                    nv = vocab(fn)
                    nvp = nv - {p_.arg for p_ in a.posonlyargs + a.args + a.kwonlyargs}
                    jq = max(len(ov & nv) / max(1, len(ov | nv)), len(ovp & nvp) / max(1, len(ovp | nvp)))
                    cands.append((jq, fn.name))
                cands.sort(reverse=True)
                if cands and cands[0][0] >= 0.8 and (len(cands) == 1 or cands[1][0] < cands[0][0] - 0.15):
                    newname = cands[0][1]
                    if sum(1 for k, (m_, c_, fn) in present.items() if fn.name == newname) == 1:
                        pairs[newname] = oldname
                    break
        if not pairs:
            break
        for mod, tree in mods.items():
            if mod == 'luts':
                continue
            for x in ast.walk(tree):
                if isinstance(x, ast.Name) and x.id in pairs:
                    x.id = pairs[x.id]
                elif isinstance(x, ast.Attribute) and x.attr in pairs:
                    x.attr = pairs[x.attr]
                elif isinstance(x, ast.FunctionDef) and x.name in pairs:
                    x.name = pairs[x.name]
                elif isinstance(x, ast.alias) and x.name in pairs:
                    x.name = pairs[x.name]
        done.update(pairs)
    return done


def _baseline_defaults():
    try:
        with open(os.path.join(HERE, 'reason_digests.json')) as fh:
            return json.load(fh).get('*defaults', {})
    except (OSError, ValueError):
        return {}


def erase_keyword_only(mods):
    """A parameter of a reviewed function that was merely made keyword-only (`def f(i, length, *, signed)`, every call updated to
    `f(i, n, signed=False)`) is read in the positional form the rules know: the bare `*` is dropped where the parameter list is
    otherwise exactly the reviewed one, and calls by that (unique) name pass those arguments positionally again when everything
    before them is positional.  Binding of arguments to parameters is unchanged.  Returns the names rewritten."""
    base = _baseline_params()
    done = set()
    names = {}
    for key, mod, cls, fn, _c in _functions(mods):
        names.setdefault(fn.name, []).append(key)
    for key, mod, cls, fn, _c in _functions(mods):
        a = fn.args
        if not a.kwonlyargs or a.vararg or a.kwarg or key not in base or len(names[fn.name]) != 1:
            continue
        now = [p_.arg for p_ in a.posonlyargs + a.args + a.kwonlyargs]
        if now != list(base[key]):
            continue
        if any(d is None for d in a.kw_defaults) and a.defaults:
            continue              # a required parameter would follow a defaulted one
        moved = [p_.arg for p_ in a.kwonlyargs]
        start = len(a.posonlyargs + a.args)
        a.args = a.args + a.kwonlyargs
        a.defaults = a.defaults + [d for d in a.kw_defaults if d is not None]
        a.kwonlyargs, a.kw_defaults = [], []
        params = [p_.arg for p_ in a.posonlyargs + a.args]
        if cls is not None and _kind(fn) in ('plain', 'class'):
            params = params[1:]
            start -= 1
        for m2, t2 in mods.items():
            if m2 == 'luts':
                continue
            for c in ast.walk(t2):
                if isinstance(c, ast.Call) and ((isinstance(c.func, ast.Name) and c.func.id == fn.name) or (isinstance(c.func, ast.Attribute) and c.func.attr == fn.name)) \
                        and not any(isinstance(x, ast.Starred) for x in c.args) and not any(k.arg is None for k in c.keywords):
                    while len(c.args) >= start and len(c.args) < len(params):
                        nxt = params[len(c.args)]
                        kw = [k for k in c.keywords if k.arg == nxt]
                        if nxt not in moved or len(kw) != 1:
                            break
                        c.args.append(kw[0].value)
                        c.keywords.remove(kw[0])
        done.add(fn.name)
    return done


def _baseline_params():
    try:
        with open(os.path.join(HERE, 'reason_digests.json')) as fh:
            v = json.load(fh).get('*vocab', {})
            return {k: list(val[2]) if len(val) > 2 else [] for k, val in v.items()}
    except (OSError, ValueError):
        return {}


def _baseline_vocab():
    """{key: (number of positional parameters, vocabulary)} of the reviewed tree's functions (engine/reason_digests.json)."""
    try:
        with open(os.path.join(HERE, 'reason_digests.json')) as fh:
            v = json.load(fh).get('*vocab', {})
            return {k: (val[0], set(val[1])) for k, val in v.items()}
    except (OSError, ValueError):
        return {}


def _callable_like(e, mod_funcs):
    return isinstance(e, ast.Lambda) or (isinstance(e, ast.Name) and (e.id in mod_funcs or e.id[:1].isupper())) or \
        (isinstance(e, ast.Attribute)) or (isinstance(e, ast.Call))


def _no_continue(stmts):
    """The loop body without `continue`: what follows an `if c: ...; continue` moves into its else.  None if a continue or break
    sits anywhere else."""
    out = []
    for i, st in enumerate(stmts):
        if isinstance(st, ast.Continue):
            return out
        if isinstance(st, ast.Break):
            return None
        if isinstance(st, ast.If) and not st.orelse and st.body and isinstance(st.body[-1], ast.Continue):
            if any(isinstance(y, (ast.Continue, ast.Break)) for b in st.body[:-1] for y in ast.walk(b)):
                return None
            rest = _no_continue(stmts[i + 1:])
            if rest is None:
                return None
            body = st.body[:-1] or [ast.Pass()]
            out.append(ast.If(test=st.test, body=body, orelse=rest))
            return out
        if any(isinstance(y, (ast.Continue, ast.Break)) for y in ast.walk(st)):
            return None
        out.append(st)
    return out


def unroll_tables(mods):
    """`for types, fn in TABLE: <body>` over a module-level literal table of (..., callable) rows that nothing changes is the same
    as its rows written out one after the other - which is how the reviewed code reads (an if/elif chain).  Returns the set of
    (module, function name) rewritten."""
    touched = set()
    for mod, tree in mods.items():
        if mod == 'luts':
            continue
        tables = {}
        mod_funcs = {n.name for n in tree.body if isinstance(n, ast.FunctionDef)}
        for n in tree.body:
            tgt = val = None
            if isinstance(n, ast.Assign) and len(n.targets) == 1 and isinstance(n.targets[0], ast.Name):
                tgt, val = n.targets[0].id, n.value
            elif isinstance(n, ast.AnnAssign) and isinstance(n.target, ast.Name) and n.value is not None:
                tgt, val = n.target.id, n.value
            if tgt and isinstance(val, (ast.Tuple, ast.List)) and 1 <= len(val.elts) <= 32 and all(isinstance(r, ast.Tuple) for r in val.elts) \
                    and len({len(r.elts) for r in val.elts}) == 1 and any(_callable_like(e, mod_funcs) and not isinstance(e, ast.Constant) for r in val.elts for e in r.elts[1:]):
                tables[tgt] = (n, val)
        if not tables:
            continue
        # a table that is written to, or used for anything but such a loop, stays as it is
        uses = {t: 0 for t in tables}
        loops = []
        for x in ast.walk(tree):
            if isinstance(x, ast.Name) and x.id in tables:
                uses[x.id] += 1
        for x in ast.walk(tree):
            if isinstance(x, ast.For) and isinstance(x.iter, ast.Name) and x.iter.id in tables and not x.orelse:
                loops.append(x)
        per = {}
        for lp in loops:
            per[lp.iter.id] = per.get(lp.iter.id, 0) + 1
        for t in list(tables):
            if uses[t] != 1 + per.get(t, 0):           # its definition plus the loops
                tables.pop(t)
        if not tables:
            continue
        for key, m2, cls, fn, container in list(_functions({mod: tree})):
            changed = False

            def rewrite(stmts):
                nonlocal changed
                out = []
                for st in stmts:
                    for fld in ('body', 'orelse', 'finalbody'):
                        sub = getattr(st, fld, None)
                        if isinstance(sub, list) and sub and isinstance(sub[0], ast.stmt) and not isinstance(st, (ast.FunctionDef, ast.ClassDef)):
                            setattr(st, fld, rewrite(sub))
                    if isinstance(st, ast.For) and isinstance(st.iter, ast.Name) and st.iter.id in tables and not st.orelse:
                        rows = tables[st.iter.id][1].elts
                        width = len(rows[0].elts)
                        names = [t.id for t in st.target.elts] if isinstance(st.target, ast.Tuple) and all(isinstance(t, ast.Name) for t in st.target.elts) else None
                        body = _no_continue(st.body)
                        stores = {y.id for b in st.body for y in ast.walk(b) if isinstance(y, ast.Name) and isinstance(y.ctx, ast.Store)}
                        if names and len(names) == width and body is not None and not (set(names) & stores):
                            for r in rows:
                                row = dict(zip(names, r.elts))

                                class _NoneTests(ast.NodeTransformer):
                                    # `fn is None` for this row: decided by what the row holds (a function, a lambda, a class - or None)
                                    def visit_Compare(self, node):
                                        self.generic_visit(node)
                                        if len(node.ops) == 1 and isinstance(node.ops[0], (ast.Is, ast.IsNot)) and isinstance(node.left, ast.Name) \
                                                and node.left.id in row and isinstance(node.comparators[0], ast.Constant) and node.comparators[0].value is None:
                                            e = row[node.left.id]
                                            isnone = isinstance(e, ast.Constant) and e.value is None
                                            known = isnone or isinstance(e, (ast.Lambda, ast.Tuple)) or (isinstance(e, ast.Constant)) or \
                                                (isinstance(e, ast.Name) and (e.id in mod_funcs or e.id[:1].isupper())) or \
                                                (isinstance(e, ast.Attribute) and isinstance(e.value, ast.Name) and e.value.id in mods)
                                            if known:
                                                return ast.copy_location(ast.Constant(value=(isnone == isinstance(node.ops[0], ast.Is))), node)
                                        return node
                                sb = _Subst(row)
                                out.extend(sb.visit(_NoneTests().visit(copy.deepcopy(b))) for b in body)
                            changed = True
                            continue
                    out.append(st)
                return out
            fn.body = rewrite(fn.body)
            if changed:
                fn.body = _prune([_OperatorCalls().visit(b) for b in fn.body])
                touched.add((mod, key))
        # tables no longer used go (so that helpers they named are only referenced from the unrolled code)
        still = {x.id for x in ast.walk(tree) if isinstance(x, ast.Name) and isinstance(x.ctx, ast.Load)}
        for t, (node, _v) in tables.items():
            if t not in still and any(k[0] == mod for k in touched):
                tree.body.remove(node)
    return touched


# ---------------------------------------------------------------------------------------------- generated methods
class _FoldFStrings(ast.NodeTransformer):
    def visit_JoinedStr(self, node):
        self.generic_visit(node)
        out = ''
        for v in node.values:
            if isinstance(v, ast.Constant) and isinstance(v.value, str):
                out += v.value
            elif isinstance(v, ast.FormattedValue) and isinstance(v.value, ast.Constant) and isinstance(v.value.value, str) \
                    and v.conversion == -1 and v.format_spec is None:
                out += v.value.value
            else:
                return node
        return ast.copy_location(ast.Constant(value=out), node)


def _factory_parts(fn):
    """A closure factory: a plain module-level function whose statements are nested defs (possibly under tests of its own
    parameters), attribute assignments on them (`method.__name__ = name`) and `return <that def>`.  Returns True if so."""
    a = fn.args
    if fn.decorator_list or a.vararg or a.kwarg:
        return False
    body = [s for s in fn.body if not (isinstance(s, ast.Expr) and isinstance(s.value, ast.Constant))]

    def ok(stmts):
        names = set()
        for st in stmts:
            if isinstance(st, ast.FunctionDef):
                names.add(st.name)
            elif isinstance(st, ast.If):
                if not (ok(st.body) and (not st.orelse or ok(st.orelse))):
                    return False
            elif isinstance(st, ast.Assign) and len(st.targets) == 1 and isinstance(st.targets[0], ast.Attribute) and isinstance(st.targets[0].value, ast.Name) \
                    and st.targets[0].attr in ('__name__', '__qualname__', '__doc__'):
                continue
            elif isinstance(st, ast.Return) and isinstance(st.value, ast.Name):
                continue
            else:
                return False
        return True
    return bool(body) and ok(body) and any(isinstance(x, ast.FunctionDef) for x in ast.walk(fn) if x is not fn) and \
        any(isinstance(x, ast.Return) for x in body + [y for b in body if isinstance(b, ast.If) for y in ast.walk(b)])


def _instantiate_factory(fn, call, new_name):
    """The def the factory returns for this call, under the name it is installed as; None if that is not evident."""
    params = [x.arg for x in fn.args.posonlyargs + fn.args.args]
    kwonly = [x.arg for x in fn.args.kwonlyargs]
    defaults = dict(zip(reversed(params), reversed(fn.args.defaults)))
    kwdefaults = {k: d for k, d in zip(kwonly, fn.args.kw_defaults) if d is not None}
    if any(isinstance(x, ast.Starred) for x in call.args) or any(k.arg is None for k in call.keywords) or len(call.args) > len(params):
        return None
    bind = dict(zip(params, call.args))
    for k in call.keywords:
        if k.arg in bind or k.arg not in params + kwonly:
            return None
        bind[k.arg] = k.value
    for p_ in params + kwonly:
        if p_ not in bind:
            d = defaults.get(p_, kwdefaults.get(p_))
            if d is None:
                return None
            bind[p_] = d
    if not all(_pure(v) for v in bind.values()):
        return None
    body = [copy.deepcopy(s) for s in fn.body if not (isinstance(s, ast.Expr) and isinstance(s.value, ast.Constant))]
    sub = _Subst(bind)
    body = _prune([sub.visit(b) for b in body])
    defs = [b for b in body if isinstance(b, ast.FunctionDef)]
    rets = [b for b in body if isinstance(b, ast.Return)]
    if any(isinstance(b, ast.If) for b in body) or len(rets) != 1 or not isinstance(rets[0].value, ast.Name):
        return None
    chosen = [d for d in defs if d.name == rets[0].value.id]
    if len(chosen) != 1:
        return None
    d = chosen[-1]
    d.name = new_name
    d.decorator_list = []
    return d


def materialise_generated_methods(mods):
    """Methods produced by a closure factory and installed by assignment in the class body (`__and__ = _binary('__and__', op)`)
    or by `setattr(Class, '<name>', factory(...))` at module level (also from a loop over a literal table) are written out as the
    ordinary methods they are.  Returns the (module, 'Class.name') pairs created."""
    made = set()
    for mod, tree in mods.items():
        if mod == 'luts':
            continue
        factories = {n.name: n for n in tree.body if isinstance(n, ast.FunctionDef) and _factory_parts(n)}
        if not factories:
            continue
        classes = {n.name: n for n in tree.body if isinstance(n, ast.ClassDef)}
        tabs = _literal_tables(tree)
        # module-level loops over literal tables, written out
        new_body = []
        for st in tree.body:
            rows = None
            if isinstance(st, ast.For) and not st.orelse:
                it = st.iter
                if isinstance(it, ast.Call) and isinstance(it.func, ast.Attribute) and it.func.attr == 'items' and isinstance(it.func.value, ast.Name) \
                        and isinstance(tabs.get(it.func.value.id), ast.Dict) and isinstance(st.target, ast.Tuple) and len(st.target.elts) == 2:
                    d = tabs[it.func.value.id]
                    rows = [(k, v) for k, v in zip(d.keys, d.values)]
                elif isinstance(it, ast.Name) and isinstance(tabs.get(it.id), ast.Tuple) and isinstance(st.target, ast.Tuple) and all(
                        isinstance(r, ast.Tuple) and len(r.elts) == len(st.target.elts) for r in tabs[it.id].elts):
                    rows = [tuple(r.elts) for r in tabs[it.id].elts]
                elif isinstance(it, (ast.Tuple, ast.List)) and isinstance(st.target, ast.Tuple) and all(
                        isinstance(r, ast.Tuple) and len(r.elts) == len(st.target.elts) for r in it.elts):
                    rows = [tuple(r.elts) for r in it.elts]
            uses_factory = rows is not None and any(isinstance(x, ast.Call) and isinstance(x.func, ast.Name) and x.func.id in factories for x in ast.walk(st))
            if uses_factory and all(isinstance(t, ast.Name) for t in st.target.elts) and len(rows) <= 32 \
                    and not any(isinstance(y, (ast.Break, ast.Continue)) for y in ast.walk(st)):
                names = [t.id for t in st.target.elts]
                for r in rows:
                    sb = _Subst(dict(zip(names, r)))
                    new_body.extend(_FoldFStrings().visit(sb.visit(copy.deepcopy(b))) for b in st.body)
                continue
            new_body.append(st)
        tree.body = new_body
        # installs
        keep = []
        for st in tree.body:
            done = False
            if isinstance(st, ast.Expr) and isinstance(st.value, ast.Call) and isinstance(st.value.func, ast.Name) and st.value.func.id == 'setattr' \
                    and len(st.value.args) == 3 and isinstance(st.value.args[0], ast.Name) and st.value.args[0].id in classes:
                nm = _FoldFStrings().visit(copy.deepcopy(st.value.args[1]))
                v = st.value.args[2]
                if isinstance(nm, ast.Constant) and isinstance(nm.value, str) and nm.value.isidentifier() and isinstance(v, ast.Call) \
                        and isinstance(v.func, ast.Name) and v.func.id in factories:
                    d = _instantiate_factory(factories[v.func.id], _FoldFStrings().visit(copy.deepcopy(v)), nm.value)
                    cls = classes[st.value.args[0].id]
                    if d is not None and not any(isinstance(k, ast.FunctionDef) and k.name == nm.value for k in cls.body):
                        cls.body.append(d)
                        made.add((mod, f'{mod}:{cls.name}.{nm.value}'))
                        done = True
            if not done:
                keep.append(st)
        tree.body = keep
        for cls in classes.values():
            nb = []
            for st in cls.body:
                if isinstance(st, ast.Assign) and len(st.targets) == 1 and isinstance(st.targets[0], ast.Name) and isinstance(st.value, ast.Call) \
                        and isinstance(st.value.func, ast.Name) and st.value.func.id in factories:
                    d = _instantiate_factory(factories[st.value.func.id], st.value, st.targets[0].id)
                    if d is not None:
                        nb.append(d)
                        made.add((mod, f'{mod}:{cls.name}.{d.name}'))
                        continue
                nb.append(st)
            cls.body = nb
        # factories nothing refers to any more go
        if any(m_ == mod for m_, _k in made):
            refs = {x.id for x in ast.walk(tree) if isinstance(x, ast.Name) and isinstance(x.ctx, ast.Load)}
            tree.body = [n for n in tree.body if not (isinstance(n, ast.FunctionDef) and n.name in factories and n.name not in refs)]
    return made


def split_homonyms(mods, baseline):
    """New helper methods that carry the same name in UNRELATED classes (`Bits._bitwise` and `BitStore._bitwise`) and are only ever
    called on self/cls: each gets a name of its own (`_bitwise__Bits`), in its class, the subclasses and the calls there, so that
    they can be told apart by name afterwards.  Nothing else about the program changes."""
    classes = {}
    for mod, tree in mods.items():
        if mod == 'luts':
            continue
        for n in tree.body:
            if isinstance(n, ast.ClassDef):
                classes[n.name] = (mod, n)

    def ancestors(c, seen=()):
        out = set()
        if c not in classes or c in seen:
            return out
        for b in classes[c][1].bases:
            bn = b.attr if isinstance(b, ast.Attribute) else getattr(b, 'id', None)
            if bn in classes:
                out.add(bn)
                out |= ancestors(bn, seen + (c,))
        return out
    defs = {}
    for key, mod, cls, fn, _c in _functions(mods):
        if cls is not None and key not in baseline and not (fn.name.startswith('__') and fn.name.endswith('__')):
            defs.setdefault(fn.name, []).append((cls, fn))
    # names also defined at module level or by reviewed functions stay as they are
    taken = {fn.name for key, mod, cls, fn, _c in _functions(mods) if key in baseline or cls is None}
    done = {}
    for name, ds in defs.items():
        if len(ds) < 2 or name in taken:
            continue
        owners = [c for c, _f in ds]
        if len(set(owners)) != len(owners):
            continue
        if any(a in ancestors(b) or b in ancestors(a) for a in owners for b in owners if a != b):
            continue          # an override: dynamic dispatch decides, not the name
        # every use of the name must be self.<name> / cls.<name> inside a class whose hierarchy holds exactly one of the owners
        plan = {}
        ok = True
        for cname, (mod, cnode) in classes.items():
            line = {cname} | ancestors(cname)
            mine = [o for o in owners if o in line]
            uses = [x for x in ast.walk(cnode) if isinstance(x, ast.Attribute) and x.attr == name]
            if not uses and cname not in owners:
                continue
            if len(mine) != 1 or any(not (isinstance(x.value, ast.Name) and x.value.id in ('self', 'cls')) for x in uses):
                ok = False
                break
            plan[cname] = mine[0]
        if ok:
            for mod, tree in mods.items():
                if mod == 'luts':
                    continue
                inside = {id(y) for (m_, cnode) in classes.values() for y in ast.walk(cnode)}
                if any((isinstance(x, ast.Attribute) and x.attr == name and id(x) not in inside) or (isinstance(x, ast.Name) and x.id == name)
                       for x in ast.walk(tree)):
                    ok = False
        if not ok:
            continue
        for cname, owner in plan.items():
            new = f'{name}__{owner}'
            cnode = classes[cname][1]
            for x in ast.walk(cnode):
                if isinstance(x, ast.Attribute) and x.attr == name:
                    x.attr = new
                elif isinstance(x, ast.FunctionDef) and x.name == name and x in cnode.body:
                    x.name = new
            done[(cname, name)] = new
    return done


def integrate(mods, src):
    """Inline new helpers in place.  Returns {module: {function name: original def line}} for the modules that changed
    (their trees are re-parsed from the rewritten text, so line numbers inside them are synthetic)."""
    baseline = baseline_functions()
    if not baseline:
        return {}, []
    try:
        split_homonyms(mods, baseline)
    except Exception:
        pass
    try:
        unrolled = unroll_tables(mods)
    except Exception:
        unrolled = set()
    try:
        unrolled |= materialise_generated_methods(mods)
    except Exception:
        pass
    if unrolled:
        # an unrolled function may now be recognisable as the (renamed) function of the reviewed tree it replaces
        try:
            again = undo_renames(mods)
        except Exception:
            again = {}
        if again:
            unrolled = {(m_, k.rsplit('.', 1)[0] + '.' + again.get(k.rsplit('.', 1)[-1], k.rsplit('.', 1)[-1]) if '.' in k.split(':')[1] else k) for m_, k in unrolled}
    inl = _Inliner(mods, baseline)
    try:
        touched = inl.run()
    except RecursionError:
        touched = {}
    if not inl.done and not unrolled:
        return {}, []
    for mod, key in unrolled:
        touched.setdefault(mod, set()).add(key)
    out = {}
    for mod in touched:
        orig = ast.parse(src[mod])
        lines = {}
        for n in orig.body:
            if isinstance(n, ast.FunctionDef):
                lines[n.name] = n.lineno
            elif isinstance(n, ast.ClassDef):
                for k in n.body:
                    if isinstance(k, ast.FunctionDef):
                        lines.setdefault(f'{n.name}.{k.name}', k.lineno)
        tree = mods[mod]
        tabs = _literal_tables(tree)
        others = _all_tables(mods, inl)
        for key, m2, cls, fn, container in list(_functions({mod: tree})):
            if key in touched[mod]:
                fn.body = _prune([_OperatorCalls(tabs, others, mod).visit(b) for b in fn.body]) or [ast.Pass()]
                tidy(fn)
        ast.fix_missing_locations(tree)
        mods[mod] = ast.parse(ast.unparse(tree))
        out[mod] = lines
    # helpers whose module was not otherwise touched still need their (now shorter) module re-parsed
    for mod in list(mods):
        if mod != 'luts' and mod not in out and any(k.split(':')[0] == mod for k in inl.done):
            ast.fix_missing_locations(mods[mod])
            mods[mod] = ast.parse(ast.unparse(mods[mod]))
            out[mod] = {}
    return out, inl.done + sorted(f'{k} (written out)' for _m, k in unrolled)

"""Property -> rule set, with the clause split that the manifest and the evidence repeat."""
from __future__ import annotations

from .rules import tables, config, luts, state, ownership, contracts, stream, dims, mutate, ingest, mode, misc

RULES = {
    'H1': tables.rule_H1,
    'H2': tables.rule_H2,
    'H3': tables.rule_H3,
    'H6': tables.rule_H6, 'SFMT': tables.rule_SFMT,
    'F1': config.rule_F1, 'F2': config.rule_F2, 'F3': config.rule_F3, 'F4': config.rule_F4, 'F5': config.rule_F5,
    'G1': config.rule_G1, 'N4': config.rule_N4,
    'J1': state.rule_J1, 'MEMO': state.rule_MEMO, 'J2': state.rule_J2, 'M': state.rule_M, 'D1': state.rule_D1, 'D3': state.rule_D3,
    'HASH': state.rule_HASH, 'N3': state.rule_N3,
    'A1': ownership.rule_A1, 'A3': ownership.rule_A3, 'A4': ownership.rule_A4, 'A9': ownership.rule_A9,
    'A10': ownership.rule_A10, 'A11': ownership.rule_A11,
    'A2': ownership.rule_A2, 'A5': ownership.rule_A5, 'A6': ownership.rule_A6, 'A7': ownership.rule_A7, 'A8': ownership.rule_A8,
    'L': contracts.rule_L, 'K': contracts.rule_K, 'E1': contracts.rule_E1, 'E2': contracts.rule_E2, 'E3': contracts.rule_E3,
    'E6': contracts.rule_E6, 'E7': contracts.rule_E7, 'D2': contracts.rule_D2, 'E9': contracts.rule_E9, 'E4': contracts.rule_E4,
    'E10': contracts.rule_E10, 'E11': contracts.rule_E11, 'BYTEWIN': contracts.rule_BYTEWIN, 'SIB': contracts.rule_SIB, 'SGN0': contracts.rule_SGN0, 'IDEM': contracts.rule_IDEM, 'PAD': contracts.rule_PAD, 'RND': contracts.rule_RND, 'OPT': contracts.rule_OPT, 'OPTDEP': contracts.rule_OPTDEP, 'EQ1': contracts.rule_EQ1, 'ITER1': contracts.rule_ITER1,
    'C': stream.rule_C, 'POSW': stream.rule_POSW, 'B1': stream.rule_B1, 'POST': stream.rule_POST, 'RB': stream.rule_RB, 'NOMOVE': stream.rule_NOMOVE, 'SELFOP': stream.rule_SELFOP,
    'I': dims.rule_I, 'B3': dims.rule_B3, 'N2a': dims.rule_N2a, 'IDX': dims.rule_IDX, 'TY1': dims.rule_TY1, 'XDT': dims.rule_XDT, 'SCALE': dims.rule_SCALE, 'TRAIL': dims.rule_TRAIL,
    'B2': mutate.rule_B2, 'WB': mutate.rule_WB, 'N1': mutate.rule_N1, 'N2': mutate.rule_N2, 'N5': mutate.rule_N5, 'D5': mutate.rule_D5, 'RNG': mutate.rule_RNG, 'IDX1': mutate.rule_IDX1, 'SLN': mutate.rule_SLN,
    'E5': ingest.rule_E5, 'CHOKE': ingest.rule_CHOKE, 'LV': ingest.rule_LV, 'WIN': ingest.rule_WIN,
    'G2': mode.rule_G2, 'MIRROR': mode.rule_MIRROR, 'G3': mode.rule_G3, 'G5': mode.rule_G5, 'E8': mode.rule_E8,
    'H4': misc.rule_H4, 'ESC': misc.rule_ESC, 'DELEG': misc.rule_DELEG, 'PK': misc.rule_PK, 'INTEX': misc.rule_INTEX, 'LZ': misc.rule_LZ, 'REP': misc.rule_REP, 'STALE': misc.rule_STALE, 'LOOPX': misc.rule_LOOPX,
    'H5a': luts.rule_H5a, 'H5b': luts.rule_H5b, 'H5c': luts.rule_H5c,
}

TRUSTED_BASE = [
    "CPython ast / re._parser / struct.calcsize / zlib (standard library only; no function of /repo is executed)",
    "the analyser's own C3/MRO, descriptor and call-resolution rules (engine/model.py, engine/resolve.py)",
    "the table of bitarray/struct behaviours (which bitarray methods mutate in place; bitarray(x) copies, "
    "bitarray(buffer=..) shares)",
    "parameter and return annotations of /repo as receiver types (cross-checked against the classes that define the "
    "called attribute)",
    "the per-rule reason tables (one reviewed sentence per entry, keyed by function and construct)",
]

COMMON_ASSUMPTIONS = [
    "no reflection on private attributes, user subclassing or monkey-patching from outside the package",
    "bitarray, struct and zlib behave as documented (leaf behaviour is trusted, not analysed)",
    "only the structural clauses listed under decided_clauses are decided; the behavioural remainder of the "
    "property (declined_clauses) is NOT established by this check",
]

PROPS = {}


def _p(pid, rules, decided, declined, explanation, level='other', floors=None, assumptions=(), exhaustive=False):
    missing = [r for r in rules if r not in RULES]
    if missing:
        raise RuntimeError(f"{pid}: unknown rules {missing}")
    PROPS[pid] = dict(rules=rules, decided=decided, declined=declined, explanation=explanation, level=level,
                      floors=floors or {}, assumptions=list(assumptions) + COMMON_ASSUMPTIONS, exhaustive=exhaustive)


_p('C18', ['H1', 'H3', 'E10', 'H4', 'F2', 'MEMO', 'SGN0', 'SFMT', 'REP'],
   decided=["every struct-style code and endianness prefix maps to the dtype struct defines (regex classes = "
            "replacement tables = size table = struct.calcsize; prefix branches exhaustive)",
            "native-endian aliases point at the le/be dtype in the matching sys.byteorder branch (both branches, "
            "including the one this host never executes)",
            "Array accepts array.array input only when kind and width match: extend and equals both consult typecode "
            "and itemsize of the foreign array",
            'every format handed to struct.pack/unpack/calcsize carries an explicit byte-order prefix, so code sizes are the documented standard ones on every platform',
            "a multiplier in front of a struct token with several codes repeats the whole group in order ('2*<hB' is h,B,h,B, as struct and the written-out form have it)"],
   declined=["byte-for-byte equality with struct.pack for every value; byteswap twice = identity (run-time values)"],
   explanation="Static table agreement: the character classes of the four struct regexes (via re._parser), the keys "
               "of REPLACEMENTS_BE/LE/NE and PACK_CODE_SIZE are compared with each other and with "
               "struct.calcsize('='+code); each replacement token must be {int|uint|float}{be|le|ne}{8*size}; the "
               "if-chains on the endian prefix in structparser/parse_single_struct_token are interpreted for every "
               "prefix; both sys.byteorder alias branches of __init__.py are read from the syntax tree.",
   floors={'H1': 60, 'H3': 120})

_p('C17', ['H6', 'DELEG', 'L', 'A7', 'E5', 'OPT', 'J1', 'WIN', 'PAD', 'TRAIL'],
   decided=["tofile writes exactly tobytes(), for sizes that span the writer's chunk boundary: the chunk size folds to a "
            "positive multiple of 8, so only the final chunk can be zero-padded (the > 100 MiB case no test reaches); "
            "every write is chunk.tobytes()",
            "tobytes / bytes / tofile of an Array are those of its data; bytes(s) is tobytes()",
            "the bytes property refuses non-whole-byte lengths (guard dominates the store read)",
            "tobytes honours the logical length of a file-backed store",
            "read-back routes (bytes, bitarray, file, BytesIO with offset/length) copy the selected window, agree on "
            "bounds checks and use absolute positions; the bounds test of each windowed route equals, as a linear form, the end of "
            "the window it slices out, and the BytesIO byte pre-slice covers the bit window",
            'serialisation reads bits through tobytes()/tofile(), which zero the pad bits; never through a raw view of the bitarray buffer',
            'Array.fromfile / extend append whole items only: after refusing trailing bits a method never appends the raw conversion of caller-supplied data of arbitrary length'],
   declined=["zero padding and losslessness as values for every content/window/size (inside bitarray.tobytes)"],
   explanation="Constant folding of the chunk-size expression that reaches Bits.cut in Bits.tofile; delegation and guard "
               "dominance checks; ingest feature matrix.")

_p('C09', ['F1', 'F2', 'F3', 'F4', 'F5', 'G1', 'N4', 'A1', 'A4', 'MEMO'],
   decided=["results never depend on cache hits, misses or evictions nor on option values in force earlier: every "
            "lru_cache'd function reaches no option read or mode-switched slot that is not part of its key",
            "nor on what was later done to previously returned objects: cached lists/Dtypes are never mutated",
            "setting an option back restores the earlier behaviour: the two mode tables assign the same slots; "
            "nothing but the setters writes options, class attributes or module globals; the options singleton "
            "holds only its settings",
            "lazily built constant tables are functions of literals"],
   declined=["determinism of bitarray/struct leaves and functools.lru_cache semantics (trusted)"],
   explanation="Reachability over the resolved call graph (registry dispatch and mode-switched slots expanded) from "
               "each of the memoised functions to option reads; census of global-state writes; structural comparison "
               "of the lsb0/msb0 tables in Options.set_lsb0.",
   floors={'F1': 8, 'G1': 13})

_p('C11', ['H5a', 'H5b', 'H5c', 'H2', 'SCALE', 'SGN0', 'RND'],
   decided=["every code of p3binary8, p4binary8, e5m2/e4m3 (both overflow modes), e3m2, e2m3, e2m1 decodes to the value "
            "its format defines (sign, exponent, mantissa, subnormals, zeros, infinities, NaNs): all entries of the 9 "
            "decode tables against an exact model",
            "encoding yields the code nearest to the float's half-precision rounding, ties to even, with overflow, "
            "infinities and NaN mapped per format and mxfp_overflow mode: all 9 x 65536 entries of the encode tables",
            "the code selects and indexes the right table: byte order of the half-precision index, OverflowError "
            "handler and clamp constants (= codes of +-inf), table keys, bit widths, overflow-mode selection, NaN "
            "rejection for formats without NaN, e8m0/mxint/bfloat constants, scale multiplies on decode and divides on encode",
            'mxint rounds 64x to the nearest integer directly (round(), exact ties-to-even): no encoder rounds by adding or subtracting 0.5 and truncating, which rounds twice and mis-rounds inputs one ulp above a tie'],
   declined=["mxint's round-to-nearest-even of 64*f and bfloat truncation as numerical results for every float64",
             "float64 inputs between half-precision neighbours are covered only through the statement's own reduction "
             "to the IEEE half-precision rounding performed by struct.pack('>e') (trusted leaf)"],
   explanation="Exhaustive table validation by constant folding: zlib.decompress/struct.unpack of the bytes literals in "
               "luts.py, compared entry by entry with an exact integer model of each format (independent of gfloat, "
               "which generated the tables); partial evaluation of the 9 format-object constructors; structural "
               "checks of the selection code.",
   exhaustive=True, floors={'H5a': 1680, 'H5b': 589000, 'H5c': 60})

_p('C04', ['A1', 'A2', 'A3', 'A4', 'A5', 'A6', 'A7', 'A8', 'A9', 'A10', 'A11', 'F2'],
   decided=["immutable classes expose no operation that alters their own content (no public name on Bits/ConstBitStream "
            "has a store effect on self, through self-calls)",
            "two distinct objects, one of them mutable, never share a store: every `X._bitstore = V` site installs a "
            "fresh store, or a cached/flagged/borrowed one only where the claiming __init__ follows or both sides are "
            "provably immutable; the immutable flag is never left on a mutable object's store; constructors claim/flag",
            "buffers the object was built from are copied on the way in (memory sharing only with a read-only mmap) and "
            "internal buffers are never handed out (tobitarray)",
            "derivations through the string-parse cache: cached stores are installed only under construction or in "
            "immutable objects; promoted operands (views) are never mutated, re-installed or returned",
            "Array data buffers installed by copy/slice/constructor only"],
   declined=["bitarray's own copy/share semantics (trusted table); reflection on private attributes by user code"],
   explanation="Ownership analysis over all _bitstore install sites, flag writes, promoted-operand variables and public "
               "return values: provenance of every installed store (FRESH/CACHED/BUFFER/MAYBE_SHARED/BORROWED/OWNED) "
               "against the kind of the target object (LIVE/CONSTRUCTION/VIEW/PRIVATE, flowed along receiver edges of "
               "the resolved call graph, per concrete class).",
   floors={'A1': 60, 'A4': 25, 'A5': 100})

_p('C01', ['K', 'E6', 'J2', 'A10', 'A1', 'A11', 'SLN', 'IDX1', 'G3'],
   decided=["the result of +, *, slicing and their reflected forms has exactly the class of the left (bitstring) operand, "
            "for each of the four classes",
            "a negative repeat count raises ValueError (guard agreement among __mul__/__imul__; __rmul__ delegates)",
            "the content of len/iter/bool/indexing/slicing/+/* depends only on the operands' bits: these operations "
            "reach no read of the stream position or file name, and temporaries they mutate own fresh stores",
            "non-in-place operations of the mutable classes return new objects (never self or an operand); installed stores are never shared with a mutable object",
            "negative and omitted slice bounds keep their meaning: no arithmetic on the raw start/stop of a caller's slice before "
            "slice.indices()/indices(); no single position widened to the window [k, k+1) unless known non-negative",
            "len and concatenation do not depend on the bit-numbering option: on every class, + and reflected + reach no mode-switched append/prepend or positional accessor (the left operand's bits come first in s.bin in both modes)"],
   declined=["agreement of every index/slice/step/concatenation/repetition result with the string model, and IndexError "
             "for out-of-range indices: run-time index arithmetic inside bitarray and offset_slice_indices_lsb0"],
   explanation="Class-provenance typing of every return of the operator/slicing methods per concrete class; sibling guard "
               "comparison; call-graph reachability to field reads.")

_p('C06', ['C', 'POSW', 'B1', 'POST', 'RB', 'NOMOVE', 'E7', 'D2', 'J1', 'J2', 'OPT', 'CHOKE', 'SCALE', 'STALE', 'A11', 'SELFOP', 'F2'],
   decided=["0 <= pos <= len in its structural part: _pos is definitely assigned on every escaping stream object; every "
            "_pos write is 0, the length, a validated/restored/found position, pos+len after a validated pos, or a "
            "bounded/checked increment; every effect that can change a BitStream's length is covered by stream-level "
            "code that updates _pos",
            "a failing read leaves pos unchanged (no raise after an un-restored _pos write in read); peek/peeklist "
            "save and restore; readlist moves pos only with the successful result",
            "a read needing more bits than remain raises ReadError (both fixed-length reader closures; exp-Golomb "
            "translation chain)",
            "documented position after append/+=/prepend/clear/deletion/assignment/replace/insert/overwrite/find and "
            "for new stream objects (kind of the assigned value per method)",
            "pos never affects ==, hash or any non-stream result (content operations reach no _pos read)",
            "operations that are not documented to move pos never run, on self, a stream-level function that assigns self._pos; a _pos assignment never lands on a local that may be the receiver itself; negative dtype lengths cannot move pos backwards",
            "what a read consumes depends on the format, the content and pos only, in the part that can be seen statically: the memoised "
            "parse results the readers use (token lists, dtype lists) are never changed in place, neither by the caller that receives "
            "them nor by a function they are handed to"],
   declined=["that the value returned by a read is the interpretation of exactly the consumed bits; pos arithmetic for "
             "oversized lengths inside _read_dtype_list (run-time)"],
   explanation="Typestate and path rules over bitstream.py: classification of all _pos writes by the form of the assigned "
               "value and its dominating guards, rollback path walk of read(), effect summaries per public BitStream "
               "name, post-condition table keyed by method.",
   floors={'POSW': 25, 'B1': 18})

_p('C07', ['E1', 'E2', 'E3', 'E11', 'OPT', 'MEMO', 'BYTEWIN', 'SIB', 'LOOPX'],
   decided=["an empty pattern raises ValueError in find, rfind, findall, split, replace (and `in`/readto by delegation)",
            "an invalid [start, end) raises: every public function with start/end validates them through _validate_slice "
            "(or forwards them unchanged to one that does) before any other use",
            "bytealigned=None defaults from options.bytealigned before reaching any store-level search",
            "replace's count limits the non-overlapping matches it selects itself (never handed to findall); no return precedes the validation of start/end; Optional parameters are defaulted with `is None`",
            'chunked searches process the chunk at the start of the range (a clamped-step cursor is tested against its bound before it is moved), and a search limited by count counts the results it yields - in both variants of the mode-switched findall'],
   declined=["agreement of the fast byte path, general path and chunked reverse path with the brute-force definition; "
             "overlap and ordering of results (run-time search arithmetic)"],
   explanation="Sibling guard agreement over the search entry points; forward-or-validate dataflow of start/end; taint of "
               "the raw bytealigned parameter to the store-level search sinks.")

_p('C08', ['J1', 'J2', 'L', 'A7', 'A8', 'A6', 'A3', 'A1', 'A11', 'ITER1', 'MEMO', 'PAD'],
   decided=["the complete observable state is the bit content: per-object fields are closed (__slots__) and _filename, "
            "immutable, modified_length, _pos are read only by the code whose role needs them; content operations "
            "reach no read of _pos/_filename",
            "a file-backed bitstring whose length stops short of the file behaves as the in-memory bitstring of those "
            "bits: the logical length never outlives construction (or every raw reader consults it)",
            "every construction route ends in a store holding copies of the selected window (ingress copies; "
            "frombuffer only on a read-only mmap)",
            'no operation reads a store through the buffer protocol (memoryview/bytes of the bitarray): the unspecified pad bits of the last byte cannot leak into any result'],
   declined=["that every public operation returns equal results on equal content (needs functional correctness of each "
             "operation; run-time)"],
   explanation="Field read-confinement census, representation-invariant check of BitStore.modified_length (abstract "
               "state at the exits of its writers), ingress-copy rules.")

_p('C10', ['D2', 'E9', 'J1', 'OPTDEP', 'A1', 'INTEX'],
   decided=["negative values for the unsigned codes are rejected (guard dominates the encoder)",
            "a truncated codeword raises ReadError (InterpretError through the property) and a codeword followed by "
            "extra bits is not accepted as a single value: exception translation chain decoder -> getter -> reader, "
            "index reads inside try/except IndexError, slice reads behind a remaining-bits test, length check",
            "position unchanged on failure: decoders take and return pos as a value (no _pos access outside bitstream.py)",
            "the codes refuse lsb0 mode consistently (setters and base decoders)",
            "the interpretations read no module option except the lsb0 refusal; the remaining-bits test of each decoder equals (as a linear form) the end of the slice it protects; cached encoders never hand a shared store to a mutable object",
            "exactness for arbitrarily large integers, in its necessary part: no function below the integer dtypes' set/get/read "
            "functions uses true division, float() or math.* (all-integer arithmetic)"],
   declined=["exact codewords for every integer, decode(encode(i)) == i, prefix-freeness (arithmetic on unbounded integers)"],
   explanation="Exception-translation and guard-dominance checks over the four setters, four getters, the decoders and the "
               "reader closures of DtypeDefinition.")

_p('C13', ['HASH', 'J1', 'J2', 'D3', 'L', 'G3', 'EQ1', 'A7', 'A1', 'PAD'],
   decided=["BitArray and BitStream are unhashable, Bits and ConstBitStream hash (MRO resolution incl. Python's implicit "
            "__hash__ = None); ordering operators return NotImplemented",
            "== / != / hash have one implementation each for all classes and reach no read of _pos or _filename, so they "
            "are independent of stream position and construction route; logical length honoured",
            "comparison with a non-promotable type is False, not an error; != is the negation of ==",
            "== is decided on the stores (never on a zero-padded serialisation without the length); raw buffer reads are confined to BitStore; foreign bitarrays are re-built big-endian; whole-value operations incl. __hash__ are mode independent",
            'equality and hash never read the raw buffer of a bitarray (whose pad bits are unspecified): content reaches them through the bitarray API only'],
   declined=["symmetry/transitivity as value-level laws, the 2000-bit sampling threshold arithmetic, equality with "
             "promotable operands (run-time)"],
   explanation="MRO resolution of __hash__/__eq__/__ne__ per class, field-dependence reachability, handler check of the "
               "promotion TypeError.")

_p('C16', ['A1', 'A3', 'A5', 'A8', 'A10', 'A11', 'E6', 'K', 'C', 'L', 'G3', 'POSW', 'F1', 'IDEM', 'D5'],
   decided=["operands are never modified by the non-in-place forms, including when both operands are the same object: no "
            "self store effect in the public operators of the immutable classes; mutated temporaries own fresh stores; "
            "BitStore-level binary operators and _copy build new stores",
            "ValueError for negative shift counts and empty bitstrings, Error for ~ of an empty bitstring (guards present "
            "and agreeing among siblings)",
            "results are new objects of the operand's class with pos assigned",
            "non-in-place operators of the mutable classes never return the receiver or an operand; shifts and bit-wise operators reach no mode-switched position accessor; operator wrappers never assign _pos on a possible alias of the receiver"],
   declined=["the per-bit boolean function, zero fill, algebraic laws, ValueError for unequal lengths (raised inside "
             "bitarray): run-time / leaf behaviour"],
   explanation="Effect summaries per public operator, provenance of mutated temporaries, sibling guard agreement, "
               "result-class typing.")

_p('C03', ['B2', 'WB', 'N1', 'B1', 'E2', 'E11', 'OPT', 'G5', 'A3', 'F2', 'RNG', 'IDX1', 'SIB', 'SELFOP', 'IDEM', 'SFMT'],
   decided=["an invalid position, range or value raises and leaves the content as it was: in every public mutator of "
            "BitArray/BitStream no explicit raise (directly, or in a loop through a raising callee) is reachable after the "
            "first change of self (operations over an iterable of positions exempt, by the property's wording)",
            "an operation given a [start, end) range never alters bits outside it, in its bounded-write part: loops of "
            "ranged in-place writes are bounded by the validated end",
            "helpers' position asserts are established by their public callers' guards",
            "start/end are validated (or forwarded to the validating function) before any return; replace's count is not findall's count",
            "positions given as a range are not reinterpreted as slice bounds (negative and out-of-range bounds mean different things)",
            "byteswap's code sizes are the standard struct sizes: every format handed to struct.calcsize/pack/unpack carries an explicit byte-order prefix (no native sizes or alignment)"],
   declined=["equality of the resulting sequence with the documented operation, return values, length preservation in "
             "general (run-time)"],
   explanation="Path walk of every effectful public mutator (effects from the store-effect summaries), bound derivation "
               "for write loops from the validated window, dominating-guard facts for helper asserts.",
   floors={'B2': 40})

_p('C14', ['I', 'IDX', 'TY1', 'XDT', 'B3', 'B2', 'N2a', 'A9', 'N4', 'MEMO', 'SGN0', 'DELEG', 'TRAIL'],
   decided=["item i occupies bits [i*w, (i+1)*w) with w in bits for every fixed-length dtype incl. byte-multiplier ones: "
            "bit counts (len of data, Dtype.bitlength, itemsize), unit counts (Dtype.length) and item counts are never "
            "mixed in array_.py (three-sorted dimension analysis of every arithmetic, comparison, slice bound, position)",
            "a failing in-place operator leaves the Array unchanged; extended-slice assignment, extend, insert, append "
            "validate before they change anything",
            "zero-width items are impossible (the dtype writer rejects them before installing)",
            "copies and slices of an Array own their data",
            "raw item data crosses from another Array / array.array into self.data (extend, equals, any splice) only under a dtype "
            "test covering name, width and scale, so the range check of _create_element is never bypassed and equals() compares items",
            "every method that turns an item index into a bit offset first normalises a negative index by the item count (sibling agreement), items are never addressed from the end of the buffer; numeric-only calls are not applied to non-numeric element values",
            'Array methods address the data from its end only by the trailing-bit count or after refusing trailing bits (the last item is not at the end of the data when trailing bits exist)'],
   declined=["agreement of every list operation and operator result with the Python list model; promotion rules as "
             "values (run-time)"],
   explanation="Dimension (unit) analysis over array_.py, atomicity path rule for in-place helpers, guard check on the "
               "only writer of Array._dtype.")

_p('C20', ['M', 'D1', 'D5', 'N1', 'N2', 'N2a', 'N3', 'N4', 'N5', 'A5', 'B1', 'POSW', 'E7', 'E8', 'H1', 'OPT', 'A1', 'SELFOP'],
   decided=["never an internal error class: AttributeError (every self.<attr> of every method resolves in every concrete "
            "class), AssertionError (29 asserts: facts at public call sites or reviewed reason), ZeroDivisionError "
            "(all divisions), KeyError (struct-code regexes cover the table lookups), NameError (all globals "
            "resolve), undocumented classes (raise-site census)",
            "immutable objects unchanged; streams keep a valid pos (typestate of _pos writes, override coverage)",
            "module options are as the caller left them (writes confined to the setters)",
            "KeyError: every table lookup by a run-time key is guarded or justified; StopIteration/OverflowError from next()/struct.pack are contained; option asserts never sit in generators; Optional numeric parameters are defaulted with `is None`"],
   declined=["RecursionError, MemoryError, len(s) == len(s.bin) as a run-time invariant, errors raised inside bitarray "
             "with surprising classes"],
   explanation="Member resolution per class, raise/assert/division censuses with dominating-guard facts, symtable name "
               "resolution, global-write census.",
   floors={'M': 1000, 'D1': 150, 'N1': 20, 'N2': 20})

_p('C02', ['H4', 'H2', 'H3', 'LV', 'OPTDEP', 'A7', 'F2', 'F5', 'INTEX', 'SCALE', 'SGN0'],
   decided=["every creation route (constructor keyword, property assignment, token string, Dtype.build, pack, Array "
            "element) and every reading route (property, property with length, Dtype.parse, unpack, read) dispatches "
            "through the registry's set/get/read function for the name, so routes cannot disagree",
            "integer encoders/decoders agree: uint/uintbe reach int2bitstore(.., False) and slice_to_uint, int/intbe the "
            "signed ones; the le forms reach the same encoder/decoder through exactly one byte reversal; byte-wise "
            "getters refuse partial bytes; float be/le differ only in the struct prefix",
            "length tables agree: allowed_lengths of float/bfloat/bool/8-bit floats/endian integers vs the lengths the "
            "setters and format tables accept; stated length vs built length compared on every route",
            "interpretations depend on no module option except the documented ones; struct formats used by an integer getter/setter have its signedness, byte order and size; cached token lists are never mutated; integer dtypes of any width stay in exact integer arithmetic (no float on the value path)"],
   declined=["exact canonical encodings and parse(build(v)) == v for all values and lengths: numerical, done inside "
             "bitarray/struct on run-time values"],
   explanation="Role-dispatch census over the creation and reading routes (resolved calls through Dtype.set_fn/get_fn/"
               "read_fn), structural comparison of the integer setters/getters, table agreement.")

_p('C12', ['G1', 'G2', 'G3', 'G5', 'E8', 'E5', 'E9', 'N1', 'F2', 'IDX1', 'RNG', 'SLN', 'MIRROR', 'LOOPX'],
   decided=["switching the option off restores msb0 behaviour exactly; the switch is complete (both tables assign the "
            "same 13 slots, variants differ and agree on parameters, nothing else rebinds a slot)",
            "whole-value interpretations, ==, hash, len, tobytes and the stored bit order of every ingest route are "
            "computed without mode-dependent position arguments",
            "every position-taking operation goes through the mirror: no direct reference to an msb0/lsb0 variant "
            "outside the sanctioned absolute sites; msb0 search positions are never fed to switched accessors",
            "the two variants of each slot accept the same argument kinds (no operation works in one mode and raises "
            "AttributeError in the other); step 0 fails with ValueError in both modes",
            "there is one mirror: the store-level lsb0 variants address the bitarray only with a slice returned by "
            "offset_slice_indices_lsb0 or with the index mirror -i - 1 (no hand-made mirrored slice, which is wrong for steps "
            "other than 1); a single position is never widened to [k, k+1) while possibly negative; raw slice bounds are not "
            "used in arithmetic before normalisation",
            'the lsb0 variant of findall walks its chunks to the start of the range and counts yielded matches only, as the msb0 variant does'],
   declined=["the mirror arithmetic itself (offset_slice_indices_lsb0 for negative steps, _findall_lsb0 chunking, count= "
             "and bytealigned handling, del with a step): integer arithmetic on run-time values; split() under lsb0 "
             "(not among the operations the property lists; pinned by the project's own test)"],
   explanation="Structural comparison of the mode tables; call-graph reachability from the whole-value operations to "
               "position-taking switched slots; census of direct variant references; parameter-dereference comparison "
               "of slot variants.",
   floors={'G1': 13, 'E8': 13})

_p('C15', ['CHOKE', 'E5', 'WIN', 'XDT', 'E4', 'LV', 'H3', 'H2', 'H4', 'B2', 'D2', 'N2a', 'F2', 'OPT'],
   decided=["a length that is zero (integers), negative or not allowed for the type raises: Dtype objects are created only "
            "through get_dtype behind the allowed-length and non-negativity tests; integer/bfloat/float setters reject "
            "missing, zero or off-table lengths; registry allowed_lengths for floats, bfloat, bool, 8/6/4-bit floats, "
            "whole-byte endian integers",
            "a token whose stated length disagrees with its value raises: the comparison exists on all five routes",
            "an offset or length beyond the supplied bytes / bitarray / file / BytesIO raises (bounds cells of the ingest "
            "matrix; the test bounds exactly the end of the window taken: linear-form equality over offset, length, byte offset)",
            "a rejected value neither creates nor changes anything: no raise after the first effect in mutators, Array "
            "element/slice assignment and extend build before they write; negative unsigned exp-Golomb values rejected",
            "the range check in force is the one of the dtype asked for: each integer setter calls the encoder with its registry signedness "
            "and the caller's length, byte-wise forms refuse partial bytes, the little-endian encoder forwards value/length/signed "
            "unchanged to the big-endian one (whose OverflowError handler raises CreationError)"],
   declined=["the exact range boundaries [0, 2^n) / [-2^(n-1), 2^(n-1)) and that every in-range value succeeds with "
             "exactly n bits (delegated to bitarray.util.int2ba); the `raise e` of int2bitstore is recorded, not judged"],
   explanation="Who-may-call and guard-dominance check of the Dtype choke point, sibling agreement of setters and ingest "
               "routes, validate-before-mutate path rule.")

_p('C19', ['ESC', 'POST', 'H3', 'N2', 'CHOKE', 'I', 'LZ', 'DELEG'],
   decided=["pp output contains no terminal escape sequences when options.no_color is set: escape literals occur only in "
            "Colour.__new__ under `if use_colour`, the else branch assigns empty strings to the same attributes, and "
            "every Colour is constructed from `not options.no_color`",
            "repr of a stream carries its pos",
            "layout tables name only dtypes with a character-width function; the divisions of pp/_pp cannot be by zero; "
            "negative group lengths are rejected at the Dtype choke point",
            "every digit is shown, in its necessary part: no rendering path below str/repr/pp/bin/hex/oct formats bit content "
            "through a width-less integer format (which would drop leading zeros)"],
   declined=["re-parsability of str/repr, truncation marks, digit order, group integrity and line widths of pp: layout "
             "arithmetic on run-time values"],
   explanation="Literal census for escape sequences with branch placement, construction-site check of Colour, table and "
               "division obligations of the pretty printer.")

_p('C05', ['PK', 'LV', 'F1', 'F2', 'H1', 'REP', 'STALE'],
   decided=["a token string with embedded =value parts and pack() with separate values go through the same token parser "
            "(tokenparser) and the same token builder (bitstore_from_token); packing and unpacking share the same "
            "bracket/multiplier/struct-code expansion (preprocess_tokens)",
            "packing with too few or too many values, a wrongly sized value or a malformed format raises CreationError "
            "(StopIteration handlers, left-over check, length comparison, ValueError conversion)",
            "the packed pieces are concatenated in token order (reversed only under lsb0)",
            "the memoised parsers depend on nothing but their arguments and their cached token lists are never mutated",
            "struct-style codes expand through tables that agree with struct",
            "'n*f' equals f written n times, in its structural part: a multiplier in front of a multi-code struct token repeats the "
            "whole group in order (classification of how preprocess_tokens grows its result), not each code",
            "unpack of a format with one length-less token: its length comes from the position reached when it is read (no "
            "remaining-bits quantity computed before the read loop and used inside it), so self-delimiting tokens in front of it count"],
   declined=["that unpack inverts pack for every format and value, that lengths add up, bracket expansion ('n*(f)') and that formats "
             "compose: string/regex manipulation and integer encoding on run-time values — no static argument of this family bounds them"],
   explanation="Call-graph reachability showing that the three routes share one parser and one builder; handler and guard "
               "structure of pack(); purity and non-mutation of the memoised parsers.")


TECHNIQUE = {
    'C05': 'call-graph route agreement of pack/string/unpack; handler structure of pack; purity of memoised parsers; classification of how the multiplier expansion grows its list; loop-carried remaining-bits check',
    'C02': 'role-dispatch census of creation/reading routes; structural comparison of integer encoders/decoders; partial evaluation of the struct formats reached per (length, byte order); integer-exactness and signed-zero checks on the value path',
    'C12': 'switch-table comparison; reachability from whole-value operations to position-taking slots; variant-reference census; single-mirror check of the store-level lsb0 variants',
    'C15': 'who-may-call + guard dominance at the Dtype choke point; sibling agreement of setters and ingest routes; bounds tests vs window ends as linear forms; validate-before-mutate',
    'C19': 'escape-literal census with branch placement; Colour construction sites; pp table/division obligations',
    'C03': 'path walk of mutators for raise-after-effect; bound derivation of write loops; guard facts for helper asserts; sibling guard agreement of re-implemented mutators; operand-read-after-mutation check; struct-format prefix census',
    'C14': 'three-sorted dimension analysis (bits/units/items) of array_.py; atomicity path rule; dtype-writer guard; dtype-agreement (name, width, scale) for raw data transfer; memo coherence; end-relative addressing of the data vs trailing bits',
    'C20': 'member resolution, raise/assert/division censuses with dominating-guard facts, symtable names, global-write census',
    'C01': 'result-class provenance typing per concrete class; sibling guard agreement; field-read reachability',
    'C06': 'typestate of _pos: classification of all writes, rollback path walk, effect/override coverage, post-condition table; mutation census of memoised parse results (also through parameters)',
    'C07': 'sibling guard agreement; forward-or-validate dataflow of start/end; taint of raw bytealigned to search sinks (followed through the receiving parameter); inward byte rounding of byte-level searches',
    'C08': 'field read-confinement census; representation invariant of BitStore.modified_length; ingress-copy rules; raw-buffer-view census (pad bits)',
    'C10': 'exception-translation chain and guard dominance over exp-Golomb setters/getters/decoders/reader closures',
    'C13': 'MRO resolution of __hash__/__eq__; field-dependence reachability; handler check; raw-buffer-view census (pad bits)',
    'C16': 'effect summaries of operators; provenance of mutated temporaries; guard agreement; result-class typing',
    'C04': 'ownership/provenance analysis of BitStore installs with object-kind dataflow over the resolved call graph; effect summaries',
    'C11': 'exhaustive table validation against an exact format model (constant folding of luts.py literals); partial evaluation of format constructors',
    'C09': 'call-graph reachability from lru_cache functions to option reads; global-write census; switch-table comparison',
    'C17': 'constant folding of the tofile chunk size; delegation and guard-dominance checks; ingest feature matrix with window bounds as linear forms; raw-buffer-view census (pad bits)',
    'C18': 'regex character classes (re._parser) vs dict-literal tables vs struct.calcsize; branch interpretation; struct-format prefix census',
}

NOT_APPLICABLE = {}
for _i in range(1, 21):
    _pid = f'C{_i:02d}'
    if _pid not in PROPS and _pid not in NOT_APPLICABLE:
        NOT_APPLICABLE[_pid] = 'no check registered in this revision of /verif (static rules for it are still being built)'

"""Program model of /repo/bitstring built from source only (DESIGN 2.1).

Nothing in here imports or executes the library.  Everything is read off the
syntax trees: modules, import aliases, classes with C3 linearisation, per-class
namespaces, the lsb0/msb0 switch tables of ``Options.set_lsb0``, the dtype
registry literal of ``__init__.py`` with both byte-order alias branches, and a
function table with stable keys ``module:Class.func[.inner]``.
"""
from __future__ import annotations

import ast
import collections
import hashlib
import os

FAMILY = ['Bits', 'BitArray', 'ConstBitStream', 'BitStream']
MUTABLE = {'BitArray', 'BitStream'}
IMMUTABLE = {'Bits', 'ConstBitStream'}


class AnalysisError(Exception):
    """The analyser cannot vouch for anything (exit 2)."""


def repo_root() -> str:
    return os.environ.get('VERIF_REPO', '/repo')


class Func:
    __slots__ = ('mod', 'cls', 'node', 'parent', 'name', 'key', 'decorators', 'children')

    def __init__(self, mod, cls, node, parent=None, suffix=''):
        self.mod, self.cls, self.node, self.parent = mod, cls, node, parent
        self.name = node.name
        if parent is not None:
            self.key = f"{parent.key}.{node.name}{suffix}"
        else:
            self.key = f"{mod}:{(cls + '.') if cls else ''}{node.name}"
        self.decorators = [ast.unparse(d) for d in node.decorator_list]
        self.children = []

    def __repr__(self):
        return self.key

    @property
    def lineno(self):
        return self.node.lineno

    def is_classmethod(self):
        return any(d.endswith('classmethod') for d in self.decorators)

    def is_staticmethod(self):
        return any(d.endswith('staticmethod') for d in self.decorators)

    def is_cached(self):
        return any('lru_cache' in d or d.endswith('.cache') or d == 'cache' for d in self.decorators)

    def is_property(self):
        return any(d == 'property' or d.endswith('.setter') or d.endswith('.getter') for d in self.decorators)

    def params(self):
        a = self.node.args
        return [x.arg for x in a.posonlyargs + a.args] + ([a.vararg.arg] if a.vararg else []) + \
               [x.arg for x in a.kwonlyargs] + ([a.kwarg.arg] if a.kwarg else [])

    def own_nodes(self):
        """Walk the body without descending into nested function/class definitions."""
        stack = list(self.node.body)
        while stack:
            n = stack.pop()
            yield n
            for c in ast.iter_child_nodes(n):
                if isinstance(c, (ast.FunctionDef, ast.AsyncFunctionDef, ast.ClassDef, ast.Lambda)):
                    continue
                stack.append(c)

    def file(self):
        return f"bitstring/{self.mod}.py"

    def loc(self, node=None):
        real = _REAL_LINES.get(self.mod)
        if real is not None:
            # this module's tree was rewritten (new helpers integrated): report the function's line in the real file
            root = self
            while root.parent is not None:
                root = root.parent
            q = f"{root.cls}.{root.name}" if root.cls else root.name
            ln = real.get(q)
            return f"{self.file()}:{ln if ln else '?'} (in {q}; new helper(s) integrated for the analysis)"
        return f"{self.file()}:{getattr(node or self.node, 'lineno', self.node.lineno)}"


_REAL_LINES = {}      # module -> {qualified function name: def line in the real file}, for modules rewritten by engine/inline.py


class ClassInfo:
    def __init__(self, mod, node):
        self.mod, self.node, self.name = mod, node, node.name
        self.methods = {}      # name -> Func (overload stubs skipped)
        self.attrs = {}        # name -> ast value (class-level assignments)
        self.props = {}        # name -> (fget name|None, fset name|None) for property(...) / @property
        self.bases = []
        self.slots = None


def _is_overload(node):
    return any(ast.unparse(d).endswith('overload') for d in node.decorator_list)


class _Aliased(dict):
    """A table whose old names keep working after a pure rename (see Model._rename_aliases)."""
    def __init__(self, *a):
        super().__init__(*a)
        self.alias = {}
        self.alias_obj = {}         # old key -> the object itself (a function that now lives in another table)

    def __missing__(self, k):
        if k in self.alias:
            return dict.__getitem__(self, self.alias[k])
        if k in self.alias_obj:
            return self.alias_obj[k]
        raise KeyError(k)

    def get(self, k, d=None):
        try:
            return self[k]
        except KeyError:
            return d

    def __contains__(self, k):
        return dict.__contains__(self, k) or k in self.alias or k in self.alias_obj


class Model:
    def __init__(self, repo=None):
        self.repo = repo or repo_root()
        self.pkg = os.path.join(self.repo, 'bitstring')
        if not os.path.isdir(self.pkg):
            raise AnalysisError(f"package directory {self.pkg} not found")
        self.mods, self.src, self.digests = {}, {}, {}
        for fn in sorted(os.listdir(self.pkg)):
            if not fn.endswith('.py'):
                continue
            path = os.path.join(self.pkg, fn)
            text = open(path, encoding='utf-8').read()
            name = fn[:-3]
            self.src[name] = text
            self.digests[name] = hashlib.sha256(text.encode()).hexdigest()[:16]
            try:
                self.mods[name] = ast.parse(text, path)
            except SyntaxError as e:
                raise AnalysisError(f"cannot parse {path}: {e}")
        from . import inline
        _REAL_LINES.clear()
        try:
            inline.erase_keyword_only(self.mods)
        except Exception:
            pass
        try:
            self.undone_renames = inline.undo_renames(self.mods)
        except Exception:
            self.undone_renames = {}
        try:
            rewritten, self.integrated_helpers = inline.integrate(self.mods, self.src)
        except Exception as e:      # the integration is an aid, never a reason to fail: analyse the tree as written
            rewritten, self.integrated_helpers = {}, []
            for name, text in self.src.items():
                self.mods[name] = ast.parse(text)
        _REAL_LINES.update(rewritten)
        try:
            inline.flatten_guards(self.mods)
        except Exception:
            pass
        self.classes = {}
        self.funcs = {}
        self.modfuncs = collections.defaultdict(dict)
        self.modglobals = collections.defaultdict(dict)
        self.imports = collections.defaultdict(dict)
        for mod, tree in self.mods.items():
            if mod == 'luts':
                for n in tree.body:
                    if isinstance(n, ast.Assign) and isinstance(n.targets[0], ast.Name):
                        self.modglobals[mod][n.targets[0].id] = n.value
                continue
            self._load_module(mod, tree)
        for c in self.classes.values():
            c.bases = [b.attr if isinstance(b, ast.Attribute) else getattr(b, 'id', ast.unparse(b)) for b in c.node.bases]
        self._rename_aliases()
        self._moved_aliases()
        self._absorber_aliases()
        self._decorator_aliases()
        self.mro = {c: self._c3(c) for c in self.classes}
        self._implicit_hash()
        self._switch_tables()
        self._registry()
        self._roles()

    def _moved_aliases(self):
        """A module-level function of the reviewed tree that now lives in another module of the package under the same name
        (same body, or the same vocabulary when it was restyled on the way): the old key and the old module's table keep
        answering with it."""
        from . import inline
        baseline = inline.baseline_functions()
        vocab = inline._baseline_vocab()
        self.moved = {}
        for old, d in baseline.items():
            if dict.__contains__(self.funcs, old) or old in self.funcs.alias or '@' in old or '#' in old:
                continue
            omod, name = old.split(':')
            ocls = None
            if '.' in name:
                # a static method of the reviewed tree that became a module-level function of the same name
                ocls, _, name = name.partition('.')
                if '.' in name or ocls not in self.classes or (vocab.get(old) and len(vocab[old]) > 2 and False):
                    continue
                if (inline._baseline_params().get(old) or ['self'])[0] in ('self', 'cls'):
                    continue
            cands = [f for f in self.funcs.values() if f.parent is None and f.cls is None and f.name == name and (f.mod != omod or ocls) and f.key not in baseline]
            if len(cands) != 1:
                continue
            f = cands[0]
            same = inline._digest(f.node) == d
            if not same and old in vocab:
                words = set()
                for x in ast.walk(f.node):
                    if x is f.node:
                        continue
                    if isinstance(x, ast.Name):
                        words.add(x.id)
                    elif isinstance(x, ast.Attribute):
                        words.add(x.attr)
                    elif isinstance(x, ast.Constant) and not (isinstance(x.value, str) and len(x.value) > 20):
                        words.add(repr(x.value))
                import re as _re
                words = {_re.sub(r'^_inl\d+_', '', w) for w in words}
                ov = vocab[old][1]
                # the name itself says most of it (one function of that name vanished, one appeared elsewhere); the vocabulary only
                # has to be related, since a move is often combined with restyling
                same = len(ov & words) / max(1, len(ov | words)) >= 0.25
            if same and ocls:
                self.funcs.alias_obj[old] = f
                self.classes[ocls].methods.setdefault(name, f)
                self.moved[old] = f.key
                continue
            if same:
                self.funcs.alias_obj[old] = f
                if not isinstance(self.modfuncs[omod], _Aliased):
                    self.modfuncs[omod] = _Aliased(self.modfuncs[omod])
                self.modfuncs[omod].alias_obj[name] = f
                self.moved[old] = f.key

    def _absorber_aliases(self):
        """A function of the reviewed tree that is gone because it was folded into its ONE caller: the old key answers with that
        caller, so that a rule anchored on the helper examines the code where it now lives (engine/reasons.py finds the absorber by
        the vocabulary the caller gained)."""
        try:
            from .reasons import Renames
            absorbed = Renames(self).absorbed
        except Exception:
            return
        by_old = {}
        for k, olds in absorbed.items():
            for o in olds:
                by_old.setdefault(o, []).append(k)
        for o, ks in by_old.items():
            if len(ks) == 1 and not dict.__contains__(self.funcs, o) and o not in self.funcs.alias:
                self.funcs.alias[o] = ks[0]
                f = dict.__getitem__(self.funcs, ks[0])
                oldname = o.split(':')[1].split('.')[-1]
                if f.cls and f.cls in self.classes and o.split(':')[1].split('.')[0] == f.cls:
                    self.classes[f.cls].methods.alias.setdefault(oldname, f.name)
                elif not f.cls and '.' not in o.split(':')[1]:
                    self.modfuncs[f.mod].alias.setdefault(oldname, f.name)
        self.absorbed_into = {o: ks[0] for o, ks in by_old.items() if len(ks) == 1}

    def _decorator_aliases(self):
        """`_memo = functools.lru_cache(maxsize=N)` at module level and `@_memo` on a function: the decorator is read as what
        the name stands for, so that memoisation (and a missing typed=True) is seen however it is spelled."""
        for f in self.funcs.values():
            new = []
            for d in f.decorators:
                g = self.modglobals.get(f.mod, {}).get(d.split('(')[0]) if d.split('(')[0].isidentifier() else None
                if isinstance(g, ast.Call) and ('lru_cache' in ast.unparse(g.func) or ast.unparse(g.func).split('.')[-1] == 'cache') and '(' not in d:
                    new.append(ast.unparse(g))
                elif isinstance(g, ast.Attribute) and g.attr in ('lru_cache', 'cache') and d == d.split('(')[0]:
                    new.append(ast.unparse(g))
                elif isinstance(g, ast.Attribute) and g.attr in ('lru_cache', 'cache'):
                    new.append(ast.unparse(g) + d[len(d.split('(')[0]):])
                else:
                    new.append(d)
            f.decorators = new

    def _rename_aliases(self):
        """A private function of the reviewed baseline that is gone, while a function that did not exist then has exactly its
        body (same module, same class): a rename.  The old key / name keeps working as an alias, so the rules' anchors (which
        name functions of the reviewed tree) follow the rename instead of reporting a vanished anchor."""
        from . import inline
        from .reasons import body_digest
        self.renamed = {}
        baseline = inline.baseline_functions()
        funcs = _Aliased(self.funcs)
        self.funcs = funcs
        for ci in self.classes.values():
            ci.methods = _Aliased(ci.methods)
        for mod in list(self.modfuncs):
            self.modfuncs[mod] = _Aliased(self.modfuncs[mod])
        missing = {k: d for k, d in baseline.items() if k not in self.funcs and d and '@' not in k}
        if not missing:
            return
        by_digest = {}
        for f in self.funcs.values():
            if f.key not in baseline:
                by_digest.setdefault(body_digest(f), []).append(f)
        for old, d in sorted(missing.items()):
            scope = old.rsplit('.', 1)[0] if '.' in old.split(':')[1] else old.split(':')[0] + ':'
            cands = [f for f in by_digest.get(d, []) if (f.key.rsplit('.', 1)[0] if '.' in f.key.split(':')[1] else f.key.split(':')[0] + ':') == scope]
            if len(cands) != 1:
                continue
            f = cands[0]
            self.renamed[old] = f.key
            funcs.alias[old] = f.key
            oldname = old.split(':')[1].split('.')[-1]
            if f.parent is None:
                if f.cls and f.cls in self.classes:
                    self.classes[f.cls].methods.alias[oldname] = f.name
                elif not f.cls:
                    self.modfuncs[f.mod].alias[oldname] = f.name

    # ------------------------------------------------------------------ loading
    def _load_module(self, mod, tree):
        for n in ast.walk(tree):
            if isinstance(n, ast.Import):
                for a in n.names:
                    local = a.asname or a.name.split('.')[0]
                    self.imports[mod][local] = ('module', a.name if a.asname else a.name.split('.')[0])
            elif isinstance(n, ast.ImportFrom):
                base = n.module or ''
                if n.level:  # relative import inside the package
                    base = 'bitstring' + ('.' + base if base else '')
                for a in n.names:
                    self.imports[mod][a.asname or a.name] = ('symbol', base, a.name)
        for n in tree.body:
            self._load_stmt(mod, n)

    def _load_stmt(self, mod, n):
        if isinstance(n, ast.ClassDef):
            ci = ClassInfo(mod, n)
            self.classes[n.name] = ci
            for m in n.body:
                if isinstance(m, ast.FunctionDef):
                    if _is_overload(m):
                        continue
                    f = Func(mod, n.name, m)
                    decs = f.decorators
                    setter = [d for d in decs if d.endswith('.setter')]
                    if setter:
                        pname = setter[0].split('.')[0]
                        f.key += '@setter'
                        self.funcs[f.key] = f
                        g, _ = ci.props.get(pname, (None, None))
                        ci.props[pname] = (g, f)
                        self._nested(f)
                        continue
                    self.funcs[f.key] = f
                    if 'property' in decs:
                        ci.props[m.name] = (f, ci.props.get(m.name, (None, None))[1])
                    ci.methods[m.name] = f
                    self._nested(f)
                elif isinstance(m, ast.Assign):
                    for t in m.targets:
                        if isinstance(t, ast.Name):
                            ci.attrs[t.id] = m.value
                        # len = length = property(...)
                    v = m.value
                    if isinstance(v, ast.Call) and isinstance(v.func, ast.Name) and v.func.id == 'property':
                        fget = v.args[0].id if len(v.args) > 0 and isinstance(v.args[0], ast.Name) else None
                        fset = v.args[1].id if len(v.args) > 1 and isinstance(v.args[1], ast.Name) else None
                        for kw in v.keywords:
                            if kw.arg == 'fget' and isinstance(kw.value, ast.Name):
                                fget = kw.value.id
                            if kw.arg == 'fset' and isinstance(kw.value, ast.Name):
                                fset = kw.value.id
                        for t in m.targets:
                            if isinstance(t, ast.Name):
                                ci.props[t.id] = (fget, fset)   # names, resolved lazily
                elif isinstance(m, ast.AnnAssign) and isinstance(m.target, ast.Name):
                    if m.value is not None:
                        ci.attrs[m.target.id] = m.value
            sl = ci.attrs.get('__slots__')
            if sl is not None:
                try:
                    v = ast.literal_eval(sl)
                    ci.slots = tuple(v) if not isinstance(v, str) else (v,)
                except Exception:
                    raise AnalysisError(f"{mod}:{n.name}.__slots__ is not a literal")
        elif isinstance(n, ast.FunctionDef):
            if _is_overload(n):
                return
            f = Func(mod, None, n)
            self.funcs[f.key] = f
            self.modfuncs[mod][n.name] = f
            self._nested(f)
        elif isinstance(n, ast.Assign):
            for t in n.targets:
                if isinstance(t, ast.Name):
                    self.modglobals[mod][t.id] = n.value
        elif isinstance(n, ast.AnnAssign) and isinstance(n.target, ast.Name) and n.value is not None:
            self.modglobals[mod][n.target.id] = n.value
        elif isinstance(n, (ast.If, ast.Try, ast.With)):
            for c in ast.iter_child_nodes(n):
                if isinstance(c, ast.stmt):
                    self._load_stmt(mod, c)

    def _nested(self, f):
        seen = collections.Counter()

        def rec(parent, body_nodes):
            for n in body_nodes:
                for c in ast.iter_child_nodes(n):
                    if isinstance(c, ast.FunctionDef):
                        seen[(parent.key, c.name)] += 1
                        k = seen[(parent.key, c.name)]
                        g = Func(parent.mod, parent.cls, c, parent=parent, suffix=('' if k == 1 else f'#{k}'))
                        self.funcs[g.key] = g
                        parent.children.append(g)
                        rec(g, [c])
                    elif not isinstance(c, (ast.ClassDef, ast.Lambda)):
                        rec(parent, [c])
        rec(f, [f.node])

    # ------------------------------------------------------------------ classes
    def _c3(self, c):
        bases = [b for b in self.classes[c].bases if b in self.classes]
        seqs = [list(self._c3(b)) for b in bases] + [list(bases)]
        res = [c]
        seqs = [s for s in seqs if s]
        while seqs:
            for s in seqs:
                h = s[0]
                if not any(h in t[1:] for t in seqs):
                    break
            else:
                raise AnalysisError(f"MRO conflict for {c}")
            res.append(h)
            seqs = [[x for x in s if x != h] for s in seqs]
            seqs = [s for s in seqs if s]
        return res

    def _implicit_hash(self):
        # Python: a class that defines __eq__ without __hash__ gets __hash__ = None
        for ci in self.classes.values():
            if '__eq__' in ci.methods and '__hash__' not in ci.methods and '__hash__' not in ci.attrs:
                ci.attrs['__hash__'] = ast.Constant(value=None)

    def subclasses(self, cls):
        return [c for c in self.classes if cls in self.mro[c]]

    def family_contexts(self, cls):
        """Concrete classes of the four-class family for which ``cls`` is in the MRO."""
        return [c for c in FAMILY if c in self.classes and cls in self.mro[c]]

    # ------------------------------------------------------------------ dynamic installs
    def _switch_tables(self):
        self.switch = {}
        self.slots = collections.defaultdict(dict)   # (cls, slot) -> {mode: funcname}
        opt = self.classes.get('Options')
        if opt is None or 'set_lsb0' not in opt.methods:
            raise AnalysisError("anchor vanished: Options.set_lsb0 not found")
        f = opt.methods['set_lsb0']
        self.set_lsb0 = f
        local_alias = {}
        tables = []
        for n in ast.walk(f.node):
            if isinstance(n, ast.Assign) and len(n.targets) == 1 and isinstance(n.targets[0], ast.Name):
                name = n.targets[0].id
                # a mode table: a dict literal of dict literals {Class: {'slot': Class.func, ...}, ...} (whatever it is called)
                if isinstance(n.value, ast.Dict) and n.value.values and all(isinstance(v, ast.Dict) for v in n.value.values):
                    d = {}
                    plain = True
                    for k, v in zip(n.value.keys, n.value.values):
                        kc = local_alias.get(ast.unparse(k), ast.unparse(k)).split('.')[-1]
                        for sk, sv in zip(v.keys, v.values):
                            if not (isinstance(sk, ast.Constant) and isinstance(sv, ast.Attribute)):
                                plain = False          # e.g. a table of (msb0, lsb0) pairs: handled below
                                continue
                            vc = local_alias.get(ast.unparse(sv.value), ast.unparse(sv.value)).split('.')[-1]
                            d[(kc, sk.value)] = (vc, sv.attr, sv.lineno)
                    if plain:
                        tables.append((name, d))
                elif isinstance(n.value, ast.Attribute):
                    local_alias[name] = n.value.attr
        self.switch_pair_index = None
        if len(tables) != 2:
            # one table of (msb0, lsb0) pairs:  {Class: {'slot': (Class.f_a, Class.f_b), ...}, ...}
            pair_tables = []
            for n in ast.walk(f.node):
                if isinstance(n, ast.Assign) and len(n.targets) == 1 and isinstance(n.targets[0], ast.Name) and isinstance(n.value, ast.Dict) and n.value.values \
                        and all(isinstance(v, ast.Dict) and v.values and all(isinstance(w, ast.Tuple) and len(w.elts) == 2 and all(isinstance(e, ast.Attribute) for e in w.elts)
                                                                                 for w in v.values) for v in n.value.values):
                    pair_tables.append(n)
            flat = []
            if len(pair_tables) != 1:
                # flat rows (Class, 'slot', (Class.f_a, Class.f_b)) - in a local, or written where the loop iterates
                for n in ast.walk(f.node):
                    if isinstance(n, (ast.Tuple, ast.List)) and len(n.elts) >= 4 and all(
                            isinstance(r, ast.Tuple) and len(r.elts) == 3 and isinstance(r.elts[1], ast.Constant) and isinstance(r.elts[1].value, str)
                            and isinstance(r.elts[2], ast.Tuple) and len(r.elts[2].elts) == 2 and all(isinstance(e, ast.Attribute) for e in r.elts[2].elts)
                            for r in n.elts):
                        flat.append(n)
            if len(pair_tables) != 1 and len(flat) == 1:
                halves = [{}, {}]
                for r in flat[0].elts:
                    kc = local_alias.get(ast.unparse(r.elts[0]), ast.unparse(r.elts[0])).split('.')[-1]
                    for i in (0, 1):
                        e = r.elts[2].elts[i]
                        vc = local_alias.get(ast.unparse(e.value), ast.unparse(e.value)).split('.')[-1]
                        halves[i][(kc, r.elts[1].value)] = (vc, e.attr, e.lineno)
                score = [sum(v[1].endswith('_lsb0') for v in d.values()) - sum(v[1].endswith('_msb0') for v in d.values()) for d in halves]
                if score[0] == score[1]:
                    raise AnalysisError("Options.set_lsb0: cannot tell the lsb0 half of the pairs from the msb0 half (needs a human)")
                hi = 0 if score[0] > score[1] else 1
                self.switch = {'lsb0': halves[hi], 'msb0': halves[1 - hi]}
                self.switch_names = {'lsb0': '<rows>', 'msb0': '<rows>'}
                self.switch_pair_index = {'lsb0': hi, 'msb0': 1 - hi}
                self.switch_rows = flat[0]
                for mode, d in self.switch.items():
                    for (c, s2), (vc, vf, _) in d.items():
                        self.slots[(c, s2)][mode] = (vc, vf)
                return
            if len(pair_tables) != 1:
                if self._switch_tables_by_evaluation(f):
                    return
                raise AnalysisError("anchor vanished: the mode tables (dict literals of dict literals) not found in Options.set_lsb0")
            n = pair_tables[0]
            halves = [{}, {}]
            for k, v in zip(n.value.keys, n.value.values):
                kc = local_alias.get(ast.unparse(k), ast.unparse(k)).split('.')[-1]
                for sk, sv in zip(v.keys, v.values):
                    if not isinstance(sk, ast.Constant):
                        raise AnalysisError(f"{n.targets[0].id}: entry {ast.unparse(sk)} is not 'slot': (Class.f, Class.g)")
                    for i in (0, 1):
                        e = sv.elts[i]
                        vc = local_alias.get(ast.unparse(e.value), ast.unparse(e.value)).split('.')[-1]
                        halves[i][(kc, sk.value)] = (vc, e.attr, e.lineno)
            score = [sum(v[1].endswith('_lsb0') for v in d.values()) - sum(v[1].endswith('_msb0') for v in d.values()) for d in halves]
            if score[0] == score[1]:
                raise AnalysisError("Options.set_lsb0: cannot tell the lsb0 half of the pairs from the msb0 half (needs a human)")
            hi = 0 if score[0] > score[1] else 1
            self.switch = {'lsb0': halves[hi], 'msb0': halves[1 - hi]}
            self.switch_names = {'lsb0': n.targets[0].id, 'msb0': n.targets[0].id}
            self.switch_pair_index = {'lsb0': hi, 'msb0': 1 - hi}
            for mode, d in self.switch.items():
                for (c, s2), (vc, vf, _) in d.items():
                    self.slots[(c, s2)][mode] = (vc, vf)
            return
        # which is which: the lsb0 table is the one naming more *_lsb0 variants
        score = [sum(v[1].endswith('_lsb0') for v in d.values()) - sum(v[1].endswith('_msb0') for v in d.values()) for _, d in tables]
        if score[0] == score[1]:
            raise AnalysisError("Options.set_lsb0: cannot tell the lsb0 table from the msb0 table by their variants (needs a human)")
        hi = 0 if score[0] > score[1] else 1
        self.switch = {'lsb0': tables[hi][1], 'msb0': tables[1 - hi][1]}
        self.switch_names = {'lsb0': tables[hi][0], 'msb0': tables[1 - hi][0]}
        for mode, d in self.switch.items():
            for (c, s), (vc, vf, _) in d.items():
                self.slots[(c, s)][mode] = (vc, vf)

    def _switch_tables_by_evaluation(self, f):
        """No literal table to read: evaluate set_lsb0 for the option true and false (rules/peval.py, nothing is executed) and
        collect what it installs - setattr(Class, 'slot', Class.variant) calls and Class.slot = Class.variant assignments,
        whatever loops, f-strings or getattr spell them.  True if both evaluations give a complete, equal set of slots."""
        from .rules.peval import PEval, Unsupported, is_const
        tables = {}
        for flag, mode in ((True, 'lsb0'), (False, 'msb0')):
            env = {'self._lsb0': flag}
            try:
                pe = PEval(self, f, env)
                # the first statement stores the flag (self._lsb0 = bool(value)): evaluate with the parameter set as well
                for p_ in f.params()[1:]:
                    pe.env[p_] = flag
                pe.run()
            except (Unsupported, RecursionError, Exception):
                return False
            if len(pe.final_envs) != 1:
                return False
            d = {}

            def cls_of(v):
                return v[1].split('.')[-1] if isinstance(v, tuple) and len(v) == 2 and v[0] == 'sym' else None

            def fn_of(v):
                if isinstance(v, tuple) and len(v) == 2 and v[0] == 'sym' and '.' in v[1]:
                    parts = v[1].split('.')
                    return parts[-2], parts[-1]
                return None
            for name, args, node, _k in pe.calls:
                if name == 'setattr' and len(args) == 3 and isinstance(args[1], str) and cls_of(args[0]) and fn_of(args[2]):
                    d[(cls_of(args[0]), args[1])] = fn_of(args[2]) + (getattr(node, 'lineno', f.node.lineno),)
            for k, v in pe.final_envs[0].items():
                if '.' in k and not k.startswith('self.') and fn_of(v) and k.count('.') == 1:
                    c, slot = k.split('.')
                    if c in self.classes:
                        d[(c, slot)] = fn_of(v) + (f.node.lineno,)
            tables[mode] = d
        if not tables['lsb0'] or set(tables['lsb0']) != set(tables['msb0']) or len(tables['lsb0']) < 8:
            return False
        if not all(vc in self.classes and vf in self.classes[vc].methods for d in tables.values() for (vc, vf, _l) in d.values()):
            return False
        self.switch = tables
        self.switch_names = {'lsb0': '<evaluated>', 'msb0': '<evaluated>'}
        self.switch_pair_index = None
        self.switch_evaluated = True
        for mode, d in self.switch.items():
            for (c, s2), (vc, vf, _) in d.items():
                self.slots[(c, s2)][mode] = (vc, vf)
        return True

    def _registry(self):
        tree = self.mods.get('__init__')
        if tree is None:
            raise AnalysisError("bitstring/__init__.py missing")
        self.registry = []          # list of dict
        self.aliases_fixed, self.aliases_le, self.aliases_be = [], [], []
        defs = self.modglobals['__init__'].get('dtype_definitions')
        if not isinstance(defs, ast.List):
            raise AnalysisError("anchor vanished: dtype_definitions list literal")
        pos_names = ['name', 'set_fn', 'get_fn', 'return_type', 'is_signed', 'bitlength2chars_fn',
                     'variable_length', 'allowed_lengths', 'multiplier', 'description']
        # take the positional parameter order from DtypeDefinition.__init__ itself
        dd = self.classes.get('DtypeDefinition')
        if dd and '__init__' in dd.methods:
            pos_names = dd.methods['__init__'].params()[1:]
        for call in defs.elts:
            if not (isinstance(call, ast.Call) and ast.unparse(call.func) == 'DtypeDefinition'):
                raise AnalysisError(f"dtype_definitions entry is not a DtypeDefinition(...) call: {ast.unparse(call)[:60]}")
            d = {'node': call, 'lineno': call.lineno}
            for i, a in enumerate(call.args):
                d[pos_names[i]] = a
            for kw in call.keywords:
                d[kw.arg] = kw.value
            e = {'node': call, 'lineno': call.lineno}
            e['name'] = ast.literal_eval(d['name'])
            for role in ('set_fn', 'get_fn', 'bitlength2chars_fn'):
                v = d.get(role)
                e[role] = None if v is None or (isinstance(v, ast.Constant) and v.value is None) else ast.unparse(v)
            e['return_type'] = ast.unparse(d['return_type']) if 'return_type' in d else 'Any'
            e['is_signed'] = ast.literal_eval(d['is_signed']) if 'is_signed' in d else False
            e['variable_length'] = ast.literal_eval(d['variable_length']) if 'variable_length' in d else False
            e['allowed_lengths'] = ast.literal_eval(d['allowed_lengths']) if 'allowed_lengths' in d else ()
            e['multiplier'] = ast.literal_eval(d['multiplier']) if 'multiplier' in d else 1
            self.registry.append(e)
        al = self.modglobals['__init__'].get('aliases')
        if not isinstance(al, ast.List):
            raise AnalysisError("anchor vanished: aliases list literal")
        self.aliases_fixed = [ast.literal_eval(x) for x in al.elts]
        found = False
        for n in self.mods['__init__'].body:
            if isinstance(n, ast.If) and 'byteorder' in ast.unparse(n.test) and 'little' in ast.unparse(n.test):
                found = True
                self.byteorder_if = n

                def holds(t, order):
                    """Value of the branch test on a host of the given byte order; None if the test has another shape."""
                    if isinstance(t, ast.UnaryOp) and isinstance(t.op, ast.Not):
                        v = holds(t.operand, order)
                        return None if v is None else not v
                    if isinstance(t, ast.Compare) and len(t.ops) == 1 and isinstance(t.ops[0], (ast.Eq, ast.NotEq)) and \
                            ast.unparse(t.left) in ('byteorder', 'sys.byteorder') and isinstance(t.comparators[0], ast.Constant) \
                            and t.comparators[0].value in ('little', 'big'):
                        eq = (t.comparators[0].value == order)
                        return eq if isinstance(t.ops[0], ast.Eq) else not eq
                    return None
                on_little, on_big = holds(n.test, 'little'), holds(n.test, 'big')
                self.byteorder_test_ok = (on_little is not None and on_big is not None and on_little != on_big)
                le_branch, be_branch = (n.body, n.orelse) if on_little in (True, None) else (n.orelse, n.body)
                for branch, out in ((le_branch, self.aliases_le), (be_branch, self.aliases_be)):
                    for s in branch:
                        for c in ast.walk(s):
                            if isinstance(c, ast.Call) and isinstance(c.func, ast.Attribute) and c.func.attr == 'extend':
                                out.extend(ast.literal_eval(c.args[0]))
        if not found:
            raise AnalysisError("anchor vanished: `if byteorder == 'little'` alias branches")
        self.registry_by_name = {e['name']: e for e in self.registry}

    def dtype_names(self, branch='le'):
        """All names resolvable in the register (definitions + aliases) for one byte-order branch."""
        names = {e['name']: e for e in self.registry}
        for src, alias in self.aliases_fixed + (self.aliases_le if branch == 'le' else self.aliases_be):
            if src in names:
                names[alias] = names[src]
        return names

    def registry_funcs(self, role):
        """Funcs registered under set_fn / get_fn."""
        out = []
        for e in self.registry:
            v = e.get(role)
            if v and '.' in v:
                c, m = v.rsplit('.', 1)
                f = self.classes.get(c) and self.classes[c].methods.get(m)
                if f:
                    out.append(f)
        return out

    def _roles(self):
        """Helper roles recognised by shape, not by name: the range validator and the operand promoter."""
        self.validators, self.promoters = set(), set()
        for c in FAMILY:
            ci = self.classes.get(c)
            if ci is None:
                continue
            for name, f in ci.methods.items():
                ps = f.params()
                if len(ps) == 3 and not f.is_classmethod():
                    a, b = ps[1], ps[2]
                    rets = [x for x in ast.walk(f.node) if isinstance(x, ast.Return) and isinstance(x.value, ast.Tuple) and
                            [getattr(e, 'id', None) for e in x.value.elts] == [a, b]]
                    lens = {'len(self)'} | {ast.unparse(x.targets[0]) for x in ast.walk(f.node) if isinstance(x, ast.Assign) and len(x.targets) == 1
                                            and ast.unparse(x.value) == 'len(self)'}
                    # a range test naming both parameters and the length, and a raise (in the test's branch or after it)
                    chk = [x for x in ast.walk(f.node) if isinstance(x, ast.Compare) and {a, b} <= {n.id for n in ast.walk(x) if isinstance(n, ast.Name)}
                           and any(ast.unparse(y) in lens for y in ast.walk(x))]
                    raises = [x for x in ast.walk(f.node) if isinstance(x, ast.Raise)]
                    other_rets = [x for x in ast.walk(f.node) if isinstance(x, ast.Return) and x not in rets]
                    if rets and chk and raises and not other_rets:
                        self.validators.add(name)
                if f.is_classmethod() and len(ps) == 2:
                    arg = ps[1]
                    tests = [x for x in ast.walk(f.node) if isinstance(x, ast.Call) and ast.unparse(x) == f'isinstance({arg}, {ps[0]})']
                    same = [x for x in ast.walk(f.node) if isinstance(x, ast.Return) and x.value is not None and ast.unparse(x.value) == arg]
                    fresh = [x for x in ast.walk(f.node) if isinstance(x, ast.Call) and ast.unparse(x.func) in ('super().__new__', 'object.__new__', ps[0])]
                    if tests and same and fresh:
                        self.promoters.add(name)
        if not self.validators:
            raise AnalysisError('anchor vanished: no (start, end) range validator found on the bitstring classes')
        if not self.promoters:
            raise AnalysisError('anchor vanished: no operand-promotion classmethod (returns its argument when it already is a cls) found')

    # ------------------------------------------------------------------ resolution helpers
    def lookup(self, cls, name, modes=('msb0', 'lsb0')):
        """MRO lookup of ``name`` on ``cls``.

        Returns (kind, payload): ('method', [Func...]) — several for a switched slot;
        ('prop', (fget Func|None, fset Func|None)); ('attr', ast value); ('slot', defining class);
        ('dtype', entry) for registry-installed properties; (None, None).
        """
        for c in self.mro.get(cls, [cls]):
            ci = self.classes.get(c)
            if ci is None:
                continue
            if (c, name) in self.slots:
                fs = []
                for mode in modes:
                    tgt = self.slots[(c, name)].get(mode)
                    if tgt:
                        f = self.classes.get(tgt[0]) and self.classes[tgt[0]].methods.get(tgt[1])
                        if f and f not in fs:
                            fs.append(f)
                return 'method', fs
            if name in ci.props:
                g, s = ci.props[name]
                if isinstance(g, str):
                    g = self.lookup(c, g)[1]
                    g = g[0] if g else None
                if isinstance(s, str):
                    s = self.lookup(c, s)[1]
                    s = s[0] if s else None
                return 'prop', (g, s)
            if name in ci.methods:
                return 'method', [ci.methods[name]]
            if name in ci.attrs:
                return 'attr', ci.attrs[name]
            if ci.slots and name in ci.slots:
                return 'slot', c
            # registry-installed properties: getters on Bits, getter+setter on BitArray
            if c in ('Bits', 'BitArray'):
                names = dict(self.dtype_names('le'))
                names.update(self.dtype_names('be'))
                if name in names:
                    e = names[name]
                    if c == 'Bits' and e['get_fn']:
                        return 'dtype', e
                    if c == 'BitArray' and e['set_fn']:
                        return 'dtype', e
        return None, None

    def winner(self, cls, name, modes=('msb0', 'lsb0')):
        kind, p = self.lookup(cls, name, modes)
        return p if kind == 'method' else []

    def next_in_mro(self, ctx_cls, defining_cls, name, modes=('msb0', 'lsb0')):
        mro = self.mro[ctx_cls]
        if defining_cls not in mro:
            return []
        for c in mro[mro.index(defining_cls) + 1:]:
            ci = self.classes[c]
            if (c, name) in self.slots:
                return self.winner(c, name, modes)
            if name in ci.methods:
                return [ci.methods[name]]
        return []

    def func_by_dotted(self, dotted):
        """'Bits._setuint' -> Func"""
        if '.' in dotted:
            c, m = dotted.rsplit('.', 1)
            c = c.split('.')[-1]
            if c in self.classes:
                return self.classes[c].methods.get(m)
        return None

    def public_names(self, cls):
        names = set()
        for c in self.mro[cls]:
            ci = self.classes[c]
            for n in list(ci.methods) + list(ci.props):
                if not n.startswith('_') or (n.startswith('__') and n.endswith('__')):
                    names.add(n)
        return names

    def digest(self):
        h = hashlib.sha256()
        for k in sorted(self.digests):
            h.update(k.encode() + self.digests[k].encode())
        return h.hexdigest()[:16]

    def stats(self):
        return {'modules': len(self.mods), 'classes': len(self.classes), 'functions': len(self.funcs),
                'registry_definitions': len(self.registry), 'switch_slots': len(self.slots),
                'source_digest': self.digest()}

"""Receiver typing and call resolution (DESIGN 2.2).

A small structured abstract interpreter runs over each function (per concrete
``self`` class for the four-class family), keeping for every local variable a set
of type tags.  From the typed receivers it resolves every call form the
repository uses — including implicit calls through operators, properties, the
mode-switched slots and the dtype registry — to ``(Func, context-class)`` pairs.
"""
from __future__ import annotations

import ast
import collections

from .model import Model, Func, FAMILY, AnalysisError

ANY = frozenset()


def T(*tags):
    return frozenset(tags)


LIB_INSTANCE_TAGS = None  # filled per model

BUILTIN_RET = {
    'len': T('int'), 'int': T('int'), 'str': T('str'), 'bool': T('bool'), 'float': T('float'), 'bytes': T('bytes'),
    'bytearray': T('bytearray'), 'list': T('list'), 'tuple': T('tuple'), 'dict': T('dict'), 'set': T('set'),
    'range': T('range'), 'slice': T('slice'), 'isinstance': T('bool'), 'hasattr': T('bool'), 'min': T('int'),
    'max': T('int'), 'sum': T('int'), 'abs': T('int'), 'divmod': T('tuple'), 'repr': T('str'), 'hash': T('int'),
    'iter': T('iter'), 'next': ANY, 'reversed': T('iter'), 'zip': T('iter'), 'enumerate': T('iter'),
    'sorted': T('list'), 'any': T('bool'), 'all': T('bool'), 'type': ANY, 'getattr': ANY, 'callable': T('bool'),
    'open': T('file'), 'print': T('none'), 'chr': T('str'), 'ord': T('int'), 'bin': T('str'), 'hex': T('str'),
    'id': T('int'), 'round': T('int'), 'memoryview': T('memoryview'), 'setattr': T('none'), 'property': T('property'),
    'super': T('super'), 'object': T('object'), 'dir': T('list'), 'format': T('str'), 'ValueError': T('exc'),
    'TypeError': T('exc'), 'IndexError': T('exc'), 'AttributeError': T('exc'), 'KeyError': T('exc'),
    'NotImplementedError': T('exc'), 'EOFError': T('exc'), 'ImportError': T('exc'), 'RuntimeError': T('exc'),
    'StopIteration': T('exc'), 'OverflowError': T('exc'), 'ZeroDivisionError': T('exc'),
}

STR_RET = {'split': T('list'), 'join': T('str'), 'lower': T('str'), 'upper': T('str'), 'replace': T('str'),
           'strip': T('str'), 'find': T('int'), 'rfind': T('int'), 'startswith': T('bool'), 'endswith': T('bool'),
           'count': T('int'), 'format': T('str'), 'index': T('int'), 'encode': T('bytes'), 'isdigit': T('bool'),
           'lstrip': T('str'), 'rstrip': T('str')}

# field name -> type tags (confirmed by the all-assignments scan in rule A0)
FIELD_TYPES = {
    '_bitstore': T('BitStore'), '_bitarray': T('bitarray'), '_pos': T('int'), '_filename': T('str'),
    'modified_length': T('int', 'none'), 'immutable': T('bool'), 'data': T('BitArray'), '_dtype': T('Dtype'),
    '_lsb0': T('bool'), '_bytealigned': T('bool'), '_mxfp_overflow': T('str'), 'no_color': T('bool'),
    'allowed_lengths': T('AllowedLengths'), 'values': T('tuple'), 'names': T('dict'),
    'lut_float16_to_binary8': T('bytes'), 'lut_binary8_to_float': T('tuple'), 'lut_float16_to_mxfp': T('bytes'),
    'lut_int_to_float': T('tuple'), 'multiplier': T('int'), 'name': T('str'), 'variable_length': T('bool'),
    'description': T('str'), 'is_signed': T('bool'), 'set_fn_needs_length': T('bool'),
    'exp_bits': T('int'), 'mantissa_bits': T('int'), 'bias': T('int'), 'mxfp_overflow': T('str'),
    'pos_clamp_value': T('int'), 'neg_clamp_value': T('int'),
}
DTYPE_ROLE_ATTRS = {
    'bitlength2chars_fn': 'b2c',
    'set_fn': 'set', '_set_fn': 'set', 'unscaled_set_fn': 'set',
    'get_fn': 'get', '_get_fn': 'get', 'unscaled_get_fn': 'get',
    'read_fn': 'read', '_read_fn': 'read', 'unscaled_read_fn': 'read',
}

# bitarray methods that mutate the receiver in place (trusted table, DESIGN 2.2)
BITARRAY_MUTATORS = {'setall', 'clear', 'reverse', 'invert', '__setitem__', '__delitem__', 'frombytes', 'extend',
                     'append', 'insert', 'pop', 'remove', 'sort', 'fill', 'bytereverse', '__iadd__', '__iand__',
                     '__ior__', '__ixor__', '__imul__', '__ilshift__', '__irshift__', 'pack', 'encode', 'fromfile'}

BINOP_DUNDER = {ast.Add: '__add__', ast.Sub: '__sub__', ast.Mult: '__mul__', ast.BitAnd: '__and__',
                ast.BitOr: '__or__', ast.BitXor: '__xor__', ast.LShift: '__lshift__', ast.RShift: '__rshift__',
                ast.FloorDiv: '__floordiv__', ast.Div: '__truediv__', ast.Mod: '__mod__'}
CMP_DUNDER = {ast.Eq: '__eq__', ast.NotEq: '__ne__', ast.Lt: '__lt__', ast.Gt: '__gt__', ast.LtE: '__le__',
              ast.GtE: '__ge__'}


class CallSite:
    __slots__ = ('node', 'kind', 'targets', 'recv', 'recv_type', 'args', 'name', 'external', 'resolved', 'stmt',
                 'role')

    def __init__(self, node, kind, name, targets=(), recv=None, recv_type=ANY, args=(), external=None,
                 resolved=True, stmt=None, role=None):
        self.node, self.kind, self.name = node, kind, name
        self.targets = list(targets)
        self.recv, self.recv_type, self.args = recv, recv_type, list(args)
        self.external, self.resolved, self.stmt, self.role = external, resolved, stmt, role

    def __repr__(self):
        t = ','.join(f"{f.key}@{c}" for f, c in self.targets) or (self.external or '?')
        return f"<{self.kind} {self.name} -> {t}>"


class FuncAnalysis:
    """Result of analysing one (function, context class)."""

    def __init__(self, func, ctx):
        self.func, self.ctx = func, ctx
        self.calls = []                    # CallSite, in source order of discovery
        self.env_at = {}                   # id(stmt) -> env (dict name -> tags) in effect *before* the stmt
        self.expr_type = {}                # id(expr) -> tags
        self.unresolved = []
        self.returns = []                  # (Return node, tags)
        self.final_env = {}


class Resolver:
    def __init__(self, model: Model):
        self.m = model
        self.lib = set(model.classes)
        self._fa = {}
        self._ret_memo = {}
        self._in_progress = set()
        self.role_funcs = self._dtype_roles()

    # ------------------------------------------------------------------ dtype registry dispatch
    def _dtype_roles(self):
        m = self.m
        roles = {'set': [], 'get': [], 'read': [], 'b2c': []}
        for e in m.registry:
            b = e.get('bitlength2chars_fn')
            if b and b in m.modfuncs['__init__'] and (m.modfuncs['__init__'][b], None) not in roles['b2c']:
                roles['b2c'].append((m.modfuncs['__init__'][b], None))
        dd = m.classes.get('DtypeDefinition')
        init = dd.methods.get('__init__') if dd else None
        closures = {c.name: [] for c in (init.children if init else [])}
        if init:
            for c in init.children:
                closures[c.name].append(c)
        for e in m.registry:
            for role, key in (('set', 'set_fn'), ('get', 'get_fn')):
                f = m.func_by_dotted(e[key]) if e[key] else None
                if f and (f, 'Bits') not in roles[role]:
                    roles[role].append((f, 'Bits'))
        self.registry_get = list(roles['get'])
        self.registry_set = list(roles['set'])
        for name in ('allowed_length_checked_get_fn', 'length_checked_get_fn'):
            for c in closures.get(name, []):
                roles['get'].append((c, None))
        for c in closures.get('read_fn', []):
            roles['read'].append((c, None))
        for wrap, role in (('scaled_get_fn', 'get'), ('scaled_set_fn', 'set'), ('scaled_read_fn', 'read')):
            w = m.modfuncs['dtypes'].get(wrap)
            if w:
                for c in w.children:
                    roles[role].append((c, None))
        if not roles['read'] or not roles['get'] or not roles['set']:
            raise AnalysisError("anchor vanished: dtype set/get/read function roles could not be reconstructed")
        return roles

    # ------------------------------------------------------------------ annotations
    def ann_type(self, ann, func, ctx):
        if ann is None:
            return ANY
        if isinstance(ann, ast.Constant) and isinstance(ann.value, str):
            try:
                ann = ast.parse(ann.value, mode='eval').body
            except SyntaxError:
                return ANY
        if isinstance(ann, ast.Constant) and ann.value is None:
            return T('none')
        if isinstance(ann, ast.Name):
            n = ann.id
            if n in ('TBits', 'TConstBitStream'):
                return self.self_type(func, ctx) if func.cls in FAMILY else self.family('Bits' if n == 'TBits' else 'ConstBitStream')
            if n in FAMILY:
                return self.family(n)
            if n in self.lib:
                return T(n)
            if n in ('int', 'str', 'bool', 'float', 'bytes', 'bytearray', 'list', 'dict', 'tuple', 'slice', 'set',
                     'memoryview'):
                return T(n)
            if n in ('BitsType', 'Any', 'ElementType'):
                return ANY
            if n in ('BinaryIO', 'TextIO'):
                return T('file')
            return ANY
        if isinstance(ann, ast.Attribute):
            a = ast.unparse(ann)
            if a.endswith('bitarray.bitarray'):
                return T('bitarray')
            if ann.attr in self.lib:
                return self.family(ann.attr) if ann.attr in FAMILY else T(ann.attr)
            if a == 'array.array':
                return T('array')
            return ANY
        if isinstance(ann, ast.Subscript):
            head = ast.unparse(ann.value).split('.')[-1]
            sl = ann.slice
            elts = sl.elts if isinstance(sl, ast.Tuple) else [sl]
            if head in ('Optional', 'Union'):
                out = set()
                for e in elts:
                    t = self.ann_type(e, func, ctx)
                    if not t:
                        return ANY
                    out |= t
                if head == 'Optional':
                    out.add('none')
                return frozenset(out)
            if head in ('List', 'list'):
                return T('list')
            if head in ('Tuple', 'tuple'):
                return T('tuple')
            if head in ('Dict', 'dict'):
                return T('dict')
            if head in ('Iterable', 'Iterator'):
                return T('iter')
            if head == 'Type':
                inner = self.ann_type(elts[0], func, ctx)
                return frozenset('cls:' + t for t in inner)
            if head in ('Pattern',):
                return T('pattern')
            if head in ('Match',):
                return T('match')
            if head in ('Callable',):
                return T('fn')
            return ANY
        if isinstance(ann, ast.BinOp) and isinstance(ann.op, ast.BitOr):
            l, r = self.ann_type(ann.left, func, ctx), self.ann_type(ann.right, func, ctx)
            return (l | r) if l and r else ANY
        return ANY

    def family(self, base):
        return frozenset(c for c in FAMILY if base in self.m.mro.get(c, ()))

    def self_type(self, func, ctx):
        if ctx:
            return T(ctx)
        if func.cls:
            if func.cls in FAMILY:
                return self.family(func.cls)
            return T(func.cls)
        return ANY

    # ------------------------------------------------------------------ analysis driver
    def analyse(self, func: Func, ctx=None) -> FuncAnalysis:
        if func.cls in FAMILY and ctx is None and not func.is_staticmethod():
            ctx_key = None
        else:
            ctx_key = ctx
        k = (func.key, ctx_key)
        if k in self._fa:
            return self._fa[k]
        fa = FuncAnalysis(func, ctx_key)
        self._fa[k] = fa
        env = {}
        if func.parent is not None:
            pfa = self.analyse(func.parent, ctx_key)
            env.update(pfa.final_env)
        a = func.node.args
        allargs = a.posonlyargs + a.args + a.kwonlyargs
        for i, arg in enumerate(allargs):
            t = self.ann_type(arg.annotation, func, ctx_key)
            if i == 0 and func.cls and func.parent is None and not func.is_staticmethod():
                if func.is_classmethod() or func.name == '__new__':
                    st = self.self_type(func, ctx_key)
                    t = frozenset('cls:' + x for x in st)
                else:
                    t = self.self_type(func, ctx_key)
            env[arg.arg] = t
        # parameters of the dtype plumbing that are functions of a known role
        if func.key == 'dtypes:DtypeDefinition.__init__' or (func.parent and func.parent.key == 'dtypes:DtypeDefinition.__init__'):
            env.setdefault('set_fn', ANY)
            env['set_fn'] = T('role:set0')
            env['get_fn'] = T('role:get0')
        if func.mod == 'dtypes' and func.cls is None and func.name.startswith('scaled_') or \
                (func.parent and func.parent.mod == 'dtypes' and func.parent.cls is None and func.parent.name.startswith('scaled_')):
            env['get_fn'] = T('role:get')
            env['set_fn'] = T('role:set')
            env['read_fn'] = T('role:read')
        if a.vararg:
            env[a.vararg.arg] = T('tuple')
        if a.kwarg:
            env[a.kwarg.arg] = T('dict')
        w = _Walker(self, fa)
        fa.final_env = w.block(func.node.body, env)
        return fa

    def return_type(self, func: Func, ctx=None):
        k = (func.key, ctx)
        if k in self._ret_memo:
            return self._ret_memo[k]
        if k in self._in_progress:
            return ANY
        r = self.ann_type(func.node.returns, func, ctx)
        if func.name in self.m.promoters and func.cls in FAMILY:
            # `return auto` under isinstance(auto, cls): the result may be of any subclass of cls
            r = self.family(ctx or func.cls)
        wide = len([t for t in r if t in FAMILY]) > 1 and func.node.returns is not None and \
            ast.unparse(func.node.returns).strip("'") in FAMILY
        if func.node.returns is None or not r or wide:
            # (an annotation naming a family class is only an upper bound: prefer what the returns really build)
            ann = r
            self._in_progress.add(k)
            try:
                fa = self.analyse(func, ctx)
                out = set()
                for _, t in fa.returns:
                    out |= t
                r = frozenset(out)
                if wide and (not r or not r <= ann):
                    r = ann
            finally:
                self._in_progress.discard(k)
        self._ret_memo[k] = r
        return r

    # ------------------------------------------------------------------ whole-program helpers
    def contexts(self, func):
        if func.cls in FAMILY and not func.is_staticmethod():
            # only contexts for which this function is reachable as an attribute of the class
            return self.m.family_contexts(func.cls)
        return [None]

    def all_analyses(self):
        out = []
        for f in self.m.funcs.values():
            for c in self.contexts(f):
                out.append(self.analyse(f, c))
        return out

    def stats(self):
        tot = unres = 0
        for fa in self.all_analyses():
            for cs in fa.calls:
                if cs.kind in ('call',):
                    tot += 1
                    if not cs.resolved:
                        unres += 1
        return {'explicit_calls': tot, 'unresolved': unres,
                'resolved_ratio': round(1 - unres / max(tot, 1), 4)}


class _Walker:
    """Structured forward abstract interpretation of one function body."""

    def __init__(self, R: Resolver, fa: FuncAnalysis):
        self.R, self.m, self.fa = R, R.m, fa
        self.func, self.ctx = fa.func, fa.ctx
        self.cur_stmt = None
        self.seen_calls = set()

    # -------------------------------------------------------------- statements
    def block(self, stmts, env):
        for s in stmts:
            env = self.stmt(s, env)
        return env

    @staticmethod
    def merge(a, b):
        out = dict(a)
        for k, v in b.items():
            if k in out:
                out[k] = (out[k] | v) if (out[k] and v) else ANY
            else:
                out[k] = v
        return out

    def stmt(self, s, env):
        self.fa.env_at[id(s)] = env
        self.cur_stmt = s
        if isinstance(s, (ast.FunctionDef, ast.AsyncFunctionDef)):
            env = dict(env)
            env[s.name] = T('fnlocal:' + s.name)
            return env
        if isinstance(s, ast.ClassDef):
            return env
        if isinstance(s, ast.Assign):
            t = self.expr(s.value, env)
            env = dict(env)
            for tgt in s.targets:
                self.assign(tgt, t, s.value, env)
            return env
        if isinstance(s, ast.AnnAssign):
            t = self.expr(s.value, env) if s.value is not None else ANY
            at = self.R.ann_type(s.annotation, self.func, self.ctx)
            env = dict(env)
            self.assign(s.target, at or t, s.value, env)
            return env
        if isinstance(s, ast.AugAssign):
            vt = self.expr(s.value, env)
            tt = self.expr(self._as_load(s.target), env)
            name = '__i' + BINOP_DUNDER.get(type(s.op), '__x__')[2:]
            res = self.operator_call(s, tt, name, [s.value], env, recv=s.target,
                                     fallback=BINOP_DUNDER.get(type(s.op)))
            env = dict(env)
            # a property target: getter and setter are both invoked
            if isinstance(s.target, ast.Attribute):
                self.attr_store(s.target, env)
            elif isinstance(s.target, ast.Subscript):
                self.subscript_store(s.target, s.value, env)
            elif isinstance(s.target, ast.Name):
                env[s.target.id] = res or tt
            return env
        if isinstance(s, ast.Expr):
            self.expr(s.value, env)
            return env
        if isinstance(s, ast.Return):
            t = self.expr(s.value, env) if s.value is not None else T('none')
            self.fa.returns.append((s, t))
            return env
        if isinstance(s, ast.Delete):
            for tgt in s.targets:
                if isinstance(tgt, ast.Subscript):
                    bt = self.expr(tgt.value, env)
                    self.expr(tgt.slice, env)
                    self.operator_call(s, bt, '__delitem__', [tgt.slice], env, recv=tgt.value)
            return env
        if isinstance(s, ast.If):
            self.expr(s.test, env)
            e1 = self.narrow(s.test, env, True)
            e2 = self.narrow(s.test, env, False)
            o1 = self.block(s.body, e1)
            o2 = self.block(s.orelse, e2)
            t1, t2 = self.terminates(s.body), self.terminates(s.orelse)
            if t1 and not t2:
                return o2
            if t2 and not t1:
                return o1
            return self.merge(o1, o2)
        if isinstance(s, (ast.For, ast.AsyncFor)):
            it = self.expr(s.iter, env)
            self.operator_call(s, it, '__iter__', [], env, recv=s.iter)
            env = dict(env)
            self.assign(s.target, self.elem_type(it, s.iter, env), None, env)
            o = self.block(s.body, env)
            o = self.block(s.body, self.merge(env, o))
            o = self.merge(env, o)
            return self.block(s.orelse, o)
        if isinstance(s, ast.While):
            self.expr(s.test, env)
            o = self.block(s.body, env)
            o = self.block(s.body, self.merge(env, o))
            o = self.merge(env, o)
            return self.block(s.orelse, o)
        if isinstance(s, ast.Try):
            o = self.block(s.body, env)
            outs = []
            if not self.terminates(s.body):
                outs.append(self.block(s.orelse, o))
            for h in s.handlers:
                he = self.merge(env, o)
                if h.name:
                    he = dict(he)
                    he[h.name] = T('exc')
                self.fa.env_at[id(h)] = he
                ho = self.block(h.body, he)
                if not self.terminates(h.body):
                    outs.append(ho)
            res = outs[0] if outs else o
            for x in outs[1:]:
                res = self.merge(res, x)
            return self.block(s.finalbody, res)
        if isinstance(s, (ast.With, ast.AsyncWith)):
            env = dict(env)
            for item in s.items:
                t = self.expr(item.context_expr, env)
                if item.optional_vars is not None:
                    self.assign(item.optional_vars, t, item.context_expr, env)
            return self.block(s.body, env)
        if isinstance(s, ast.Raise):
            if s.exc is not None:
                self.expr(s.exc, env)
            return env
        if isinstance(s, ast.Assert):
            self.expr(s.test, env)
            return self.narrow(s.test, env, True)
        return env

    @staticmethod
    def terminates(stmts):
        if not stmts:
            return False
        last = stmts[-1]
        if isinstance(last, (ast.Return, ast.Raise, ast.Continue, ast.Break)):
            return True
        if isinstance(last, ast.If):
            return bool(last.orelse) and _Walker.terminates(last.body) and _Walker.terminates(last.orelse)
        return False

    @staticmethod
    def _as_load(node):
        n = ast.copy_location(type(node)(**{f: getattr(node, f) for f in node._fields}), node)
        n.ctx = ast.Load()
        return n

    def narrow(self, test, env, positive):
        # name.startswith('_'): the name denotes a private slot, never a registry property
        if positive and isinstance(test, ast.Call) and isinstance(test.func, ast.Attribute) and test.func.attr == 'startswith' \
                and isinstance(test.func.value, ast.Name) and len(test.args) == 1 and isinstance(test.args[0], ast.Constant) \
                and test.args[0].value == '_':
            env = dict(env)
            env['@underscore:' + test.func.value.id] = T('bool')
            return env
        # isinstance(name, X) narrowing
        if isinstance(test, ast.UnaryOp) and isinstance(test.op, ast.Not):
            return self.narrow(test.operand, env, not positive)
        if isinstance(test, ast.BoolOp) and isinstance(test.op, ast.And) and positive:
            for v in test.values:
                env = self.narrow(v, env, True)
            return env
        if (isinstance(test, ast.Call) and isinstance(test.func, ast.Name) and test.func.id == 'isinstance'
                and len(test.args) == 2 and isinstance(test.args[0], ast.Name) and positive):
            spec = test.args[1]
            specs = spec.elts if isinstance(spec, ast.Tuple) else [spec]
            out = set()
            for sp in specs:
                t = self.class_spec(sp, env)
                if not t:
                    return env
                out |= t
            cur = env.get(test.args[0].id, ANY)
            if cur and (cur & out):
                out = cur & out
            env = dict(env)
            env[test.args[0].id] = frozenset(out)
            return env
        if isinstance(test, ast.Compare) and len(test.ops) == 1 and isinstance(test.left, ast.Name) and \
                isinstance(test.comparators[0], ast.Constant) and test.comparators[0].value is None:
            cur = env.get(test.left.id, ANY)
            is_none = isinstance(test.ops[0], ast.Is) == positive
            if cur:
                env = dict(env)
                env[test.left.id] = T('none') if is_none else (cur - {'none'})
            return env
        return env

    def class_spec(self, sp, env):
        txt = ast.unparse(sp)
        last = txt.split('.')[-1]
        if last in FAMILY:
            return self.R.family(last)
        if last in self.R.lib:
            return T(last)
        table = {'Integral': 'int', 'str': 'str', 'bytes': 'bytes', 'bytearray': 'bytearray', 'int': 'int',
                 'float': 'float', 'bool': 'bool', 'slice': 'slice', 'tuple': 'tuple', 'list': 'list', 'range': 'range',
                 'memoryview': 'memoryview', 'BytesIO': 'bytesio', 'BufferedReader': 'file', 'array': 'array',
                 'Iterable': 'iter', 'Sized': 'iter', 'bitarray': 'bitarray', 'dict': 'dict', 'BinaryIO': 'file'}
        if last in table:
            return T(table[last])
        return ANY

    def elem_type(self, it, node, env):
        if it and it <= set(FAMILY):
            return T('bool')
        if 'Array' in it:
            return ANY
        if 'range' in it:
            return T('int')
        if isinstance(node, ast.Call) and isinstance(node.func, ast.Name) and node.func.id == 'range':
            return T('int')
        if isinstance(node, ast.Call) and isinstance(node.func, ast.Attribute) and node.func.attr == 'cut':
            return self.expr(node.func.value, env)
        if 'str' in it and len(it) == 1:
            return T('str')
        return ANY

    def assign(self, tgt, t, value, env):
        if isinstance(tgt, ast.Name):
            env[tgt.id] = t
        elif isinstance(tgt, (ast.Tuple, ast.List)):
            for i, e in enumerate(tgt.elts):
                et = ANY
                if isinstance(value, ast.Tuple) and len(value.elts) == len(tgt.elts):
                    et = self.fa.expr_type.get(id(value.elts[i]), ANY)
                self.assign(e, et, None, env)
        elif isinstance(tgt, ast.Attribute):
            self.attr_store(tgt, env, value)
        elif isinstance(tgt, ast.Subscript):
            self.subscript_store(tgt, value, env)
        elif isinstance(tgt, ast.Starred):
            self.assign(tgt.value, T('list'), None, env)

    def attr_store(self, tgt, env, value=None):
        bt = self.expr(tgt.value, env)
        targets = []
        for c in sorted(x for x in bt if x in self.R.lib):
            kind, p = self.m.lookup(c, tgt.attr)
            if kind == 'prop' and p[1] is not None:
                targets.append((p[1], c if c in FAMILY else None))
            elif kind in ('dtype', None) or (kind == 'prop' and p[1] is None):
                # falls to __setattr__ (BitArray) for unknown names / registry names
                sa = self.m.winner(c, '__setattr__')
                for f in sa:
                    targets.append((f, c if c in FAMILY else None))
        if targets:
            self.add_call(tgt, 'prop-set', tgt.attr, targets, recv=tgt.value, recv_type=bt,
                          args=[value] if value is not None else [])

    def subscript_store(self, tgt, value, env):
        bt = self.expr(tgt.value, env)
        self.expr(tgt.slice, env)
        self.operator_call(tgt, bt, '__setitem__', [tgt.slice] + ([value] if value is not None else []), env,
                           recv=tgt.value)

    # -------------------------------------------------------------- expressions
    def expr(self, e, env):
        if e is None:
            return ANY
        t = self._expr(e, env)
        self.fa.expr_type[id(e)] = t
        return t

    def _expr(self, e, env):
        R = self.R
        if isinstance(e, ast.Constant):
            v = e.value
            if v is None:
                return T('none')
            return T(type(v).__name__) if isinstance(v, (int, str, bytes, bool, float)) else ANY
        if isinstance(e, ast.JoinedStr):
            for v in e.values:
                if isinstance(v, ast.FormattedValue):
                    vt = self.expr(v.value, env)
                    # formatting a library object calls its __str__/__format__
                    conv = '__repr__' if v.conversion == ord('r') else '__str__'
                    self.operator_call(v, vt, conv, [], env, recv=v.value)
                    if v.format_spec is not None:
                        self.expr(v.format_spec, env)
            return T('str')
        if isinstance(e, ast.Name):
            return self.name_type(e.id, env)
        if isinstance(e, ast.Attribute):
            return self.attr_load(e, env)
        if isinstance(e, ast.Call):
            return self.call(e, env)
        if isinstance(e, ast.NamedExpr):
            t = self.expr(e.value, env)
            if isinstance(e.target, ast.Name):
                env[e.target.id] = t      # deliberate in-place: the binding is visible afterwards
            return t
        if isinstance(e, ast.IfExp):
            self.expr(e.test, env)
            a = self.expr(e.body, self.narrow(e.test, env, True))
            b = self.expr(e.orelse, self.narrow(e.test, env, False))
            return (a | b) if (a and b) else ANY
        if isinstance(e, ast.BoolOp):
            ts = [self.expr(v, env) for v in e.values]
            if all(ts):
                out = set()
                for t in ts:
                    out |= t
                return frozenset(out)
            return ANY
        if isinstance(e, ast.UnaryOp):
            t = self.expr(e.operand, env)
            if isinstance(e.op, ast.Not):
                self.operator_call(e, t, '__bool__', [], env, recv=e.operand, fallback='__len__')
                return T('bool')
            if isinstance(e.op, ast.Invert):
                r = self.operator_call(e, t, '__invert__', [], env, recv=e.operand)
                return r or t
            if isinstance(e.op, ast.USub):
                r = self.operator_call(e, t, '__neg__', [], env, recv=e.operand)
                return r or t
            return t
        if isinstance(e, ast.BinOp):
            lt = self.expr(e.left, env)
            rt = self.expr(e.right, env)
            d = BINOP_DUNDER.get(type(e.op))
            if d and (lt & self.R.lib):
                r = self.operator_call(e, lt, d, [e.right], env, recv=e.left)
                return r or ANY
            if d and (rt & self.R.lib):
                r = self.operator_call(e, rt, '__r' + d[2:], [e.left], env, recv=e.right)
                return r or ANY
            if lt and lt <= {'str'} and isinstance(e.op, (ast.Add, ast.Mult, ast.Mod)):
                return T('str')
            if lt and rt and (lt | rt) <= {'int', 'bool'}:
                return T('float') if isinstance(e.op, ast.Div) else T('int')
            if lt and rt and (lt | rt) <= {'int', 'bool', 'float'}:
                return T('float')
            if lt and lt <= {'bytes', 'bytearray'}:
                return lt
            if lt and lt <= {'list'}:
                return T('list')
            if lt and lt <= {'bitarray'}:
                return T('bitarray')
            return ANY
        if isinstance(e, ast.Compare):
            lt = self.expr(e.left, env)
            prev, prev_node = lt, e.left
            for op, c in zip(e.ops, e.comparators):
                ct = self.expr(c, env)
                d = CMP_DUNDER.get(type(op))
                if d and (prev & self.R.lib):
                    self.operator_call(e, prev, d, [c], env, recv=prev_node)
                elif d and (ct & self.R.lib):
                    self.operator_call(e, ct, d, [prev_node], env, recv=c)
                elif isinstance(op, (ast.In, ast.NotIn)) and (ct & self.R.lib):
                    self.operator_call(e, ct, '__contains__', [prev_node], env, recv=c)
                prev, prev_node = ct, c
            return T('bool')
        if isinstance(e, ast.Subscript):
            bt = self.expr(e.value, env)
            self.expr(e.slice, env)
            if isinstance(e.ctx, ast.Load):
                if isinstance(e.value, ast.Attribute) and e.value.attr == 'names' and 'dict' in bt:
                    return T('DtypeDefinition')
                if isinstance(e.value, ast.Name) and e.value.id not in env:
                    gv = self.m.modglobals[self.func.mod].get(e.value.id)
                    if isinstance(gv, ast.Dict) and gv.values and all(isinstance(v, ast.Name) and v.id in self.m.modfuncs[self.func.mod] for v in gv.values):
                        return frozenset('fn:' + self.m.modfuncs[self.func.mod][v.id].key for v in gv.values)
                if bt & self.R.lib:
                    r = self.operator_call(e, bt, '__getitem__', [e.slice], env, recv=e.value)
                    if bt <= set(FAMILY):
                        return (bt | {'bool'}) if not isinstance(e.slice, ast.Slice) else bt
                    return r
                if bt and bt <= {'str'}:
                    return T('str')
                if bt and bt <= {'bytes', 'bytearray'}:
                    return bt if isinstance(e.slice, ast.Slice) else T('int')
                if bt and bt <= {'bitarray'}:
                    return T('bitarray') if isinstance(e.slice, ast.Slice) else T('int')
                if bt and bt <= {'list', 'tuple'} and isinstance(e.slice, ast.Slice):
                    return bt
            return ANY
        if isinstance(e, ast.Slice):
            for x in (e.lower, e.upper, e.step):
                if x is not None:
                    self.expr(x, env)
            return T('slice')
        if isinstance(e, (ast.List, ast.ListComp)):
            self.children(e, env)
            return T('list')
        if isinstance(e, (ast.Tuple,)):
            self.children(e, env)
            return T('tuple')
        if isinstance(e, (ast.Dict, ast.DictComp)):
            self.children(e, env)
            return T('dict')
        if isinstance(e, (ast.Set, ast.SetComp)):
            self.children(e, env)
            return T('set')
        if isinstance(e, ast.GeneratorExp):
            self.children(e, env)
            return T('iter')
        if isinstance(e, ast.Lambda):
            return T('fn')
        if isinstance(e, ast.Starred):
            self.expr(e.value, env)
            return ANY
        if isinstance(e, (ast.Yield, ast.YieldFrom, ast.Await)):
            if e.value is not None:
                self.expr(e.value, env)
            return ANY
        if isinstance(e, ast.FormattedValue):
            self.expr(e.value, env)
            return T('str')
        return ANY

    def children(self, e, env):
        if isinstance(e, (ast.ListComp, ast.SetComp, ast.GeneratorExp, ast.DictComp)):
            env = dict(env)
            for g in e.generators:
                it = self.expr(g.iter, env)
                self.operator_call(g.iter, it, '__iter__', [], env, recv=g.iter)
                self.assign(g.target, self.elem_type(it, g.iter, env), None, env)
                for c in g.ifs:
                    self.expr(c, env)
            if isinstance(e, ast.DictComp):
                self.expr(e.key, env)
                self.expr(e.value, env)
            else:
                self.expr(e.elt, env)
            return
        for c in ast.iter_child_nodes(e):
            if isinstance(c, ast.expr):
                self.expr(c, env)

    def name_type(self, name, env):
        if name in env:
            return env[name]
        m = self.m
        mod = self.func.mod
        if name in m.modfuncs[mod]:
            return T('fn:' + m.modfuncs[mod][name].key)
        if name in m.classes and (m.classes[name].mod == mod or name in m.imports[mod]):
            return T('cls:' + name)
        if name in m.imports[mod]:
            imp = m.imports[mod][name]
            if imp[0] == 'module':
                return T('module:' + imp[1])
            _, base, sym = imp
            if base.startswith('bitstring'):
                sub = base.split('.')[-1] if '.' in base else None
                if sub is None:   # from bitstring import utils
                    if sym in m.mods:
                        return T('module:bitstring.' + sym)
                    return self.pkg_symbol(sym)
                return self.module_symbol(sub, sym)
            return T('ext:' + base + '.' + sym)
        if name in m.modglobals[mod]:
            return self.global_type(mod, name)
        if name in BUILTIN_RET or name in ('True', 'False', 'None', 'NotImplemented', 'Ellipsis', 'Exception'):
            return T('builtin:' + name)
        return ANY

    def pkg_symbol(self, sym):
        """Symbol looked up on the ``bitstring`` package object."""
        m = self.m
        if sym in m.mods:
            return T('module:bitstring.' + sym)
        if sym in m.classes:
            return T('cls:' + sym)
        if sym == 'options':
            return T('Options')
        if sym in ('CreationError', 'InterpretError', 'ReadError', 'Error', 'ByteAlignError'):
            return T('exccls:' + sym)
        if sym in m.modfuncs['__init__']:
            return T('fn:' + m.modfuncs['__init__'][sym].key)
        if sym == 'pack':
            return T('fn:methods:pack')
        if sym == 'dtype_register':
            return T('Register')
        return ANY

    def module_symbol(self, sub, sym):
        m = self.m
        if sub == '__init__' or sub == 'bitstring':
            return self.pkg_symbol(sym)
        if sym in m.modfuncs.get(sub, {}):
            return T('fn:' + m.modfuncs[sub][sym].key)
        if sym in m.classes and m.classes[sym].mod == sub:
            return T('cls:' + sym)
        if sub == 'exceptions':
            return T('exccls:' + sym)
        if sym in m.modglobals.get(sub, {}):
            return self.global_type(sub, sym)
        if sym in m.imports.get(sub, {}):   # re-export
            imp = m.imports[sub][sym]
            if imp[0] == 'symbol' and imp[1].startswith('bitstring'):
                return self.module_symbol(imp[1].split('.')[-1], imp[2])
        return ANY

    def global_type(self, mod, name):
        v = self.m.modglobals[mod][name]
        if isinstance(v, ast.Call):
            fn = ast.unparse(v.func).split('.')[-1]
            if fn in self.R.lib:
                return T(fn)
            if fn == 'compile':
                return T('pattern')
        if isinstance(v, ast.Dict):
            return T('dict')
        if isinstance(v, (ast.List, ast.ListComp)):
            return T('list')
        if isinstance(v, ast.Constant):
            return T(type(v.value).__name__)
        return ANY

    def attr_load(self, e, env):
        bt = self.expr(e.value, env)
        attr = e.attr
        out = set()
        unknown = False
        if not bt:
            if attr in DTYPE_ROLE_ATTRS:
                return T('role:' + DTYPE_ROLE_ATTRS[attr])
            return FIELD_TYPES.get(attr, ANY) if attr in ('_bitstore', '_bitarray', '_pos', '_dtype') else ANY
        for tag in bt:
            if tag.startswith('module:'):
                modname = tag[7:]
                if modname.startswith('bitstring'):
                    sub = modname.split('.', 1)[1] if '.' in modname else None
                    t = self.pkg_symbol(attr) if sub is None else (
                        T('module:bitstring.' + sub + '.' + attr) if False else self.module_symbol(sub.split('.')[-1], attr))
                    if not t:
                        unknown = True
                    out |= t
                else:
                    out.add('ext:' + modname + '.' + attr)
            elif tag.startswith('cls:'):
                c = tag[4:]
                kind, p = self.m.lookup(c, attr)
                if kind == 'method':
                    out.add(f'umeth:{c}.{attr}')
                elif kind == 'attr':
                    if attr == '__hash__':
                        out.add('none')
                    elif attr in FIELD_TYPES:
                        out |= FIELD_TYPES[attr]
                    else:
                        unknown = True
                elif attr in ('__new__', '__name__', '__class__', '__doc__'):
                    out.add('builtin:' + attr)
                elif attr == '_instance':
                    out |= {c, 'none'}
                else:
                    t = FIELD_TYPES.get(attr)
                    if t:
                        out |= t
                    else:
                        unknown = True
            elif tag in self.R.lib:
                kind, p = self.m.lookup(tag, attr)
                if attr == '__class__':
                    out.add('cls:' + tag)
                elif kind == 'method':
                    out.add(f'meth:{tag}.{attr}')
                elif kind == 'prop':
                    g = p[0]
                    if g is not None and isinstance(e.ctx, ast.Load):
                        ctx = tag if tag in FAMILY else None
                        self.add_call(e, 'prop-get', attr, [(g, ctx)], recv=e.value, recv_type=bt)
                        rt = self.R.return_type(g, ctx)
                        if not rt:
                            unknown = True
                        out |= rt
                    else:
                        unknown = True
                elif kind == 'dtype':
                    if isinstance(e.ctx, ast.Load):
                        gf = self.m.func_by_dotted(p['get_fn']) if p['get_fn'] else None
                        tgts = [(gf, tag)] if gf else []
                        self.add_call(e, 'prop-get', attr, tgts, recv=e.value, recv_type=bt, role='get')
                        unknown = True
                elif attr in DTYPE_ROLE_ATTRS and tag in ('Dtype', 'DtypeDefinition'):
                    out.add('role:' + DTYPE_ROLE_ATTRS[attr])
                elif kind in ('slot', 'attr') or attr in FIELD_TYPES:
                    t = FIELD_TYPES.get(attr)
                    if kind == 'attr' and tag == 'Dtype':
                        t = t or ANY
                    if t:
                        out |= t
                    else:
                        unknown = True
                else:
                    # possibly dynamic attribute (Bits.__getattr__) or instance field
                    ga = self.m.winner(tag, '__getattr__')
                    if ga and isinstance(e.ctx, ast.Load) and not attr.startswith('_'):
                        tg = [(ga[0], tag if tag in FAMILY else None)]
                        ent = self.m.dtype_names('le').get(attr.rstrip('0123456789'))
                        if ent is not None and ent['get_fn']:
                            gf = self.m.func_by_dotted(ent['get_fn'])
                            if gf is not None:
                                tg = [(gf, tag if tag in FAMILY else None)]
                        self.add_call(e, 'prop-get', attr, tg, recv=e.value, recv_type=bt,
                                      role='get' if len(tg) == 1 and tg[0][0] is not ga[0] else None)
                    unknown = True
            elif tag == 'super':
                out.add('super:' + attr)
            elif tag == 'builtin:object' and attr == '__new__':
                out.add('builtin:__new__')
            elif tag == 'builtin:object' and attr == '__setattr__':
                out.add('role:setattr')
            elif tag.startswith('builtin:') and tag[8:] in ('int', 'str', 'bytes', 'float', 'dict', 'list'):
                out.add(f'bmeth:{tag[8:]}.{attr}')
            elif tag in ('str', 'bytes', 'bytearray', 'list', 'dict', 'tuple', 'set', 'bitarray', 'int', 'float',
                         'match', 'pattern', 'file', 'bytesio', 'slice', 'range', 'array', 'iter', 'memoryview',
                         'exc', 'mmap'):
                if tag in ('slice', 'range') and attr in ('start', 'stop', 'step'):
                    out |= {'int', 'none'}
                else:
                    out.add(f'bmeth:{tag}.{attr}')
            elif tag.startswith('ext:'):
                out.add(tag + '.' + attr)
            elif tag == 'none':
                continue
            else:
                unknown = True
        if unknown and not out:
            return ANY
        return frozenset(out) if not unknown else (frozenset(out) if out and all(
            o.startswith(('meth:', 'umeth:', 'bmeth:', 'role:', 'super:', 'ext:', 'fn:', 'builtin:')) for o in out) else ANY)

    # -------------------------------------------------------------- calls
    def add_call(self, node, kind, name, targets, recv=None, recv_type=ANY, args=(), external=None, resolved=True,
                 role=None):
        k = (id(node), kind, name)
        if k in self.seen_calls:
            # second pass over a loop body: keep the union of targets
            for cs in self.fa.calls:
                if cs.node is node and cs.kind == kind and cs.name == name:
                    for t in targets:
                        if t not in cs.targets:
                            cs.targets.append(t)
                    if resolved:
                        cs.resolved = True
                    return cs
        self.seen_calls.add(k)
        cs = CallSite(node, kind, name, targets, recv, recv_type, args, external, resolved, self.cur_stmt, role)
        self.fa.calls.append(cs)
        if not resolved:
            self.fa.unresolved.append(cs)
        return cs

    def operator_call(self, node, recv_t, dunder, args, env, recv=None, fallback=None):
        """Implicit call of a dunder on typed operands; returns the result type (or None)."""
        if not recv_t:
            return None
        targets = []
        out = set()
        known = True
        for tag in sorted(recv_t):
            if tag not in self.R.lib:
                continue
            fs = self.m.winner(tag, dunder)
            if not fs and fallback:
                fs = self.m.winner(tag, fallback)
            ctx = tag if tag in FAMILY else None
            for f in fs:
                targets.append((f, ctx))
                rt = self.R.return_type(f, ctx)
                if rt:
                    out |= rt
                else:
                    known = False
        if targets:
            self.add_call(node, 'op', dunder, targets, recv=recv, recv_type=recv_t, args=args)
            return frozenset(out) if known else ANY
        return None

    def call(self, e, env):
        R, m = self.R, self.m
        for a in e.args:
            self.expr(a, env)
        for kw in e.keywords:
            self.expr(kw.value, env)
        f = e.func
        args = list(e.args)
        # ---- super().x(...)
        if isinstance(f, ast.Attribute) and isinstance(f.value, ast.Call) and isinstance(f.value.func, ast.Name) \
                and f.value.func.id == 'super':
            return self.super_call(e, f.attr, env)
        ft = self.expr(f, env)
        name = f.attr if isinstance(f, ast.Attribute) else (f.id if isinstance(f, ast.Name) else ast.unparse(f)[:30])
        recv = f.value if isinstance(f, ast.Attribute) else None
        recv_t = self.fa.expr_type.get(id(recv), ANY) if recv is not None else ANY
        if not ft:
            # untyped callee
            ext = None
            resolved = False
            if isinstance(f, ast.Attribute) and not recv_t and not self.library_method_name(f.attr):
                # an untyped receiver whose method name no library class defines: a builtin/str/dict method
                ext, resolved = 'untyped.' + f.attr, True
            self.add_call(e, 'call', name, [], recv=recv, recv_type=recv_t, args=args, resolved=resolved,
                          external=ext)
            return ANY
        targets, out, ext, known = [], set(), [], True
        for tag in sorted(ft):
            if tag.startswith('fn:'):
                g = m.funcs.get(tag[3:])
                if g:
                    targets.append((g, None))
                    rt = R.return_type(g, None)
                    out |= rt
                    known &= bool(rt)
            elif tag.startswith('fnlocal:'):
                # nested function defined in this function (or an enclosing one)
                owner = self.func
                g = None
                while owner is not None and g is None:
                    for c in owner.children:
                        if c.name == tag[8:]:
                            targets.append((c, self.ctx))
                            g = c
                    owner = owner.parent
                known = False
            elif tag.startswith('meth:'):
                c, meth = tag[5:].split('.', 1)
                ctx = c if c in FAMILY else None
                for g in m.winner(c, meth):
                    targets.append((g, ctx))
                    rt = R.return_type(g, ctx)
                    out |= rt
                    known &= bool(rt)
            elif tag.startswith('umeth:'):
                c, meth = tag[6:].split('.', 1)
                fs = m.winner(c, meth)
                for g in fs:
                    if g.is_classmethod():
                        ctx = c if c in FAMILY else None
                    elif g.is_staticmethod():
                        ctx = None
                    else:
                        # Class.method(obj, ...) — context from the first argument
                        at = self.fa.expr_type.get(id(e.args[0]), ANY) if e.args else ANY
                        fam = sorted(x for x in at if x in FAMILY and c in m.mro[x])
                        if c in FAMILY and fam:
                            for x in fam:
                                targets.append((g, x))
                                rt = R.return_type(g, x)
                                out |= rt
                                known &= bool(rt)
                            continue
                        ctx = c if c in FAMILY else None
                    targets.append((g, ctx))
                    rt = R.return_type(g, ctx)
                    out |= rt
                    known &= bool(rt)
            elif tag.startswith('cls:'):
                c = tag[4:]
                ctx = c if c in FAMILY else None
                for nm in ('__new__', '__init__'):
                    for g in m.winner(c, nm):
                        targets.append((g, ctx))
                out.add(c)
            elif tag == 'role:setattr':
                # object.__setattr__(obj, name, value): runs the fset of whatever property the name denotes —
                # for a mutable bitstring that can be any registry setter (Register.add_dtype installs them on BitArray)
                at = self.fa.expr_type.get(id(e.args[0]), ANY) if e.args else ANY
                fam = sorted(x for x in at if x in FAMILY and 'BitArray' in m.mro[x])
                if len(e.args) > 1 and isinstance(e.args[1], ast.Name) and ('@underscore:' + e.args[1].id) in env and \
                        not any(n.startswith('_') for n in list(m.dtype_names('le')) + list(m.dtype_names('be'))):
                    fam = []      # a slot assignment: no registry name starts with an underscore
                for g, c in R.registry_set:
                    for x in fam:
                        targets.append((g, x))
                self.add_call(e, 'call', '__setattr__', targets, recv=None, recv_type=at, args=args, role='set0', external='object.__setattr__')
                return T('none')
            elif tag.startswith('role:'):
                role = tag[5:]
                if role.endswith('0'):      # the raw registry function handed to DtypeDefinition.__init__
                    tg = list(R.registry_get if role == 'get0' else R.registry_set)
                else:
                    tg = list(R.role_funcs[role])
                # context for registry functions: the class of the first argument when known
                at = self.fa.expr_type.get(id(e.args[0]), ANY) if e.args else ANY
                fam = sorted(x for x in at if x in FAMILY)
                for g, c in tg:
                    if c == 'Bits' and fam:
                        for x in fam:
                            targets.append((g, x))
                    else:
                        targets.append((g, c))
                known = False
                self.add_call(e, 'call', name, targets, recv=recv, recv_type=recv_t, args=args, role=role)
                return ANY
            elif tag.startswith('bmeth:'):
                b, meth = tag[6:].split('.', 1)
                ext.append(f'{b}.{meth}')
                if b == 'str':
                    r = STR_RET.get(meth)
                    if r:
                        out |= r
                    else:
                        known = False
                elif b == 'bitarray' and meth in ('copy',):
                    out.add('bitarray')
                elif b in ('bytes', 'bytearray') and meth in ('find', 'index', 'count'):
                    out.add('int')
                elif b == 'bitarray' and meth in ('tobytes',):
                    out.add('bytes')
                elif b == 'bitarray' and meth in ('find', 'count', 'index'):
                    out.add('int')
                elif b == 'pattern' and meth in ('match', 'search'):
                    out |= {'match', 'none'}
                elif b == 'match' and meth == 'group':
                    out.add('str')
                elif b == 'match' and meth in ('start', 'end'):
                    out.add('int')
                elif b == 'bytesio' and meth == 'getvalue':
                    out.add('bytes')
                elif b == 'bytesio' and meth == 'seek':
                    out.add('int')
                elif b == 'array' and meth == 'tobytes':
                    out.add('bytes')
                else:
                    known = False
            elif tag.startswith('ext:'):
                full = tag[4:]
                ext.append(full)
                if full in ('bitarray.bitarray',):
                    out.add('bitarray')
                elif full.startswith('bitarray.util.') and full.split('.')[-1] in ('int2ba', 'hex2ba', 'base2ba'):
                    out.add('bitarray')
                elif full.startswith('bitarray.util.ba2int'):
                    out.add('int')
                elif full.startswith('bitarray.util.'):
                    out.add('str')
                elif full in ('struct.pack', 'zlib.decompress', 'zlib.compress'):
                    out.add('bytes')
                elif full == 'struct.unpack':
                    out.add('tuple')
                elif full == 'struct.calcsize':
                    out.add('int')
                elif full in ('copy.copy', 'copy.deepcopy') and e.args:
                    at = self.fa.expr_type.get(id(e.args[0]), ANY)
                    r = self.operator_call(e, at, '__copy__', [], env, recv=e.args[0])
                    if r:
                        out |= r
                    else:
                        known = False
                elif full == 'functools.partial' and e.args:
                    return self.fa.expr_type.get(id(e.args[0]), ANY)
                elif full == 're.compile':
                    out.add('pattern')
                elif full in ('re.findall',):
                    out.add('list')
                elif full.startswith('math.'):
                    out.add('float')
                elif full == 'io.StringIO':
                    out.add('file')
                elif full == 'mmap.mmap':
                    out.add('mmap')
                elif full == 'pathlib.Path':
                    out.add('path')
                elif full == 'os.getenv':
                    out |= {'str', 'none'}
                elif full == 'inspect.signature':
                    known = False
                else:
                    known = False
            elif tag.startswith('builtin:'):
                b = tag[8:]
                ext.append('builtin:' + b)
                r = self.builtin_call(e, b, env)
                if r is None:
                    known = False
                else:
                    out |= r
            elif tag.startswith('exccls:'):
                out.add('exc')
                ext.append(tag)
            elif tag.startswith('super:'):
                return self.super_call(e, tag[6:], env)
            elif tag == 'fn' or tag == 'property':
                known = False
                ext.append('callable')
            elif tag == 'none':
                continue
            else:
                known = False
        resolved = bool(targets or ext)
        self.add_call(e, 'call', name, targets, recv=recv, recv_type=recv_t, args=args,
                      external=','.join(ext) or None, resolved=resolved)
        return frozenset(out) if known else ANY

    def library_method_name(self, name):
        for ci in self.m.classes.values():
            if name in ci.methods or name in ci.props or any(s == name for (_, s) in self.m.slots):
                return True
        return name in DTYPE_ROLE_ATTRS

    def builtin_call(self, e, b, env):
        args = e.args
        a0t = self.fa.expr_type.get(id(args[0]), ANY) if args else ANY
        if b == 'len':
            self.operator_call(e, a0t, '__len__', [], env, recv=args[0] if args else None)
            return T('int')
        if b in ('str', 'repr', 'bytes', 'bool', 'hash', 'iter', 'abs', 'int', 'float'):
            d = {'str': '__str__', 'repr': '__repr__', 'bytes': '__bytes__', 'bool': '__bool__', 'hash': '__hash__',
                 'iter': '__iter__', 'abs': '__abs__', 'int': '__int__', 'float': '__float__'}[b]
            if args:
                self.operator_call(e, a0t, d, [], env, recv=args[0], fallback='__len__' if b == 'bool' else None)
            return BUILTIN_RET[b]
        if b in ('list', 'tuple', 'sorted', 'sum', 'max', 'min', 'any', 'all', 'reversed', 'enumerate', 'zip', 'set'):
            for a in args:
                at = self.fa.expr_type.get(id(a), ANY)
                self.operator_call(e, at, '__iter__', [], env, recv=a)
            if b in ('max', 'min') and len(args) >= 2:
                ts = [self.fa.expr_type.get(id(a), ANY) for a in args]
                if all(ts):
                    out = set()
                    for t in ts:
                        out |= t
                    return frozenset(out)
                return ANY
            return BUILTIN_RET[b]
        if b == 'type':
            return frozenset('cls:' + t for t in a0t if t in self.R.lib) or ANY
        if b == 'object':
            return T('object')
        if b == 'next':
            return ANY
        if b == '__new__':
            # object.__new__(X) / super().__new__(X)
            return frozenset(t[4:] for t in a0t if t.startswith('cls:')) or ANY
        if b == 'getattr':
            return ANY
        if b in BUILTIN_RET:
            return BUILTIN_RET[b]
        return None

    def super_call(self, e, meth, env):
        m, R = self.m, self.R
        func = self.func
        while func.parent is not None:
            func = func.parent
        dc = func.cls
        if meth == '__new__':
            # super().__new__(cls) — allocation of an instance of the class in args[0]
            at = self.fa.expr_type.get(id(e.args[0]), ANY) if e.args else ANY
            out = frozenset(t[4:] for t in at if t.startswith('cls:'))
            self.add_call(e, 'call', '__new__', [], external='object.__new__', args=e.args)
            return out or ANY
        if meth == '__setattr__' and dc in FAMILY and not any(
                m.next_in_mro(c, dc, meth) for c in ([self.ctx] if self.ctx else self.R.family(dc))):
            ctxs0 = [self.ctx] if self.ctx else sorted(self.R.family(dc))
            tg = [(g, x) for g, c in self.R.registry_set for x in ctxs0 if x and 'BitArray' in m.mro.get(x, ())]
            self.add_call(e, 'call', meth, tg, external='object.__setattr__', args=e.args, role='set0')
            return T('none')
        ctxs = [self.ctx] if self.ctx else (self.R.family(dc) if dc in FAMILY else [dc])
        targets, out, known = [], set(), True
        for c in sorted(ctxs):
            if c is None or c not in m.mro:
                continue
            for g in m.next_in_mro(c, dc, meth):
                ctx = c if c in FAMILY else None
                targets.append((g, ctx))
                rt = R.return_type(g, ctx)
                out |= rt
                known &= bool(rt)
        self.add_call(e, 'call', meth, targets, args=e.args, resolved=bool(targets),
                      external=None if targets else f'object.{meth}')
        return frozenset(out) if known and targets else ANY

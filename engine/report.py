"""Findings, known-findings matching, evidence files, exit codes (DESIGN 8)."""
from __future__ import annotations

import ast
import json
import os
import re
import time

VERIF = os.path.dirname(os.path.dirname(os.path.abspath(__file__)))
KNOWN_FILE = os.path.join(VERIF, 'known_findings.json')
EVIDENCE_DIR = os.path.join(VERIF, 'evidence')
REPLAY_DIR = os.path.join(EVIDENCE_DIR, 'replay')


def norm(node_or_text) -> str:
    """Normalised construct text: ast.unparse (so formatting, comments and line numbers vanish)."""
    if isinstance(node_or_text, ast.AST):
        t = ast.unparse(node_or_text)
    else:
        t = str(node_or_text)
    t = re.sub(r'\s+', ' ', t).strip()
    t = re.sub(r'\b_inl\d+_', '', t)          # locals of an integrated helper keep the names they had there
    return t[:160]


class Finding:
    def __init__(self, rule, where, construct, message, loc='', extra=None):
        self.rule = rule                    # e.g. 'A1'
        self.where = where                  # function key or table name
        self.construct = norm(construct)    # normalised text
        self.message = message
        self.loc = loc                      # file:line at the time of the run (informational only)
        self.extra = extra or {}

    @property
    def key(self):
        return f"{self.rule}|{self.where}|{self.construct}"

    def to_json(self):
        return {'rule': self.rule, 'where': self.where, 'construct': self.construct, 'key': self.key,
                'message': self.message, 'loc': self.loc, **({'extra': self.extra} if self.extra else {})}

    def __repr__(self):
        return f"[{self.rule}] {self.where}: {self.construct} -- {self.message} ({self.loc})"


class RuleResult:
    """What one rule looked at and concluded."""

    def __init__(self, rule, title):
        self.rule, self.title = rule, title
        self.findings = []
        self.instances = 0          # obligations examined
        self.trivial = 0            # discharged trivially (e.g. literal non-zero divisor)
        self.by_reason = 0          # discharged through a reason-table entry
        self.samples = []
        self.notes = []
        self.constructs = set()
        self.deferred = []          # parts the rule could not analyse; fatal only if it found nothing else to report

    def defer(self, msg):
        """Record that one part of the rule could not be analysed, and go on with the other parts."""
        self.deferred.append(msg)

    def ok(self, construct=None, sample=None, trivial=False, reason=False):
        self.instances += 1
        if trivial:
            self.trivial += 1
        if reason:
            self.by_reason += 1
        if construct is not None:
            self.constructs.add(norm(construct))
        if sample is not None and len(self.samples) < 6:
            self.samples.append(sample)

    def fail(self, where, construct, message, loc='', extra=None, rule=None):
        self.instances += 1
        self.constructs.add(norm(construct))
        f = Finding(rule or self.rule, where, construct, message, loc, extra)
        if f.key not in {g.key for g in self.findings}:
            self.findings.append(f)
        return f

    def summary(self):
        return {'rule': self.rule, 'title': self.title, 'instances': self.instances,
                'distinct_constructs': len(self.constructs), 'trivial': self.trivial,
                'by_reason_table': self.by_reason, 'findings': len(self.findings), 'notes': self.notes[:8]}


def load_known():
    if not os.path.exists(KNOWN_FILE):
        return []
    with open(KNOWN_FILE) as fh:
        data = json.load(fh)
    return data.get('findings', [])


def classify(prop, findings, known=None):
    """Split findings into (known, new) for this property and report stale known entries."""
    known = load_known() if known is None else known
    mine = [k for k in known if prop in k.get('properties', []) and k.get('status') == 'known']
    keys = {k['key']: k for k in mine}
    hit, new = [], []
    seen = set()
    for f in findings:
        if f.key in keys:
            hit.append((f, keys[f.key]))
            seen.add(f.key)
        else:
            new.append(f)
    stale = [k for k in mine if k['key'] not in seen]
    return hit, new, stale


def write_evidence(prop, tier, level, coverage, assumptions, wall_s, violations, seed=0):
    os.makedirs(EVIDENCE_DIR, exist_ok=True)
    ev = {'property_id': prop, 'tier': tier, 'seed': seed, 'level': level, 'coverage': coverage,
          'assumptions': assumptions, 'wall_s': round(wall_s, 3), 'violations': violations}
    path = os.path.join(EVIDENCE_DIR, f'{prop}.json')
    tmp = path + '.tmp'
    with open(tmp, 'w') as fh:
        json.dump(ev, fh, indent=1, sort_keys=False, default=str)
        fh.write('\n')
    os.replace(tmp, path)
    return path


def write_replay(prop, finding, n):
    os.makedirs(REPLAY_DIR, exist_ok=True)
    path = os.path.join(REPLAY_DIR, f'{prop}-{finding.rule}-{n}.json')
    with open(path, 'w') as fh:
        json.dump({'property': prop, **finding.to_json(), 'written': time.strftime('%Y-%m-%dT%H:%M:%S')}, fh, indent=1)
        fh.write('\n')
    return path

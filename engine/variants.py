"""Seeded variants of the current tree for the rules' self-test (engine/selftest.py).

kind 'fire'  : one instance broken, still compiles; the named rule must report it.
kind 'silent': behaviour-preserving refactoring of code the rules look at; no new finding allowed.
Edits are exact-once text replacements (or a function on the source); a variant whose anchor text
has moved is reported as skipped, not as a pass.
"""
import ast
import re
import zlib

VARIANTS = []


def V(vid, props, file, old=None, new=None, expect=(), kind='fire', where='', fn=None, pkg_fn=None, **kw):
    d = dict(id=vid, props=list(props), file=file, expect=list(expect), kind=kind, where=where, **kw)
    if pkg_fn is not None:
        d['pkg_fn'] = pkg_fn
    elif fn is not None:
        d['fn'] = fn
    else:
        d['old'], d['new'] = old, new
    VARIANTS.append(d)


def S(vid, props, file, old=None, new=None, fn=None, pkg_fn=None):
    V(vid, props, file, old, new, kind='silent', fn=fn, pkg_fn=pkg_fn)


ALL = ['C%02d' % i for i in range(1, 21) if i != 5]


def pkg_rename(old, new):
    def fn(filename, src):
        return re.sub(rf'\b{re.escape(old)}\b', new, src)
    return fn


def pkg_shift(filename, src):
    return '# reformatted\n\n' + src.replace('\n\n\n', '\n\n\n\n')


# ------------------------------------------------------------------ helpers on source text
def lut_flip(key_repr, which, index, table='mxfp_luts_compressed'):
    def fn(src):
        tree = ast.parse(src)
        tabs = {}
        for node in tree.body:
            if isinstance(node, ast.Assign):
                tabs[node.targets[0].id] = ast.literal_eval(node.value)
        key = ast.literal_eval(key_repr)
        pair = list(tabs[table][key])
        b = bytearray(zlib.decompress(pair[which]))
        b[index] ^= 1
        pair[which] = zlib.compress(bytes(b), 1)
        tabs[table][key] = tuple(pair)
        return ('mxfp_luts_compressed = ' + repr(tabs['mxfp_luts_compressed']) + '\n\nbinary8_luts_compressed = '
                + repr(tabs['binary8_luts_compressed']) + '\n')
    return fn


def shift_lines(src):
    """Insert a comment and blank lines at the top of every function body's file: all line numbers move."""
    return '# reformatted\n\n\n' + src


def rename_local(old, new):
    def fn(src):
        out = re.sub(rf'\b{re.escape(old)}\b', new, src)
        return out if out != src else None
    return fn


# ------------------------------------------------------------------ C18 / H1, H3
V('H1_l_64', ['C18'], 'utils.py', "'l': 'intbe32', 'L': 'uintbe32',", "'l': 'intbe64', 'L': 'uintbe32',", ['H1'])
V('H1_size_e', ['C18'], 'utils.py', "'q': 8, 'Q': 8, 'e': 2, 'f': 4, 'd': 8}", "'q': 8, 'Q': 8, 'e': 4, 'f': 4, 'd': 8}", ['H1'])
V('H1_regex_extra_code', ['C18', 'C20'], 'utils.py', r"(?P<endian>[<>@=])?(?P<fmt>(?:\d*[bBhHlLiIqQefd])+)$')",
  r"(?P<endian>[<>@=])?(?P<fmt>(?:\d*[bBhHlLiIqQefdn])+)$')", ['H1'])
V('H1_le_unsigned_swapped', ['C18'], 'utils.py', "'h': 'intle16', 'H': 'uintle16',", "'h': 'uintle16', 'H': 'intle16',", ['H1'])
V('H1_ne_points_be', ['C18'], 'utils.py', "'q': 'intne64', 'Q': 'uintne64',", "'q': 'intbe64', 'Q': 'uintne64',", ['H1'])
V('H1_endian_branch_swapped', ['C18'], 'utils.py', "    elif endian == '<':\n        tokens = [REPLACEMENTS_LE[c] for c in fmt]",
  "    elif endian == '<':\n        tokens = [REPLACEMENTS_BE[c] for c in fmt]", ['H1'])
V('H1_single_token_native_wrong', ['C18'], 'utils.py', "        if endian == '>':\n            fmt = REPLACEMENTS_BE[f]\n        elif endian == '<':",
  "        if endian in '>=':\n            fmt = REPLACEMENTS_BE[f]\n        elif endian == '<':", ['H1'])
V('H3_bigendian_alias', ['C18'], '__init__.py', "        ('uintbe', 'uintne'),", "        ('uintle', 'uintne'),", ['H3'])
V('H3_le_alias_wrong', ['C18'], '__init__.py', "        ('floatle', 'floatne'),", "        ('floatbe', 'floatne'),", ['H3'])
V('H3_branch_test', ['C18'], '__init__.py', "if byteorder == 'little':", "if byteorder != 'little':", ['H3'])
S('H1_S_reorder_table', ['C18'], 'utils.py', "PACK_CODE_SIZE: Dict[str, int] = {'b': 1, 'B': 1, 'h': 2, 'H': 2,",
  "PACK_CODE_SIZE: Dict[str, int] = {'h': 2, 'H': 2, 'b': 1, 'B': 1,")
S('H1_S_shift_lines', ['C18', 'C09', 'C11', 'C17'], 'utils.py', fn=shift_lines)
S('H1_S_regex_class_order', ['C18'], 'utils.py', r"STRUCT_SPLIT_RE: Pattern[str] = re.compile(r'\d*[bBhHlLiIqQefd]')",
  r"STRUCT_SPLIT_RE: Pattern[str] = re.compile(r'\d*[dfeQqIiLlHhBb]')")

# ------------------------------------------------------------------ C17 / H6
V('H6_chunk_plus_4', ['C17'], 'bits.py', "chunk_size = 8 * 100 * 1024 * 1024  # 100 MiB", "chunk_size = 8 * 100 * 1024 * 1024 + 4  # 100 MiB", ['H6'])
V('H6_chunk_bytes_not_bits', ['C17'], 'bits.py', "chunk_size = 8 * 100 * 1024 * 1024  # 100 MiB", "chunk_size = 100 * 1000 * 1000 + 1", ['H6'])
S('H6_S_other_multiple', ['C17'], 'bits.py', "chunk_size = 8 * 100 * 1024 * 1024  # 100 MiB", "chunk_size = (1 << 20) * 64")
S('H6_S_shift_lines', ['C17', 'C09', 'C11'], 'bits.py', fn=shift_lines)

# ------------------------------------------------------------------ C09 / F, G1, N4
V('F1_cache_bitstore_from_token', ['C09'], 'bitstore_helpers.py', "def bitstore_from_token(", "@functools.lru_cache(CACHE_SIZE)\ndef bitstore_from_token(",
  ['F1'], where='bitstore_from_token')
V('F1_parse_cache_reads_option', ['C09'], 'utils.py', "    # Remove whitespace and expand brackets\n    fmt = expand_brackets(''.join(fmt.split()))",
  "    import bitstring\n    fmt = expand_brackets(''.join(fmt.split()))\n    if bitstring.options.lsb0 and fmt.count(',') > 3:\n        fmt = ','.join(reversed(fmt.split(',')))",
  ['F1'], where='preprocess_tokens')
V('F1_dtype_cache_reads_option', ['C09'], 'dtypes.py', "        x._set_scale(scale)\n        return x",
  "        x._set_scale(scale)\n        if bitstring.options.bytealigned and x._bitlength is not None:\n            x._bitlength = (x._bitlength + 7) // 8 * 8\n        return x", ['F1'], where='Dtype._create')
V('F2_mutate_cached_tokens', ['C09'], 'bits.py', "        token_list = utils.preprocess_tokens(fmt)\n        dtype1, dtype2, bits_per_group, has_length_in_fmt = Bits._process_pp_tokens(token_list, fmt)",
  "        token_list = utils.preprocess_tokens(fmt)\n        token_list.reverse()\n        dtype1, dtype2, bits_per_group, has_length_in_fmt = Bits._process_pp_tokens(token_list, fmt)", ['F2'])
V('F3_dtype_written_later', ['C09'], 'array_.py', "        if isinstance(new_dtype, Dtype):\n            dtype = new_dtype",
  "        if isinstance(new_dtype, Dtype):\n            new_dtype._scale = None\n            dtype = new_dtype", ['F3'])
V('G1_lsb0_table_no_invert', ['C09', 'C12'], 'bitstring_options.py', "'getslice_withstep': BitStore.getslice_withstep_lsb0, 'invert': BitStore.invert_lsb0}",
  "'getslice_withstep': BitStore.getslice_withstep_lsb0}", ['G1'])
V('G1_msb0_table_no_prepend', ['C09', 'C12'], 'bitstring_options.py', "'_append': BitArray._append_msb0,\n                       '_prepend': BitArray._append_lsb0},",
  "'_append': BitArray._append_msb0},", ['G1'])
V('G1_same_function_both', ['C09', 'C12'], 'bitstring_options.py', "'getindex': BitStore.getindex_lsb0, 'getslice': BitStore.getslice_lsb0,",
  "'getindex': BitStore.getindex_msb0, 'getslice': BitStore.getslice_lsb0,", ['G1'])
V('G1_selection_inverted', ['C09', 'C12'], 'bitstring_options.py', "methods = lsb0_methods if self._lsb0 else msb0_methods", "methods = msb0_methods if self._lsb0 else lsb0_methods", ['G1'])
V('N4_pp_writes_option', ['C09', 'C20'], 'bits.py', "        colour = Colour(not bitstring.options.no_color)\n        if fmt is None:",
  "        colour = Colour(not bitstring.options.no_color)\n        bitstring.options.bytealigned = False\n        if fmt is None:", ['N4'])
V('N4_find_toggles_lsb0', ['C09', 'C20'], 'bits.py', "        assert start <= end\n        assert bitstring.options.lsb0\n        new_slice = bitstring.bitstore.offset_slice_indices_lsb0(slice(start, end, None), len(self))\n        msb0_start, msb0_end = self._validate_slice(new_slice.start, new_slice.stop)\n\n        p = self._find_msb0(",
  "        assert start <= end\n        assert bitstring.options.lsb0\n        new_slice = bitstring.bitstore.offset_slice_indices_lsb0(slice(start, end, None), len(self))\n        msb0_start, msb0_end = self._validate_slice(new_slice.start, new_slice.stop)\n        bitstring.options.lsb0 = False\n\n        p = self._find_msb0(", ['N4'])
V('N4_options_derived_state', ['C09'], 'bitstring_options.py', "        self._bytealigned = bool(value)", "        self._bytealigned = bool(value)\n        self._ever_aligned = True", ['N4'])
S('F_S_rename_cache_size', ['C09'], 'utils.py', fn=rename_local('CACHE_SIZE', 'LRU_SIZE'))
S('G1_S_reorder_tables', ['C09', 'C12'], 'bitstring_options.py', "            Bits: {'_find': Bits._find_lsb0, '_rfind': Bits._rfind_lsb0, '_findall': Bits._findall_lsb0},",
  "            Bits: {'_findall': Bits._findall_lsb0, '_rfind': Bits._rfind_lsb0, '_find': Bits._find_lsb0},")
S('F_S_shift_lines_helpers', ['C09', 'C11'], 'bitstore_helpers.py', fn=shift_lines)

# ------------------------------------------------------------------ C11 / H5
V('H5b_flip_e3m2_encode', ['C11'], 'luts.py', fn=lut_flip("(3, 2, 3, 'saturate')", 1, 0x3555), expect=['H5b'])
V('H5b_flip_p4_encode', ['C11'], 'luts.py', fn=lut_flip("(4, 8)", 1, 0x4100, 'binary8_luts_compressed'), expect=['H5b'])
V('H5a_flip_e5m2_decode', ['C11'], 'luts.py', fn=lut_flip("(5, 2, 15, 'overflow')", 0, 4 * 0x41), expect=['H5a'])
V('H5c_e4m3_overflow_clamp', ['C11'], 'mxfp.py', "self.pos_clamp_value = self.neg_clamp_value = 0b11111111  # NaN", "self.pos_clamp_value = self.neg_clamp_value = 0b01111110  # NaN", ['H5c'])
V('H5c_e5m2_saturate_clamp', ['C11'], 'mxfp.py', "self.pos_clamp_value = 0b01111011  # 57344", "self.pos_clamp_value = 0b01111100  # 57344", ['H5c'])
V('H5c_narrow_except', ['C11'], 'mxfp.py', "except (OverflowError, struct.error):", "except struct.error:", ['H5c'])
V('H5c_byteorder_mismatch', ['C11'], 'fp8.py', "f16_int = int.from_bytes(b, byteorder='big')", "f16_int = int.from_bytes(b, byteorder='little')", ['H5c'])
V('H5c_overflow_selection_swapped', ['C11'], 'bitstore_helpers.py', "    if bitstring.options.mxfp_overflow == 'saturate':\n        u = e5m2mxfp_saturate_fmt.float_to_int(f)\n    else:\n        u = e5m2mxfp_overflow_fmt.float_to_int(f)",
  "    if bitstring.options.mxfp_overflow == 'saturate':\n        u = e5m2mxfp_overflow_fmt.float_to_int(f)\n    else:\n        u = e5m2mxfp_saturate_fmt.float_to_int(f)", ['H5c'])
V('H5c_wrong_format_object', ['C11'], 'bitstore_helpers.py', "    u = e2m3mxfp_fmt.float_to_int(f)\n    return int2bitstore(u, 6, False)", "    u = e3m2mxfp_fmt.float_to_int(f)\n    return int2bitstore(u, 6, False)", ['H5c'])
V('H5c_no_nan_guard', ['C11'], 'bitstore_helpers.py', "    if math.isnan(f):\n        raise ValueError(\"Cannot convert float('nan') to e2m1mxfp format as it has no representation for it.\")\n", "", ['H5c'])
V('H5c_e8m0_bias', ['C11'], 'bits.py', "        u = self._getuint() - 127\n        if u == 128:", "        u = self._getuint() - 128\n        if u == 128:", ['H5c'])
V('H5c_bfloat_wrong_half', ['C11'], 'bitstore_helpers.py', "return BitStore.frombytes(b[0:2]) if big_endian else BitStore.frombytes(b[2:4])", "return BitStore.frombytes(b[0:2]) if big_endian else BitStore.frombytes(b[0:2])", ['H5c'])
V('H5c_scale_set_multiplies', ['C11'], 'dtypes.py', "return set_fn(bs, value / scale, *args, **kwargs)", "return set_fn(bs, value * scale, *args, **kwargs)", ['H5c'])
V('H5c_mxint_clamp', ['C11'], 'bitstore_helpers.py', "    if f > 127:  # 1 + 63/64\n        return BitStore('01111111')", "    if f > 127:  # 1 + 63/64\n        return BitStore('01111110')", ['H5c'])
V('H5c_lut_key_bias', ['C11'], 'mxfp.py', "e3m2mxfp_fmt = MXFPFormat(exp_bits=3, mantissa_bits=2, bias=3, mxfp_overflow='saturate')", "e3m2mxfp_fmt = MXFPFormat(exp_bits=3, mantissa_bits=2, bias=4, mxfp_overflow='saturate')", ['H5c'])
V('H2_float_fmt_le_in_be', ['C11', 'C02'], 'bits.py', "fmt = {16: '>e', 32: '>f', 64: '>d'}[len(self)]", "fmt = {16: '>e', 32: '<f', 64: '>d'}[len(self)]", ['H2'])
V('H2_float_len_table', ['C11', 'C02', 'C15'], 'bits.py', "if length is None or length not in [16, 32, 64]:", "if length is None or length not in [16, 32, 64, 128]:", ['H2'])
S('H5_S_positional_ctor', ['C11'], 'mxfp.py', "e2m1mxfp_fmt = MXFPFormat(exp_bits=2, mantissa_bits=1, bias=1, mxfp_overflow='saturate')", "e2m1mxfp_fmt = MXFPFormat(2, 1, 1, 'saturate')")
S('H5_S_clamp_hex', ['C11'], 'mxfp.py', "self.pos_clamp_value = 0b01111110  # 448", "self.pos_clamp_value = 0x7e")
S('H5_S_shift_lines_mxfp', ['C11'], 'mxfp.py', fn=shift_lines)

# ------------------------------------------------------------------ C04 / A
V('A2_bitarray_no_claim', ['C04'], 'bitarray_.py', "        if self._bitstore.immutable:\n            self._bitstore = self._bitstore._copy()\n            self._bitstore.immutable = False\n\n    def copy(",
  "        pass\n\n    def copy(", ['A2'])
V('A2_bitstream_no_claim', ['C04'], 'bitstream.py', "        if self._bitstore.immutable:\n            self._bitstore = self._bitstore._copy()\n            self._bitstore.immutable = False\n\n    def __copy__(self) -> BitStream:",
  "\n    def __copy__(self) -> BitStream:", ['A2'])
V('A2_claim_keeps_flag', ['C04'], 'bitarray_.py', "            self._bitstore = self._bitstore._copy()\n            self._bitstore.immutable = False\n\n    def copy(",
  "            self._bitstore = self._bitstore._copy()\n\n    def copy(", ['A2'])
V('A1_getitem_whole_slice_shares', ['C04'], 'bits.py', "        bs = super().__new__(self.__class__)\n        bs._bitstore = self._bitstore.getslice_withstep(key)\n        return bs",
  "        bs = super().__new__(self.__class__)\n        bs._bitstore = self._bitstore if key == slice(None) else self._bitstore.getslice_withstep(key)\n        return bs", ['A1'])
V('A1_bitstream_copy_shares', ['C04'], 'bitstream.py', "        s_copy._bitstore = self._bitstore.copy()", "        s_copy._bitstore = self._bitstore", ['A1'])
V('A1_bitarray_copy_uses_copy', ['C04'], 'bitarray_.py', "        s_copy._bitstore = self._bitstore._copy()\n        assert s_copy._bitstore.immutable is False", "        s_copy._bitstore = self._bitstore", ['A1'])
V('A1_ctor_from_bits_shares', ['C04'], 'bits.py', "            self._bitstore = s._bitstore.copy()", "            self._bitstore = s._bitstore", ['A1', 'A7'])
V('A1__copy_shares', ['C04', 'C16'], 'bits.py', "        s_copy = self.__class__()\n        s_copy._bitstore = self._bitstore._copy()\n        return s_copy",
  "        s_copy = self.__class__()\n        s_copy._bitstore = self._bitstore.copy()\n        return s_copy", ['A1', 'A10'])
V('A1_slice_shares_when_whole', ['C04'], 'bits.py', "        bs = self.__class__()\n        bs._bitstore = self._bitstore.getslice(start, end)\n        return bs",
  "        bs = self.__class__()\n        bs._bitstore = self._bitstore if (start, end) == (0, len(self)) else self._bitstore.getslice(start, end)\n        return bs", ['A1'])
V('A1_and_same_object_shares', ['C04', 'C16'], 'bits.py', "        if bs is self:\n            return self.__copy__()\n        bs = Bits._create_from_bitstype(bs)\n        s = object.__new__(self.__class__)\n        s._bitstore = self._bitstore & bs._bitstore",
  "        if bs is self:\n            s = object.__new__(self.__class__)\n            s._bitstore = self._bitstore\n            return s\n        bs = Bits._create_from_bitstype(bs)\n        s = object.__new__(self.__class__)\n        s._bitstore = self._bitstore & bs._bitstore", ['A1'])
# (POSW_and_self_resets_pos - `return self.copy()` in Bits.__and__ - was retired: since ConstBitStream.copy() returns a new stream it is no fault)
V('A8_store_copy_returns_self', ['C04', 'C16'], 'bitstore.py', "        \"\"\"Always creates a copy, even if instance is immutable.\"\"\"\n        return BitStore(self._bitarray)",
  "        \"\"\"Always creates a copy, even if instance is immutable.\"\"\"\n        return self", ['A8'])
V('A8_copy_ignores_flag', ['C04'], 'bitstore.py', "        return self if self.immutable else self._copy()", "        return self", ['A8'])
V('A8_init_aliases_bitarray', ['C04'], 'bitstore.py', "        self._bitarray = bitarray.bitarray(initializer, endian='big')\n        self.immutable = immutable",
  "        self._bitarray = initializer if isinstance(initializer, bitarray.bitarray) else bitarray.bitarray(initializer, endian='big')\n        self.immutable = immutable", ['A8'])
V('A7_store_keeps_endianness', ['C08', 'C13', 'C04'], 'bitstore.py', "        self._bitarray = bitarray.bitarray(initializer, endian='big')", "        self._bitarray = bitarray.bitarray(initializer)", ['A7'])
V('A8_and_returns_operand', ['C04', 'C16'], 'bitstore.py', "        return BitStore(self._bitarray & other._bitarray)", "        self._bitarray &= other._bitarray\n        return self", ['A8'])
V('A7_bytearray_via_frombuffer', ['C04'], 'bits.py', "            self._bitstore = BitStore.frombytes(bytearray(s))", "            self._bitstore = BitStore.frombuffer(s)", ['A7'])
V('A7_mmap_writable', ['C04'], 'bits.py', "m = mmap.mmap(source.fileno(), 0, access=mmap.ACCESS_READ)", "m = mmap.mmap(source.fileno(), 0, access=mmap.ACCESS_COPY)", ['A7'])
V('A5_bits_gets_mutator', ['C04', 'C20'], 'bits.py', "    def copy(self: TBits) -> TBits:\n        \"\"\"Return a copy of the bitstring.\"\"\"",
  "    def zero(self) -> None:\n        self._bitstore.setall(0)\n\n    def copy(self: TBits) -> TBits:\n        \"\"\"Return a copy of the bitstring.\"\"\"", ['A5'])
V('A5_mul_in_place', ['C04'], 'bits.py', "        s = self._copy()\n        s._imul(n)\n        return s", "        s = self\n        s._imul(n)\n        return s", ['A5'])
V('A5_invert_in_place', ['C04', 'C16'], 'bits.py', "        s = self._copy()\n        s._invert_all()\n        return s", "        self._invert_all()\n        return self", ['A5'])
V('A6_tobitarray_internal', ['C04'], 'bits.py', "            return self._bitstore._bitarray.copy()", "            return self._bitstore._bitarray", ['A6'])
V('A1_setbits_shares_again', ['C04'], 'bits.py', "        self._bitstore = bs._bitstore._copy()\n", "        self._bitstore = bs._bitstore\n", ['A1'])
V('A1_setbits_maybe_shared', ['C04'], 'bits.py', "        self._bitstore = bs._bitstore._copy()\n", "        self._bitstore = bs._bitstore.copy()\n", ['A1'])
V('A1_fromstring_cached_in_mutable', ['C04'], 'bitarray_.py', "        x._bitstore = bitstring.bitstore_helpers.str_to_bitstore(s)._copy()", "        x._bitstore = bitstring.bitstore_helpers.str_to_bitstore(s)", ['A1'])
V('A3_fromstring_flags_stream', ['C04'], 'bitstream.py', "        x = super().fromstring(s)\n        x._pos = 0\n        return x", "        x = super().fromstring(s)\n        x._pos = 0\n        x._bitstore.immutable = True\n        return x", ['A3'])
V('A5_const_stream_overwrite', ['C04', 'C20'], 'bitstream.py', "    def __repr__(self) -> str:\n", "    def overwrite(self, bs: BitsType, /, pos: Optional[int] = None) -> None:\n        bs = Bits._create_from_bitstype(bs)\n        self._overwrite(bs, self._pos if pos is None else pos)\n\n    def __repr__(self) -> str:\n", ['A5'])
V('A4_operand_mutated', ['C04'], 'bitarray_.py', "        bs = self._create_from_bitstype(bs)\n        self._bitstore |= bs._bitstore\n        return self",
  "        bs = self._create_from_bitstype(bs)\n        bs._bitstore |= self._bitstore\n        self._bitstore = bs._bitstore\n        return self", ['A4', 'A1'])
V('A4_join_returns_operand', ['C04'], 'bits.py', "        bs = self.__class__._create_from_bitstype(bs)\n        return bs.__add__(self)",
  "        bs = self.__class__._create_from_bitstype(bs)\n        if len(self) == 0:\n            return bs\n        return bs.__add__(self)", ['A4'])
V('A3_flag_set_in_bitarray_copy', ['C04'], 'bitarray_.py', "        assert s_copy._bitstore.immutable is False\n        return s_copy", "        s_copy._bitstore.immutable = True\n        return s_copy", ['A3'])
V('A9_array_copy_shares', ['C04'], 'array_.py', "        a_copy.data = copy.copy(self.data)", "        a_copy.data = self.data", ['A9'])
V('A9_array_slice_shares', ['C04'], 'array_.py', "                a.data = self.data[start * self._dtype.bitlength: stop * self._dtype.bitlength]",
  "                a.data = self.data if (start, stop) == (0, len(self)) else self.data[start * self._dtype.bitlength: stop * self._dtype.bitlength]", ['A9'])
S('A_S_rename_copy_local', ['C04'], 'bits.py', fn=rename_local('s_copy', 'duplicate'))
S('A_S_shift_bitarray', ['C04'], 'bitarray_.py', fn=shift_lines)
S('A_S_inline_copy', ['C04'], 'bits.py', "        s_copy = self.__class__()\n        s_copy._bitstore = self._bitstore._copy()\n        return s_copy",
  "        s_copy = self.__class__()\n        s_copy._bitstore = BitStore(self._bitstore._bitarray)\n        return s_copy")
S('A_S_claim_unconditional', ['C04'], 'bitarray_.py', "        if self._bitstore.immutable:\n            self._bitstore = self._bitstore._copy()\n            self._bitstore.immutable = False\n\n    def copy(",
  "        if self._bitstore.immutable is True:\n            self._bitstore = self._bitstore._copy()\n            self._bitstore.immutable = False\n\n    def copy(")

# ------------------------------------------------------------------ C06 / stream
V('B1_delitem_no_pos_reset', ['C06'], 'bitstream.py', "        self._bitstore.__delitem__(key)\n        if len(self) != length_before:\n            self._pos = 0", "        self._bitstore.__delitem__(key)", ['B1', 'POST'])
V('B1_prepend_no_pos_reset', ['C06'], 'bitstream.py', "        super().prepend(bs)\n        self._pos = 0", "        super().prepend(bs)", ['B1', 'POST'])
V('B1_setitem_no_pos_reset', ['C06'], 'bitstream.py', "        super().__setitem__(key, value)\n        if len(self) != length_before:\n            self._pos = 0\n        return", "        super().__setitem__(key, value)\n        return", ['B1', 'POST'])
V('B1_replace_no_pos_reset', ['C06'], 'bitstream.py', "        if len(self) != length_before:\n            self._pos = 0\n        return replacement_count", "        return replacement_count", ['B1', 'POST'])
# (B1_setattr_override_removed superseded by B1_property_path_no_pos after the second __setattr__ fix)
V('B1_new_mutator_on_bitarray', ['C06'], 'bitarray_.py', "    def clear(self) -> None:\n        \"\"\"Remove all bits, reset to zero length.\"\"\"",
  "    def truncate(self, n: int) -> None:\n        if n < 0:\n            raise ValueError\n        n = min(n, len(self))\n        self._truncateright(n)\n\n    def clear(self) -> None:\n        \"\"\"Remove all bits, reset to zero length.\"\"\"", ['B1'])
V('RB_read_no_rollback', ['C06'], 'bitstream.py', "            self._pos = p\n            raise bitstring.ReadError(f\"Reading off end", "            raise bitstring.ReadError(f\"Reading off end", ['RB', 'POSW'])
V('RB_peek_no_restore', ['C06'], 'bitstream.py', "        value = self.read(fmt)\n        self._pos = pos_before\n        return value", "        value = self.read(fmt)\n        return value", ['RB'])
V('RB_peeklist_restore_wrong_var', ['C06'], 'bitstream.py', "        return_values = self.readlist(fmt, **kwargs)\n        self._pos = pos\n", "        return_values = self.readlist(fmt, **kwargs)\n        self._pos = len(self)\n", ['RB'])
V('POSW_init_no_upper_check', ['C06', 'C20'], 'bitstream.py', "        if pos < 0 or pos > len(self._bitstore):\n            raise bitstring.CreationError(f\"Cannot set pos to {pos} when length is {len(self._bitstore)}.\")",
  "        if pos < 0:\n            raise bitstring.CreationError(f\"Cannot set pos to {pos} when length is {len(self._bitstore)}.\")", ['POSW'])
V('POSW_setbitpos_no_upper_check', ['C06', 'C20'], 'bitstream.py', "        if pos > len(self):\n            raise ValueError(\"Cannot seek past the end of the data.\")\n", "", ['POSW'])
V('POSW_read_int_no_bound', ['C06'], 'bitstream.py', "            if fmt > len(self) - self._pos:\n                raise bitstring.ReadError(f\"Cannot read {fmt} bits, only {len(self) - self._pos} available.\")\n", "", ['POSW'])
V('POSW_insert_unvalidated', ['C06', 'C03'], 'bitstream.py', "        if not 0 <= pos <= len(self):\n            raise ValueError(\"Invalid insert position.\")\n        self._insert(bs, pos)\n        self._pos = pos + len(bs)",
  "        self._insert(bs, pos)\n        self._pos = pos + len(bs)", ['POSW', 'N1'])
V('POST_append_pos_zero', ['C06'], 'bitstream.py', "        self._append(bs)\n        self._pos = len(self)\n\n", "        self._append(bs)\n        self._pos = 0\n\n", ['POST'])
V('POST_find_sets_end', ['C06'], 'bitstream.py', "        p = super().find(bs, start, end, bytealigned)\n        if p:\n            self._pos = p[0]", "        p = super().find(bs, start, end, bytealigned)\n        if p:\n            self._pos = len(self)", ['POST'])
V('C_getitem_no_pos', ['C06', 'C16'], 'bitstream.py', "        bs._bitstore = self._bitstore.getslice_withstep(key)\n        bs._pos = 0\n        return bs", "        bs._bitstore = self._bitstore.getslice_withstep(key)\n        return bs", ['C', 'POST'])
V('C_and_no_pos', ['C06', 'C16'], 'bitstream.py', "        s = Bits.__and__(self, bs)\n        s._pos = 0\n        return s", "        s = Bits.__and__(self, bs)\n        return s", ['C', 'POST'])
V('C_bitstream_copy_no_pos', ['C06'], 'bitstream.py', "        s_copy = object.__new__(BitStream)\n        s_copy._pos = 0\n", "        s_copy = object.__new__(BitStream)\n", ['C', 'POST'])
V('E7_single_length_no_check', ['C06', 'C20'], 'dtypes.py', "                    length = self.allowed_lengths.values[0]\n                    if len(bs) < start + length:\n                        raise bitstring.ReadError(f\"Needed a length of at least {length} bits, but only {len(bs) - start} bits were available.\")\n", "                    length = self.allowed_lengths.values[0]\n", ['E7'])
V('J_hash_reads_pos', ['C06', 'C13'], 'bits.py', "            return hash((self.tobytes(), len(self)))", "            return hash((self.tobytes(), len(self), getattr(self, '_pos', 0) > len(self)))", ['J1', 'J2'])
V('J_eq_reads_filename', ['C08', 'C13'], 'bits.py', "            return self._bitstore == Bits._create_from_bitstype(bs)._bitstore", "            return self._bitstore == Bits._create_from_bitstype(bs)._bitstore and not getattr(bs, '_filename', None)", ['J1', 'J2'])
V('J_stream_eq_uses_pos', ['C06', 'C13'], 'bitstream.py', "    def __repr__(self) -> str:\n", "    def __eq__(self, bs: Any, /) -> bool:\n        return super().__eq__(bs) and self._pos == getattr(bs, '_pos', self._pos)\n\n    __hash__ = Bits.__hash__\n\n    def __repr__(self) -> str:\n", ['J2', 'HASH'])
S('ST_S_guard_spelling', ['C06'], 'bitstream.py', "        if pos < 0:\n            raise ValueError(\"Bit position cannot be negative.\")\n        if pos > len(self):\n            raise ValueError(\"Cannot seek past the end of the data.\")",
  "        if pos < 0 or pos > len(self):\n            raise ValueError(\"Bit position out of range.\")")
S('ST_S_shift_lines', ['C06', 'C13', 'C16', 'C01', 'C07'], 'bitstream.py', fn=shift_lines)
S('ST_S_rename_saved', ['C06'], 'bitstream.py', fn=rename_local('pos_before', 'saved_position'))

# ------------------------------------------------------------------ C07 / C01 / C16 / C10 / C13 / C08 contracts
V('E1_rfind_no_empty_guard', ['C07'], 'bits.py', "        if len(bs) == 0:\n            raise ValueError(\"Cannot find an empty bitstring.\")\n        p = self._rfind(bs, start, end, ba)", "        p = self._rfind(bs, start, end, ba)", ['E1'])
V('E1_findall_no_empty_guard', ['C07'], 'bits.py', "        bs = Bits._create_from_bitstype(bs)\n        if len(bs) == 0:\n            raise ValueError(\"Cannot find an empty bitstring.\")\n        start, end = self._validate_slice(start, end)\n        ba = bitstring.options.bytealigned if bytealigned is None else bytealigned\n        return self._findall(",
  "        bs = Bits._create_from_bitstype(bs)\n        start, end = self._validate_slice(start, end)\n        ba = bitstring.options.bytealigned if bytealigned is None else bytealigned\n        return self._findall(", ['E1'])
V('E1_stream_replace_no_guard', ['C07'], 'bitstream.py', "        if len(old := Bits._create_from_bitstype(old)) == 0:\n            raise ValueError(\"Empty bitstring cannot be replaced.\")", "        old = Bits._create_from_bitstype(old)", ['E1'])
V('E2_count_window_unvalidated', ['C07'], 'bits.py', "        start_, end_ = self._validate_slice(start, end)\n        if count is not None and count < 0:\n            raise ValueError(\"Cannot cut - count must be >= 0.\")",
  "        start_, end_ = (0 if start is None else start), (len(self) if end is None else end)\n        if count is not None and count < 0:\n            raise ValueError(\"Cannot cut - count must be >= 0.\")", ['E2'])
V('E2_startswith_unvalidated', ['C07'], 'bits.py', "        prefix = self._create_from_bitstype(prefix)\n        start, end = self._validate_slice(start, end)\n", "        prefix = self._create_from_bitstype(prefix)\n        start, end = start or 0, len(self) if end is None else end\n", ['E2'])
V('E3_split_ignores_option', ['C07'], 'bits.py', "bytealigned_: bool = bitstring.options.bytealigned if bytealigned is None else bytealigned", "bytealigned_: bool = bool(bytealigned)", ['E3'])
V('E3_find_raw_bytealigned', ['C07'], 'bits.py', "        ba = bitstring.options.bytealigned if bytealigned is None else bytealigned\n        p = self._find(bs, start, end, ba)", "        p = self._find(bs, start, end, bytealigned)", ['E3'])
S('E3_S_replace_forwards_none', ['C07'], 'bitarray_.py', "        if bytealigned is None:\n            bytealigned = bitstring.options.bytealigned\n", "")
S('E_S_guard_as_not', ['C07'], 'bits.py', "        if len(delimiter) == 0:\n            raise ValueError(\"split delimiter cannot be empty.\")", "        if not len(delimiter):\n            raise ValueError(\"split delimiter cannot be empty.\")")
S('E_S_message_changes', ['C07'], 'bits.py', "raise ValueError(\"Cannot find an empty bitstring.\")\n        start, end = self._validate_slice(start, end)\n        ba = bitstring.options.bytealigned if bytealigned is None else bytealigned\n        p = self._find(", "raise ValueError(\"empty pattern\")\n        start, end = self._validate_slice(start, end)\n        ba = bitstring.options.bytealigned if bytealigned is None else bytealigned\n        p = self._find(")
V('K_add_returns_operand_class', ['C01'], 'bits.py', "            s = self.__class__()\n            s._bitstore = bs._bitstore._copy()\n            s._addleft(self)", "            s = bs._copy()\n            s._addleft(self)", ['K'])
V('K_getitem_always_bits', ['C01'], 'bits.py', "        bs = super().__new__(self.__class__)\n        bs._bitstore = self._bitstore.getslice_withstep(key)\n        return bs", "        bs = super().__new__(Bits)\n        bs._bitstore = self._bitstore.getslice_withstep(key)\n        return bs", ['K'])
V('K_mul_zero_returns_bits', ['C01'], 'bits.py', "        if not n:\n            return self.__class__()\n        s = self._copy()\n        s._imul(n)", "        if not n:\n            return Bits()\n        s = self._copy()\n        s._imul(n)", ['K'])
V('E6_mul_no_neg_guard', ['C01'], 'bits.py', "        if n < 0:\n            raise ValueError(\"Cannot multiply by a negative integer.\")\n        if not n:\n            return self.__class__()", "        if not n or n < 0:\n            return self.__class__()", ['E6'])
V('E6_ilshift_no_neg_guard', ['C16'], 'bitarray_.py', "        if n < 0:\n            raise ValueError(\"Cannot shift by a negative amount.\")\n        if not len(self):\n            raise ValueError(\"Cannot shift an empty bitstring.\")\n        if not n:\n            return self\n        n = min(n, len(self))\n        return self._ilshift(n)",
  "        if not len(self):\n            raise ValueError(\"Cannot shift an empty bitstring.\")\n        if not n:\n            return self\n        n = min(n, len(self))\n        return self._ilshift(n)", ['E6'])
V('E6_invert_empty_no_error', ['C16'], 'bits.py', "        if len(self) == 0:\n            raise bitstring.Error(\"Cannot invert empty bitstring.\")\n        s = self._copy()", "        s = self._copy()", ['E6'])
V('E6_rshift_empty_wrong_class', ['C16'], 'bits.py', "        if len(self) == 0:\n            raise ValueError(\"Cannot shift an empty bitstring.\")\n        if not n:\n            return self._copy()", "        if len(self) == 0:\n            raise bitstring.Error(\"Cannot shift an empty bitstring.\")\n        if not n:\n            return self._copy()", ['E6'])
V('A5_lshift_in_place', ['C16', 'C04'], 'bits.py', "        s = self._absolute_slice(n, len(self))\n        s._addright(Bits(n))\n        return s", "        self._addright(Bits(n))\n        self._truncateleft(n)\n        return self", ['A5'])
V('D2_getue_no_conversion', ['C10'], 'bits.py', "            return self._readue(0)\n        except bitstring.ReadError:\n            raise bitstring.InterpretError", "            return self._readue(0)\n        except bitstring.ReadError:\n            raise", ['D2'])
V('D2_no_length_check', ['C10'], 'dtypes.py', "                if length != len(bs):\n                    raise ValueError\n                return x", "                return x", ['D2'])
V('D2_readuie_outside_try', ['C10'], 'bits.py', "        codenum, pos = self._readuie(pos)\n        if not codenum:\n            return 0, pos\n        try:\n            return (-codenum, pos + 1) if self[pos] else (codenum, pos + 1)\n        except IndexError:\n            raise bitstring.ReadError(\"Read off end of bitstring trying to read code.\")",
  "        codenum, pos = self._readuie(pos)\n        if not codenum:\n            return 0, pos\n        return (-codenum, pos + 1) if self[pos] else (codenum, pos + 1)", ['D2'])
V('D2_readue_no_suffix_check', ['C10'], 'bits.py', "            if pos + leadingzeros + 1 > len(self):\n                raise bitstring.ReadError(\"Read off end of bitstring trying to read code.\")\n", "", ['D2'])
V('D2_reader_no_translation', ['C10', 'C06'], 'dtypes.py', "                except bitstring.InterpretError:\n                    raise bitstring.ReadError", "                except bitstring.InterpretError:\n                    raise", ['D2'])
V('D2_ue_accepts_negative', ['C10', 'C15'], 'bitstore_helpers.py', "    i = int(i)\n    if i < 0:\n        raise bitstring.CreationError(\"Cannot use negative initialiser for unsigned exponential-Golomb.\")\n    if i == 0:", "    i = abs(int(i))\n    if i == 0:", ['D2'])
V('E9_setuie_no_lsb0_refusal', ['C10', 'C12'], 'bits.py', "        if bitstring.options.lsb0:\n            raise bitstring.CreationError(\"Exp-Golomb codes cannot be used in lsb0 mode.\")\n        self._bitstore = bitstore_helpers.uie2bitstore(i)", "        self._bitstore = bitstore_helpers.uie2bitstore(i)", ['E9'])
V('HASH_bitarray_hashable', ['C13'], 'bitarray_.py', "    __hash__: None = None\n", "    __hash__ = Bits.__hash__\n", ['HASH'])
V('HASH_constbitstream_eq_only', ['C13'], 'bitstream.py', "    def __repr__(self) -> str:\n", "    def __eq__(self, bs: Any, /) -> bool:\n        return Bits.__eq__(self, bs)\n\n    def __repr__(self) -> str:\n", ['HASH'])
V('D3_eq_typeerror_escapes', ['C13'], 'bits.py', "        try:\n            return self._bitstore == Bits._create_from_bitstype(bs)._bitstore\n        except TypeError:\n            return False", "        return self._bitstore == Bits._create_from_bitstype(bs)._bitstore", ['D3'])
V('D3_ne_not_negation', ['C13'], 'bits.py', "        return not self.__eq__(bs)", "        return self._bitstore != Bits._create_from_bitstype(bs)._bitstore", ['D3'])
V('L_frombuffer_keeps_whole_file', ['C08', 'C13', 'C16', 'C17'], 'bitstore.py', "            x._bitarray = bitarray.bitarray(x._bitarray[:x.modified_length])\n            x.modified_length = None\n", "", ['L'])
V('E10_extend_ignores_itemsize', ['C18'], 'array_.py', "            other_dtype = dtype_register.get_dtype(name_value[0], iterable.itemsize * 8, scale=None)", "            other_dtype = dtype_register.get_dtype(*name_value, scale=None)", ['E10'])
S('C_S_shift_dtypes', ['C06', 'C10', 'C09'], 'dtypes.py', fn=shift_lines)
V('F1_option_dropped_from_key', ['C09'], 'bitstore_helpers.py', "    return _str_to_bitstore(s, bitstring.options.lsb0, bitstring.options.mxfp_overflow)", "    return _str_to_bitstore(s, bitstring.options.lsb0, 'saturate')", ['F1'])
V('F1_cache_on_wrapper_again', ['C09'], 'bitstore_helpers.py', "def str_to_bitstore(s: str) -> BitStore:\n    # Some tokens", "@functools.lru_cache(CACHE_SIZE)\ndef str_to_bitstore(s: str) -> BitStore:\n    # Some tokens", ['F1'])

# ------------------------------------------------------------------ C14 / dims, mutate
V('I_fromfile_units', ['C14'], 'array_.py', "        self.data += new_data[0: items_to_append * self._dtype.bitlength]", "        self.data += new_data[0: items_to_append * self._dtype.length]", ['I'])
V('I_len_units', ['C14'], 'array_.py', "        return len(self.data) // self._dtype.bitlength", "        return len(self.data) // self._dtype.length", ['I'])
V('I_getitem_units', ['C14'], 'array_.py', "            return self._dtype.read_fn(self.data, start=self._dtype.bitlength * key)", "            return self._dtype.read_fn(self.data, start=self._dtype.length * key)", ['I'])
V('I_insert_units', ['C14'], 'array_.py', "        self.data.insert(self._create_element(x), i * self._dtype.bitlength)", "        self.data.insert(self._create_element(x), i * self._dtype.length)", ['I'])
V('I_itemsize_units', ['C14'], 'array_.py', "    def itemsize(self) -> int:\n        return self._dtype.bitlength", "    def itemsize(self) -> int:\n        return self._dtype.length", ['I'])
V('I_create_element_compare', ['C14'], 'array_.py', "        if len(b) != self._dtype.bitlength:\n            raise ValueError(f\"The value {value!r}", "        if len(b) != self._dtype.length:\n            raise ValueError(f\"The value {value!r}", ['I'])
V('B3_inplace_writes_as_it_goes', ['C14'], 'array_.py', "                new_data.append(self._create_element(op(v, value)))\n            except (CreationError, ZeroDivisionError, ValueError) as e:\n                if failures == 0:\n                    msg = str(e)\n                    index = i\n                failures += 1\n        if failures != 0:\n            raise ValueError(f\"Applying operator '{op.__name__}' to Array caused {failures} errors. \"\n                             f'First error at index {index} was: \"{msg}\"')\n        self.data = new_data",
  "                self.data.overwrite(self._create_element(op(v, value)), self._dtype.bitlength * i)\n            except (CreationError, ZeroDivisionError, ValueError) as e:\n                if failures == 0:\n                    msg = str(e)\n                    index = i\n                failures += 1\n        if failures != 0:\n            raise ValueError(f\"Applying operator '{op.__name__}' to Array caused {failures} errors. \"\n                             f'First error at index {index} was: \"{msg}\"')", ['B3', 'B2'])
V('B2_array_setitem_partial', ['C14', 'C15'], 'array_.py', "                new_elements = [self._create_element(v) for v in value]\n                for s, element in zip(range(start, stop, step), new_elements):\n                    self.data.overwrite(element, s * self._dtype.bitlength)",
  "                for s, v in zip(range(start, stop, step), value):\n                    self.data.overwrite(self._create_element(v), s * self._dtype.bitlength)", ['B2'])
V('B2_array_extend_partial', ['C14', 'C15'], 'array_.py', "            new_data = BitArray()\n            for item in iterable:\n                new_data += self._create_element(item)\n            self.data += new_data", "            for item in iterable:\n                self.data += self._create_element(item)", ['B2'])
V('N2a_zero_width_accepted', ['C14', 'C20'], 'array_.py', "        if dtype.bitlength == 0:\n            raise ValueError(f\"A format with a non-zero length is needed for an Array, received '{new_dtype}'.\")\n", "", ['N2a', 'N2'])
S('I_S_local_width', ['C14'], 'array_.py', "        return len(self.data) // self._dtype.bitlength", "        width = self._dtype.bitlength\n        return len(self.data) // width")
S('I_S_shift_lines', ['C14', 'C18', 'C20'], 'array_.py', fn=shift_lines)

# ------------------------------------------------------------------ C03 / C20 mutate
V('B2_insert_guard_after_effect', ['C03'], 'bitarray_.py', "        if not 0 <= pos <= len(self):\n            raise ValueError(\"Invalid insert position.\")\n        self._insert(bs, pos)\n\n    def overwrite",
  "        self._insert(bs, min(max(pos, 0), len(self)))\n        if not 0 <= pos <= len(self):\n            raise ValueError(\"Invalid insert position.\")\n\n    def overwrite", ['B2'])
V('B2_setitem_int_writes_first', ['C03'], 'bitarray_.py', "            if value in (1, -1):\n                self._bitstore[key] = 1\n                return\n            raise ValueError(f\"Cannot set a single bit with integer {value}.\")",
  "            self._bitstore[key] = 1\n            if value in (1, -1):\n                return\n            raise ValueError(f\"Cannot set a single bit with integer {value}.\")", ['B2'])
V('WB_byteswap_unbounded', ['C03'], 'bitarray_.py', "            finalbit = min(start_v + totalbitsize, end_v)", "            finalbit = start_v + totalbitsize", ['WB'])
V('WB_byteswap_repeat_to_len', ['C03'], 'bitarray_.py', "            # Try to repeat up to the end of the bitstring.\n            finalbit = end_v", "            # Try to repeat up to the end of the bitstring.\n            finalbit = len(self)", ['WB'])
V('N1_overwrite_no_range_check', ['C03', 'C20'], 'bitarray_.py', "        if pos < 0 or pos > len(self):\n            raise ValueError(\"Overwrite starts outside boundary of bitstring.\")\n        self._overwrite(bs, pos)", "        self._overwrite(bs, pos)", ['N1'])
V('N1_invert_no_range_check', ['C03', 'C20'], 'bitarray_.py', "            if not 0 <= p < length:\n                raise IndexError(f\"Bit position {p} out of range.\")\n", "", ['N1'])
V('N1_ilshift_no_min', ['C20'], 'bitarray_.py', "        if not n:\n            return self\n        n = min(n, len(self))\n        return self._ilshift(n)", "        if not n:\n            return self\n        return self._ilshift(n)", ['N1'])
V('N1_imul_no_neg_guard', ['C20', 'C01'], 'bitarray_.py', "        if n < 0:\n            raise ValueError(\"Cannot multiply by a negative integer.\")\n        return self._imul(n)", "        return self._imul(n)", ['N1', 'E6'])
V('N1_new_assert', ['C20'], 'bits.py', "        value = 1 if bool(value) else 0\n        if pos is None:\n            return self._bitstore.all_set() if value else not self._bitstore.any_set()", "        value = 1 if bool(value) else 0\n        assert len(self) > 0\n        if pos is None:\n            return self._bitstore.all_set() if value else not self._bitstore.any_set()", ['N1'])
V('N2_ror_no_empty_check', ['C20'], 'bitarray_.py', "        start, end = self._validate_slice(start, end)  # the _slice deals with msb0/lsb0\n        if start == end:\n            return\n", "        start, end = self._validate_slice(start, end)  # the _slice deals with msb0/lsb0\n", ['N2'])
V('N2_pp_no_zero_guard', ['C19', 'C20'], 'bits.py', "            if total_group_chars == 0:\n                raise ValueError(f\"Can't use Dtype '{dtype1}' in pp() without a separator as it has no printable width.\")\n", "", ['N2'])
V('N2_cut_modulo', ['C20'], 'bits.py', "        if bits <= 0:\n            raise ValueError(\"Cannot cut - bits must be >= 0.\")\n        c = 0", "        if bits < 0:\n            raise ValueError(\"Cannot cut - bits must be >= 0.\")\n        remainder = (end_ - start_) % bits\n        c = 0", ['N2'])
V('M_typo_attribute', ['C20'], 'bitstream.py', "        skipped = (8 - (self._pos % 8)) % 8\n        self.pos += skipped", "        skipped = (8 - (self._pos % 8)) % 8\n        self.position += skipped", ['M'])
V('M_helper_only_on_bitarray', ['C20'], 'bits.py', "        s = self._copy()\n        s._invert_all()\n        return s", "        s = self._copy()\n        s._setitem_slice(slice(None), ~0)\n        return s", ['M'])
V('D1_undocumented_class', ['C20'], 'bits.py', "            raise ValueError(\"Cannot cut - count must be >= 0.\")", "            raise RuntimeError(\"Cannot cut - count must be >= 0.\")", ['D1'])
V('D1_keyerror', ['C20'], 'bitarray_.py', "                raise ValueError(f\"Cannot parse format string {fmt}.\")", "                raise KeyError(fmt)", ['D1'])
V('N3_unbound_name', ['C20'], 'bits.py', "            raise ValueError(\"Cannot cut - count must be >= 0.\")", "            raise ValueError(f\"Cannot cut - count must be >= 0, not {cnt}.\")", ['N3'])
S('N_S_guard_reordered', ['C20', 'C03'], 'bitarray_.py', "        if pos < 0 or pos > len(self):\n            raise ValueError(\"Overwrite starts outside boundary of bitstring.\")", "        if pos > len(self) or pos < 0:\n            raise ValueError(\"Overwrite starts outside boundary of bitstring.\")")
S('N_S_len_alias', ['C20', 'C03'], 'bitarray_.py', "        if not 0 <= pos <= len(self):\n            raise ValueError(\"Invalid insert position.\")\n        self._insert(bs, pos)\n\n    def overwrite", "        length = len(self)\n        if not 0 <= pos <= length:\n            raise ValueError(\"Invalid insert position.\")\n        self._insert(bs, pos)\n\n    def overwrite")

# ------------------------------------------------------------------ C15 / ingest
V('E5_bytes_no_offset_check', ['C15', 'C17'], 'bits.py', "        if offset > len(data) * 8:\n            raise bitstring.CreationError(f\"Offset of {offset} too large for data of length {len(data) * 8} bits.\")\n", "", ['E5'])
V('E5_bitarray_negative_length', ['C15'], 'bits.py', "            if length < 0:\n                raise bitstring.CreationError(f\"Can't create bitstring with a negative length of {length}.\")\n            if offset + length > len(ba):", "            if offset + length > len(ba):", ['E5'])
V('E5_bytesio_switched_slice', ['C12', 'C15', 'C17'], 'bits.py', "[byteoffset: byteoffset + bytelength]).getslice_msb0(\n                offset, offset + length)", "[byteoffset: byteoffset + bytelength]).getslice(\n                offset, offset + length)", ['E5'])
V('E5_file_no_postcheck', ['C15', 'C17'], 'bits.py', "                    if len(self) != length:\n                        raise bitstring.CreationError(f\"Can't use a length of {length} bits and an offset of {offset} bits as file length is only {len(temp)} bits.\")", "                    pass", ['E5'])
V('CHOKE_negative_length_accepted', ['C15', 'C19'], 'dtypes.py', "        if length < 0:\n            raise ValueError(f\"A negative length ({length}) was supplied for the '{self.name}' dtype.\")\n", "", ['CHOKE'])
V('CHOKE_second_creator', ['C15'], 'dtypes.py', "            x = dtype_register.get_dtype(token, length, scale)\n            return x", "            x = Dtype._create(dtype_register.names[token], length, scale)\n            return x", ['CHOKE'], accept_analysis_error=True)
V('LV_setattr_no_lengthcheck', ['C15', 'C02'], 'bitarray_.py', "            if len(x) != dtype.bitlength:\n                raise CreationError(f\"Can't initialise with value of length {len(x)} bits, \"\n                                    f\"as attribute has length of {dtype.bitlength} bits.\")\n", "", ['LV'])
V('LV_token_no_lengthcheck', ['C15', 'C02'], 'bitstore_helpers.py', "    if token_length is not None and len(bs) != d.bitlength:\n        raise bitstring.CreationError(f\"Token with length {token_length} packed with value of length {len(bs)} \"\n                                      f\"({name}:{token_length}={value}).\")\n", "", ['LV'])
V('E4_setintle_accepts_zero', ['C15'], 'bits.py', "        if length is None or length == 0:\n            raise bitstring.CreationError(\"A non-zero length must be specified with an intle initialiser.\")", "        if length is None:\n            raise bitstring.CreationError(\"A non-zero length must be specified with an intle initialiser.\")", ['E4'])
V('E4_bfloat_any_length', ['C15'], 'bits.py', "        if length is not None and length != 16:\n            raise bitstring.CreationError(f\"bfloats must be length 16, received a length of {length} bits.\")\n        self._bitstore = bitstore_helpers.bfloat2bitstore(f, True)", "        self._bitstore = bitstore_helpers.bfloat2bitstore(f, True)", ['E4'])
V('H3_bool_two_bits', ['C15', 'C02'], '__init__.py', "                    allowed_lengths=(1,), description=\"a bool (True or False)\"),", "                    allowed_lengths=(1, 2), description=\"a bool (True or False)\"),", ['H3'])
V('H3_uintle_any_length', ['C15', 'C02'], '__init__.py', "    DtypeDefinition('uintle', Bits._setuintle, Bits._getuintle, int, False, uint_bits2chars,\n                    allowed_lengths=(8, 16, 24, ...),", "    DtypeDefinition('uintle', Bits._setuintle, Bits._getuintle, int, False, uint_bits2chars,\n                    allowed_lengths=(4, 8, 12, ...),", ['H3'])

# ------------------------------------------------------------------ C12 / mode
V('G2_slice_bypasses_mirror', ['C12'], 'bits.py', "        bs = self.__class__()\n        bs._bitstore = self._bitstore.getslice(start, end)\n        return bs", "        bs = self.__class__()\n        bs._bitstore = self._bitstore.getslice_msb0(start, end)\n        return bs", ['G2'])
V('G2_startswith_mixes', ['C12'], 'bits.py', "        return self._slice(start, start + len(prefix)) == prefix if end >= start + len(prefix) else False", "        return self._find_msb0(prefix, start, start + len(prefix), False) == (start,) if end >= start + len(prefix) else False", ['G2'])
V('G3_hash_switched_again', ['C12', 'C13'], 'bits.py', "            start_and_end = self._absolute_slice(0, 800) + self._absolute_slice(len(self) - 800, len(self))", "            start_and_end = self[:800] + self[-800:]", ['G3'])
V('G3_getuint_partial_slice', ['C12'], 'bits.py', "        return self._bitstore.slice_to_uint()", "        return self._bitstore.slice_to_uint(0, len(self))", ['G3'])
V('G3_tobytes_reads_mode', ['C12'], 'bits.py', "        return self._bitstore.tobytes()\n\n    def tobitarray", "        if bitstring.options.lsb0:\n            return self._bitstore.getslice(0, None).tobytes()\n        return self._bitstore.tobytes()\n\n    def tobitarray", ['G3'])
V('E8_setitem_lsb0_assumes_store', ['C12', 'C20'], 'bitstore.py', "            if isinstance(value, BitStore):\n                self._bitarray.__setitem__(new_slice, value._bitarray)\n            else:\n                self._bitarray.__setitem__(new_slice, value)", "            self._bitarray.__setitem__(new_slice, value._bitarray)", ['E8'])
V('N1_indices_assert_back', ['C12', 'C20'], 'bitstore.py', "    if s.step == 0:\n        raise ValueError(\"slice step cannot be zero\")\n", "    assert s.step < 0\n", ['N1'])
S('G_S_shift_bitstore', ['C12', 'C08', 'C04', 'C13'], 'bitstore.py', fn=shift_lines)

# ------------------------------------------------------------------ C02 / C19 / C17 misc
V('H4_setuintbe_signed', ['C02'], 'bits.py', "            raise bitstring.CreationError(\"A non-zero length must be specified with a uintbe initialiser.\")\n        self._bitstore = bitstore_helpers.int2bitstore(uintbe, length, False)", "            raise bitstring.CreationError(\"A non-zero length must be specified with a uintbe initialiser.\")\n        self._bitstore = bitstore_helpers.int2bitstore(uintbe, length, True)", ['H4'])
V('H4_getintle_no_reversal', ['C02', 'C18'], 'bits.py', "        bs = BitStore.frombytes(self._bitstore.tobytes()[::-1])\n        return bs.slice_to_int()", "        bs = BitStore.frombytes(self._bitstore.tobytes())\n        return bs.slice_to_int()", ['H4'])
V('H4_getintbe_unsigned', ['C02'], 'bits.py', "            raise bitstring.InterpretError(f\"Big-endian integers must be whole-byte. Length = {len(self)} bits.\")\n        return self._getint()", "            raise bitstring.InterpretError(f\"Big-endian integers must be whole-byte. Length = {len(self)} bits.\")\n        return self._getuint()", ['H4'])
V('H4_intle_double_reverse', ['C02', 'C18'], 'bitstore_helpers.py', "    x = int2bitstore(i, length, signed).tobytes()\n    return BitStore.frombytes(x[::-1])", "    x = int2bitstore(i, length, signed).tobytes()[::-1]\n    return BitStore.frombytes(x[::-1])", ['H4'])
V('H4_property_setter_swapped', ['C02'], 'dtypes.py', "            setattr(bitstring.bitarray_.BitArray, definition.name, property(fget=definition.get_fn, fset=definition.set_fn,", "            setattr(bitstring.bitarray_.BitArray, definition.name, property(fget=definition.get_fn, fset=definition.get_fn,", ['H4'])
V('H4_floatle_flag', ['C02', 'C18'], 'bits.py', "        self._setfloat(f, length, False)", "        self._setfloat(f, length, True)", ['H4'])
V('ESC_colour_leak', ['C19'], 'bits.py', "        x = colour_start + x + colour_end", "        x = colour_start + x + (colour_end or '\\033[0m')", ['ESC'])
V('ESC_colour_ignores_option', ['C19'], 'array_.py', "        colour = Colour(not options.no_color)", "        colour = Colour(True)", ['ESC'])
V('ESC_else_branch_keeps_off', ['C19'], 'bitstring_options.py', "            cls.blue = cls.purple = cls.green = cls.off = ''", "            cls.blue = cls.purple = cls.green = ''\n            cls.off = '\\033[0m'", ['ESC'])
V('POST_repr_drops_pos', ['C19', 'C06'], 'bitstream.py', "        return self._repr(self.__class__.__name__, len(self), self._pos)", "        return self._repr(self.__class__.__name__, len(self), 0)", ['POST'])
V('DELEG_array_tobytes_trailing', ['C17'], 'array_.py', "        return self.data.tobytes()", "        return self.data[:len(self) * self._dtype.bitlength].tobytes()", ['DELEG'])
V('DELEG_bytes_guard_removed', ['C17'], 'bits.py', "        if len(self) % 8:\n            raise bitstring.InterpretError(\"Cannot interpret as bytes unambiguously - not multiple of 8 bits.\")\n        return self._bitstore.tobytes()", "        return self._bitstore.tobytes()", ['DELEG'])
V('DELEG_tofile_writes_bytes_property', ['C17'], 'bits.py', "            f.write(chunk.tobytes())", "            f.write(chunk.bytes if len(chunk) % 8 == 0 else chunk.tobytes()[:-1])", ['DELEG'])


# ------------------------------------------------------------------ package-wide refactorings (must stay silent everywhere)
S('PKG_S_rename_validator', ALL, '*', pkg_fn=pkg_rename('_validate_slice', '_check_range'))
S('PKG_S_rename_promoter', ALL, '*', pkg_fn=pkg_rename('_create_from_bitstype', '_promote'))
S('PKG_S_rename_addright', ALL, '*', pkg_fn=pkg_rename('_addright', '_extend_right'))
S('PKG_S_rename_truncate', ALL, '*', pkg_fn=pkg_rename('bs', 'operand'))
S('PKG_S_reformat_all', ALL, '*', pkg_fn=pkg_shift)
S('E3_S_in_place_default', ['C07'], 'bits.py', "        ba = bitstring.options.bytealigned if bytealigned is None else bytealigned\n        p = self._find(bs, start, end, ba)", "        if bytealigned is None:\n            bytealigned = bitstring.options.bytealigned\n        p = self._find(bs, start, end, bytealigned)")
S('A_S_copy_via_local', ['C04', 'C16', 'C01'], 'bits.py', "        s = self._copy()\n        s._invert_all()\n        return s", "        result = self._copy()\n        result._invert_all()\n        return result")
S('POSW_S_chained_guard', ['C06', 'C20'], 'bitstream.py', "        if pos < 0 or pos > len(self._bitstore):\n            raise bitstring.CreationError", "        if not 0 <= pos <= len(self._bitstore):\n            raise bitstring.CreationError")
S('N_S_ternary_to_if', ['C20', 'C19'], 'bits.py', "        trailing_bit_length = len(self) % bits_per_group if has_length_in_fmt and bits_per_group else 0", "        trailing_bit_length = 0\n        if has_length_in_fmt and bits_per_group:\n            trailing_bit_length = len(self) % bits_per_group")
S('H_S_table_as_dict_call', ['C18'], 'utils.py', "PACK_CODE_SIZE: Dict[str, int] = {'b': 1, 'B': 1, 'h': 2, 'H': 2, 'l': 4, 'L': 4, 'i': 4, 'I': 4,\n                                  'q': 8, 'Q': 8, 'e': 2, 'f': 4, 'd': 8}", "PACK_CODE_SIZE: Dict[str, int] = {'q': 8, 'Q': 8, 'e': 2, 'f': 4, 'd': 8, 'b': 1, 'B': 1, 'h': 2, 'H': 2, 'l': 4, 'L': 4,\n                                  'i': 4, 'I': 4}")
S('PKG_S_rename_addleft', ALL, '*', pkg_fn=pkg_rename('_addleft', '_extend_left'))
S('PKG_S_rename_absolute_slice', ALL, '*', pkg_fn=pkg_rename('_absolute_slice', '_msb0_slice'))
S('PKG_S_rename_truncateleft', ALL, '*', pkg_fn=pkg_rename('_truncateleft', '_chop_left'))
S('PKG_S_rename_repr_helper', ALL, '*', pkg_fn=pkg_rename('_repr', '_make_repr'))
S('PKG_S_rename_setitem_helper', ALL, '*', pkg_fn=pkg_rename('_setitem_int', '_assign_bit'))
S('PKG_S_rename_readue', ALL, '*', pkg_fn=pkg_rename('_readue', '_decode_ue'))
V('OPT_fromfile_truthiness', ['C17'], 'array_.py', "        items_to_append = max_items if n is None else min(n, max_items)", "        items_to_append = min(n, max_items) if n else max_items", ['OPT'])
V('OPT_find_bytealigned_or', ['C07'], 'bits.py', "        ba = bitstring.options.bytealigned if bytealigned is None else bytealigned\n        p = self._find(bs, start, end, ba)", "        ba = bytealigned or bitstring.options.bytealigned\n        p = self._find(bs, start, end, ba)", ['OPT', 'E3'])
V('OPTDEP_getter_reads_bytealigned', ['C10', 'C02'], 'bits.py', "        if len(self) == 0:\n            raise bitstring.InterpretError(\"Cannot interpret a zero length bitstring as an integer.\")\n        return self._bitstore.slice_to_uint()", "        if len(self) == 0:\n            raise bitstring.InterpretError(\"Cannot interpret a zero length bitstring as an integer.\")\n        if bitstring.options.bytealigned and len(self) % 8:\n            raise bitstring.InterpretError(\"Not byte aligned.\")\n        return self._bitstore.slice_to_uint()", ['OPTDEP'])
V('EQ1_eq_via_tobytes', ['C13'], 'bits.py', "            return self._bitstore == Bits._create_from_bitstype(bs)._bitstore", "            return self.tobytes() == Bits._create_from_bitstype(bs).tobytes()", ['EQ1'])
V('J1_hash_raw_buffer', ['C13', 'C08'], 'bits.py', "            return hash((self.tobytes(), len(self)))", "            return hash((self._bitstore._bitarray.tobytes(), len(self)))", ['J1'])
V('B1_clear_in_place', ['C06', 'C20'], 'bitarray_.py', "        \"\"\"Remove all bits, reset to zero length.\"\"\"\n        self._clear()", "        \"\"\"Remove all bits, reset to zero length.\"\"\"\n        self._bitstore.clear()", ['B1'])
V('I_repr_token_in_bits', ['C14', 'C19'], 'array_.py', "        return f\"Array('{self._dtype}', {list_str}{final_str})\"", "        return f\"Array('{self._dtype.name}{self.itemsize}', {list_str}{final_str})\"", ['I'])
V('H5c_overflow_table_unused', ['C11'], 'bitstore_helpers.py', "    if bitstring.options.mxfp_overflow == 'saturate':\n        u = e4m3mxfp_saturate_fmt.float_to_int(f)\n    else:\n        u = e4m3mxfp_overflow_fmt.float_to_int(f)", "    u = e4m3mxfp_saturate_fmt.float_to_int(f)\n    if bitstring.options.mxfp_overflow != 'saturate' and abs(f) > 448.0:\n        u = e4m3mxfp_overflow_fmt.pos_clamp_value", ['H5c'])
V('A5_xor_self_shortcut', ['C16', 'C04'], 'bits.py', "        bs = Bits._create_from_bitstype(bs)\n        s = object.__new__(self.__class__)\n        s._bitstore = self._bitstore ^ bs._bitstore", "        if bs is self:\n            s = self.copy()\n            s._bitstore.setall(0)\n            return s\n        bs = Bits._create_from_bitstype(bs)\n        s = object.__new__(self.__class__)\n        s._bitstore = self._bitstore ^ bs._bitstore", ['A5'])
V('E10_extend_ignores_byte_order', ['C18'], 'array_.py', "            if self._dtype.name != other_dtype.name or self._dtype.bitlength != other_dtype.bitlength:", "            if self._dtype.return_type != other_dtype.return_type or self._dtype.is_signed != other_dtype.is_signed or self._dtype.bitlength != other_dtype.bitlength:", ['E10'])
V('F2_alias_of_cached_list', ['C09', 'C02', 'C15'], 'methods.py', "            _, tkns = tokenparser(f_item, tuple(sorted(kwargs.keys())))\n            tokens.extend(tkns)", "            _, tkns = tokenparser(f_item, tuple(sorted(kwargs.keys())))\n            if tokens:\n                tokens.extend(tkns)\n            else:\n                tokens = tkns", ['F2'])
V('A6_tobitarray_readonly_alias', ['C04', 'C08'], 'bits.py', "            return self._bitstore._bitarray.copy()", "            ba = self._bitstore._bitarray\n            return ba if ba.readonly else ba.copy()", ['A6'])
V('A7_bytesio_read', ['C08', 'C13'], 'bits.py', "            self._bitstore = BitStore.frombytes(s.getvalue())\n        elif isinstance(s, io.BufferedReader):", "            self._bitstore = BitStore.frombytes(s.read())\n        elif isinstance(s, io.BufferedReader):", ['A7'])

# ------------------------------------------------------------------ C05 / PK
V('PK_too_many_ignored', ['C05'], 'methods.py', "    raise CreationError(f\"Too many parameters present to pack according to the format. Only {len(tokens)} values were expected.\")", "    s = BitStream()\n    for b in bsl:\n        s._bitstore += b\n    return s", ['PK'])
V('PK_too_few_pads', ['C05'], 'methods.py', "    except StopIteration:\n        raise CreationError(f\"Not enough parameters present to pack according to the \"\n                            f\"format. {len(tokens)} values are needed.\")", "    except StopIteration:\n        pass", ['PK'])
V('PK_parse_error_not_converted', ['C05', 'C20'], 'methods.py', "    except ValueError as e:\n        raise CreationError(*e.args)\n    value_iter", "    except KeyError as e:\n        raise CreationError(*e.args)\n    value_iter", ['PK'])
V('PK_reverse_unconditional', ['C05', 'C12'], 'methods.py', "        if bitstring.options.lsb0:\n            bsl.reverse()", "        bsl.reverse()", ['PK'])
V('PK_string_route_own_builder', ['C05'], 'bitstore_helpers.py', "    for token in tokens:\n        bs += bitstore_from_token(*token)\n    bs.immutable = True", "    for name, length, value in tokens:\n        bs += literal_bit_funcs[name](value) if name in literal_bit_funcs else bitstring.dtypes.Dtype(name, length).build(value)._bitstore\n    bs.immutable = True", ['PK'])
V('PK_readlist_own_split', ['C05'], 'bits.py', "                token_list = utils.preprocess_tokens(f_item)\n                for t in token_list:", "                token_list = [t.strip() for t in f_item.split(',')]\n                for t in token_list:", ['PK'])
V('H4_struct_fastpath_sign_typo', ['C02', 'C18'], 'bits.py', "    def _getintle(self) -> int:\n        \"\"\"Interpret as a little-endian signed int.\"\"\"", "    def _getintle(self) -> int:\n        \"\"\"Interpret as a little-endian signed int.\"\"\"\n        if len(self) == 32:\n            return struct.unpack('<I', self._bitstore.tobytes())[0]", ['H4'])
S('PK_S_rename_value_iter', ['C05'], 'methods.py', fn=rename_local('value_iter', 'remaining_values'))
V('N5_literal_funcs_unguarded', ['C20'], 'bitstore_helpers.py', "    if name in literal_bit_funcs:\n        return literal_bit_funcs[name](value)", "    if name.startswith('0'):\n        return literal_bit_funcs[name](value)", ['N5'])
V('N5_register_no_handler', ['C20'], 'dtypes.py', "        try:\n            definition = cls.names[name]\n        except KeyError:\n            raise ValueError(f\"Unknown Dtype name '{name}'. Names available: {list(cls.names.keys())}.\")\n        else:\n            return definition.get_dtype(length, scale)", "        definition = cls.names[name]\n        return definition.get_dtype(length, scale)", ['N5'])
V('N5_new_table_lookup', ['C20'], 'bits.py', "                bits_per_group = {'bin': 8, 'hex': 8, 'oct': 12, 'bytes': 32}.get(dtype1.name)", "                bits_per_group = {'bin': 8, 'hex': 8, 'oct': 12, 'bytes': 32}[dtype1.name]", ['N5'])
V('NOMOVE_ror_public_mutators', ['C06'], 'bitarray_.py', "        rhs = self._slice(end - bits, end)\n        self._delete(bits, end - bits)\n        self._insert(rhs, start)", "        rhs = self._slice(end - bits, end)\n        del self[end - bits:end]\n        self.insert(rhs, start)", ['NOMOVE'])
V('NOMOVE_count_seeks', ['C06'], 'bitstream.py', "    def __repr__(self) -> str:\n", "    def count(self, value: Any) -> int:\n        self._setbitpos(0)\n        return super().count(value)\n\n    def __repr__(self) -> str:\n", ['NOMOVE'])
V('B1_property_path_no_pos', ['C06', 'C20'], 'bitstream.py', "        length_before = len(self)\n        super().__setattr__(attribute, value)\n        if len(self) != length_before:\n            self._pos = 0\n\n    def __setitem__", "        super().__setattr__(attribute, value)\n\n    def __setitem__", ['B1'])
V('N1_generator_option_assert', ['C20', 'C12'], 'bits.py', "                      bytealigned: bool) -> Iterable[int]:\n        assert start <= end\n\n        new_slice", "                      bytealigned: bool) -> Iterable[int]:\n        assert start <= end\n        assert bitstring.options.lsb0\n\n        new_slice", ['N1'])
V('IDX_insert_no_normalisation', ['C14'], 'array_.py', "        if i < 0:\n            i = max(i + len(self), 0)  # Negative positions count items from the end, like a list\n", "", ['IDX'])
V('IDX_getitem_no_normalisation', ['C14'], 'array_.py', "            if key < 0:\n                key += len(self)\n            if key < 0 or key >= len(self):\n                raise IndexError(f\"Index {key} out of range for Array of length {len(self)}.\")\n            return self._dtype.read_fn", "            if key >= len(self):\n                raise IndexError(f\"Index {key} out of range for Array of length {len(self)}.\")\n            return self._dtype.read_fn", ['IDX'])
V('TY1_count_isnan_any_value', ['C14'], 'array_.py', "        if isinstance(value, float) and math.isnan(value):", "        if math.isnan(value):", ['TY1'])
V('D5_join_next_unguarded', ['C20'], 'bits.py', "            try:\n                s._addright(Bits._create_from_bitstype(next(sequence_iter)))\n            except StopIteration:\n                return s", "            s._addright(Bits._create_from_bitstype(next(sequence_iter)))", ['D5'])
V('D5_float_pack_unguarded', ['C20', 'C18'], 'bitstore_helpers.py', "    try:\n        b = struct.pack(fmt, f)\n    except OverflowError:\n        # If float64 doesn't fit it automatically goes to 'inf'. This reproduces that behaviour for other types.\n        b = struct.pack(fmt, float('inf') if f > 0 else float('-inf'))\n    return BitStore.frombytes(b)", "    b = struct.pack(fmt, f)\n    return BitStore.frombytes(b)", ['D5'])
S('REF_S_guard_into_validator', ['C03', 'C06', 'C20', 'C16'], 'bitarray_.py', "        if pos < 0:\n            pos += len(self)\n        if not 0 <= pos <= len(self):\n            raise ValueError(\"Invalid insert position.\")\n        self._insert(bs, pos)\n\n    def overwrite",
  "        pos = self._checked_position(pos)\n        self._insert(bs, pos)\n\n    def _checked_position(self, pos: int) -> int:\n        if pos < 0:\n            pos += len(self)\n        if not 0 <= pos <= len(self):\n            raise ValueError(\"Invalid insert position.\")\n        return pos\n\n    def overwrite")
S('REF_S_len_property_in_guard', ['C03', 'C20'], 'bitarray_.py', "        if pos < 0 or pos > len(self):\n            raise ValueError(\"Overwrite starts outside boundary of bitstring.\")", "        if pos < 0 or pos > self.len:\n            raise ValueError(\"Overwrite starts outside boundary of bitstring.\")")
def _validator_refactor(filename, src):
    if filename == 'bitstream.py':
        return src.replace("        if pos < 0:\n            pos += len(self)\n        if not 0 <= pos <= len(self):\n            raise ValueError(\"Invalid insert position.\")\n        self._insert(bs, pos)\n        self._pos = pos + len(bs)",
                           "        pos = self._checked_position(pos)\n        self._insert(bs, pos)\n        self._pos = pos + len(bs)")
    if filename == 'bitarray_.py':
        return src.replace("        if pos < 0:\n            pos += len(self)\n        if not 0 <= pos <= len(self):\n            raise ValueError(\"Invalid insert position.\")\n        self._insert(bs, pos)\n\n    def overwrite",
                           "        pos = self._checked_position(pos)\n        self._insert(bs, pos)\n\n    def _checked_position(self, pos: int) -> int:\n        if pos < 0:\n            pos += len(self)\n        if not 0 <= pos <= len(self):\n            raise ValueError(\"Invalid insert position.\")\n        return pos\n\n    def overwrite")
    return None


S('REF_S_stream_guard_into_validator', ['C06', 'C20', 'C03', 'C16'], '*', pkg_fn=_validator_refactor)
S('REF_S_elif_chain', ['C07', 'C06'], 'bitstream.py', "        if pos < 0:\n            raise ValueError(\"Bit position cannot be negative.\")\n        if pos > len(self):\n            raise ValueError(\"Cannot seek past the end of the data.\")", "        if pos < 0:\n            raise ValueError(\"Bit position cannot be negative.\")\n        elif pos > len(self):\n            raise ValueError(\"Cannot seek past the end of the data.\")")

def _claim_helper(filename, src):
    claim = "        if self._bitstore.immutable:\n            self._bitstore = self._bitstore._copy()\n            self._bitstore.immutable = False\n"
    if filename == 'bitarray_.py':
        return src.replace(claim + "\n    def copy(", "        self._claim_store()\n\n    def _claim_store(self) -> None:\n" + claim + "\n    def copy(")
    if filename == 'bitstream.py':
        return src.replace(claim + "\n    def __copy__(self) -> BitStream:", "        self._claim_store()\n\n    def __copy__(self) -> BitStream:")
    return None


S('REF_S_claim_in_helper', ['C04', 'C16', 'C08', 'C01', 'C09'], '*', pkg_fn=_claim_helper)
S('REF_S_claim_inline_copy', ['C04'], 'bitarray_.py', "        if self._bitstore.immutable:\n            self._bitstore = self._bitstore._copy()\n            self._bitstore.immutable = False\n\n    def copy(", "        if self._bitstore.immutable:\n            self._bitstore = self._bitstore.getslice_msb0(None, None)\n            self._bitstore.immutable = False\n\n    def copy(")
S('B1_S_new_length_preserving_mutator', ['C06', 'C20', 'C03'], 'bitarray_.py', "    def clear(self) -> None:\n        \"\"\"Remove all bits, reset to zero length.\"\"\"", "    def fill(self, value: Any) -> None:\n        \"\"\"Set every bit to bool(value).\"\"\"\n        self._bitstore.setall(1 if value else 0)\n\n    def clear(self) -> None:\n        \"\"\"Remove all bits, reset to zero length.\"\"\"")
S('N4_S_new_option', ['C09', 'C20'], 'bitstring_options.py', "    @property\n    def bytealigned(self) -> bool:\n        return self._bytealigned\n", "    @property\n    def strict(self) -> bool:\n        return self._strict\n\n    @strict.setter\n    def strict(self, value: bool) -> None:\n        self._strict = bool(value)\n\n    @property\n    def bytealigned(self) -> bool:\n        return self._bytealigned\n")
V('G5_stream_prepend_bypasses_slot', ['C12'], 'bitstream.py', "        bs = Bits._create_from_bitstype(bs)\n        super().prepend(bs)\n        self._pos = 0", "        bs = Bits._create_from_bitstype(bs)\n        self._addleft(bs)\n        self._pos = 0", ['G5'])
V('G5_variant_reenters_slot', ['C12', 'C03'], 'bitarray_.py', "        bits %= (end - start)\n        if not bits:\n            return\n        rhs = self._slice(end - bits, end)", "        bits %= (end - start)\n        if not bits:\n            return\n        if bits > (end - start) // 2:\n            self._rol(end - start - bits, start, end)\n            return\n        rhs = self._slice(end - bits, end)", ['G5'])
V('G5_append_direct', ['C12'], 'bitarray_.py', "        self._append(bs)\n\n    def prepend", "        self._addright(self._create_from_bitstype(bs))\n\n    def prepend", ['G5'])
V('ITER1_try_then_fallback', ['C08'], 'bits.py', "            self._setbin_unsafe(''.join(str(int(bool(x))) for x in s))", "            try:\n                self._bitstore = BitStore(bitarray.bitarray(s))\n            except (TypeError, ValueError):\n                self._setbin_unsafe(''.join(str(int(bool(x))) for x in s))", ['ITER1'])
V('F5_cache_untyped_again', ['C09', 'C02'], 'dtypes.py', "    @classmethod\n    @functools.lru_cache(CACHE_SIZE, typed=True)\n    def _create(", "    @classmethod\n    @functools.lru_cache(CACHE_SIZE)\n    def _create(", ['F5'])
V('F5_float_memo', ['C09', 'C02'], 'bitstore_helpers.py', "def float2bitstore(f: Union[str, float], length: int, big_endian: bool) -> BitStore:\n    f = float(f)", "@functools.lru_cache(CACHE_SIZE)\ndef _packed_float(f: float, fmt: str) -> bytes:\n    return struct.pack(fmt, f)\n\n\ndef float2bitstore(f: Union[str, float], length: int, big_endian: bool) -> BitStore:\n    f = float(f)", ['F5'])
V('A8_ior_skips_zero_operand', ['C16'], 'bitstore.py', "        self._bitarray |= other._bitarray\n        return self", "        if other._bitarray.any():\n            self._bitarray |= other._bitarray\n        return self", ['A8'])
V('F2_container_of_cached_lists', ['C09', 'C05'], 'methods.py', "        for f_item in fmt:\n            _, tkns = tokenparser(f_item, tuple(sorted(kwargs.keys())))\n            tokens.extend(tkns)", "        token_lists = [tokenparser(f_item, tuple(sorted(kwargs.keys())))[1] for f_item in fmt]\n        tokens = token_lists[0] if token_lists else []\n        for tkns in token_lists[1:]:\n            tokens.extend(tkns)", ['F2'])
V('A10_ctor_from_shared', ['C16', 'C04'], 'bits.py', "        s = self.__class__(length=min(n, len(self)))\n        n = min(n, len(self))", "        n = min(n, len(self))\n        s = self.__class__(Bits(n))", ['A10'])

# ---- RNG
_RNG_NEW = """            if len(pos) == 0:
                return
            lo, hi = min(pos[0], pos[-1]), max(pos[0], pos[-1])
            if 0 <= lo and hi < len(self):
                # Only non-negative, in-range positions can be expressed as a slice.
                self._bitstore.__setitem__(slice(lo, hi + 1, abs(pos.step)), v)
                return
"""
V('RNG_raw_range_bounds', ['C03'], 'bitarray_.py', _RNG_NEW, "            self._bitstore.__setitem__(slice(pos.start, pos.stop, pos.step), v)\n            return\n", ['RNG'])
V('RNG_raw_stop_only', ['C03'], 'bitarray_.py', "slice(lo, hi + 1, abs(pos.step))", "slice(lo, pos.stop, abs(pos.step))", ['RNG'])
S('RNG_guarded_raw_bounds', ['C03'], 'bitarray_.py', _RNG_NEW,
  "            if pos.step > 0 and 0 <= pos.start and pos.stop <= len(self):\n                self._bitstore.__setitem__(slice(pos.start, pos.stop, pos.step), v)\n                return\n")
S('RNG_no_fast_path', ['C03'], 'bitarray_.py', "        if isinstance(pos, range):\n" + _RNG_NEW, "")

# ---- INTEX
V('INTEX_log2_prefix', ['C10', 'C02'], 'bitstore_helpers.py', "    tmp = i + 1\n    leadingzeros = -1\n    while tmp > 0:\n        tmp >>= 1\n        leadingzeros += 1\n",
  "    leadingzeros = int(math.log2(i + 1))\n", ['INTEX'])
V('INTEX_true_division', ['C10', 'C02'], 'bitstore_helpers.py', "    tmp = i + 1\n    leadingzeros = -1\n    while tmp > 0:\n        tmp >>= 1\n        leadingzeros += 1\n",
  "    tmp = i + 1\n    leadingzeros = -1\n    while tmp > 0:\n        tmp = int(tmp / 2)\n        leadingzeros += 1\n", ['INTEX'])
S('INTEX_bit_length', ['C10', 'C02'], 'bitstore_helpers.py', "    tmp = i + 1\n    leadingzeros = -1\n    while tmp > 0:\n        tmp >>= 1\n        leadingzeros += 1\n",
  "    leadingzeros = (i + 1).bit_length() - 1\n")
S('INTEX_floor_division', ['C10', 'C02'], 'bitstore_helpers.py', "        tmp >>= 1\n        leadingzeros += 1\n", "        tmp //= 2\n        leadingzeros += 1\n")

# ---- IDX1 / SLN
V('IDX1_raw_key_window', ['C03', 'C01', 'C12'], 'bitarray_.py', "        self._bitstore[positive_key: positive_key + 1] = value._bitstore",
  "        self._bitstore[key: key + 1] = value._bitstore", ['IDX1'])
V('IDX1_delitem_lsb0_window', ['C12', 'C03', 'C01'], 'bitstore.py', "            self._bitarray.__delitem__(-key - 1)\n",
  "            key = -key - 1\n            self._bitarray.__delitem__(slice(key, key + 1))\n", ['IDX1'])
S('IDX1_rename_positive_key', ['C03', 'C01', 'C12'], 'bitarray_.py', fn=rename_local('positive_key', 'pk'))
S('IDX1_direct_index', ['C03', 'C01', 'C12'], 'bitarray_.py', "        positive_key = key + len(self) if key < 0 else key\n        if positive_key < 0 or positive_key >= len(self._bitstore):\n            raise IndexError(f\"Bit position {key} out of range.\")\n        self._bitstore[positive_key: positive_key + 1] = value._bitstore",
  "        if key < 0:\n            key += len(self)\n        if key < 0 or key >= len(self._bitstore):\n            raise IndexError(f\"Bit position {key} out of range.\")\n        self._bitstore[key: key + 1] = value._bitstore")
V('SLN_reverse_fast_path', ['C01', 'C12'], 'bitstore.py', "            key = slice(*key.indices(self.modified_length))\n        return BitStore(self._bitarray.__getitem__(key))",
  "            key = slice(*key.indices(self.modified_length))\n        if key.step == -1:\n            first = len(self._bitarray) - 1 if key.start is None else key.start\n            last = -1 if key.stop is None else key.stop\n            ba = self._bitarray[last + 1:first + 1]\n            ba.reverse()\n            return BitStore(ba)\n        return BitStore(self._bitarray.__getitem__(key))", ['SLN'])
S('SLN_reverse_fast_path_normalised', ['C01', 'C12'], 'bitstore.py', "            key = slice(*key.indices(self.modified_length))\n        return BitStore(self._bitarray.__getitem__(key))",
  "            key = slice(*key.indices(self.modified_length))\n        if key.step == -1:\n            first, last, _ = key.indices(len(self._bitarray))\n            ba = self._bitarray[last + 1:first + 1]\n            ba.reverse()\n            return BitStore(ba)\n        return BitStore(self._bitarray.__getitem__(key))")

# ---- LZ
V('LZ_bin_via_int', ['C19'], 'bitstore.py', "        return self.getslice(start, end)._bitarray.to01()",
  "        s = self.getslice(start, end)\n        return format(s.slice_to_uint(), 'b') if len(s) else ''", ['LZ'])
V('LZ_hex_via_hex', ['C19'], 'bitstore.py', "        return bitarray.util.ba2hex(self.getslice(start, end)._bitarray)",
  "        s = self.getslice(start, end)\n        return hex(s.slice_to_uint())[2:] if len(s) else ''", ['LZ'])
S('LZ_bin_via_int_padded', ['C19'], 'bitstore.py', "        return self.getslice(start, end)._bitarray.to01()",
  "        s = self.getslice(start, end)\n        return format(s.slice_to_uint(), f'0{len(s)}b') if len(s) else ''")

# ---- H4: le wrapper forwards parameters
V('H4_le_wrapper_rebinds_signed', ['C15', 'C02', 'C18'], 'bitstore_helpers.py', "    x = int2bitstore(i, length, signed).tobytes()\n    return BitStore.frombytes(x[::-1])",
  "    i = int(i)\n    if signed and i < 0:\n        i += 1 << length\n        signed = False\n    x = int2bitstore(i, length, signed).tobytes()\n    return BitStore.frombytes(x[::-1])", ['H4'])
S('H4_le_wrapper_coerces', ['C15', 'C02', 'C18'], 'bitstore_helpers.py', "    x = int2bitstore(i, length, signed).tobytes()\n    return BitStore.frombytes(x[::-1])",
  "    i = int(i)\n    x = int2bitstore(i, length, signed).tobytes()\n    return BitStore.frombytes(x[::-1])")

# ---- WIN
V('WIN_bytesio_guard_forgets_byteoffset', ['C15', 'C17'], 'bits.py', "            if length + byteoffset * 8 + offset > s.seek(0, 2) * 8:", "            if length + offset > s.seek(0, 2) * 8:", ['WIN'])
V('WIN_bytesio_short_byte_slice', ['C15', 'C17'], 'bits.py', "            bytelength = (length + byteoffset * 8 + offset + 7) // 8 - byteoffset", "            bytelength = (length + 7) // 8", ['WIN'])
V('WIN_bitarray_guard_forgets_offset', ['C15', 'C17'], 'bits.py', "            if offset + length > len(ba):", "            if length > len(ba):", ['WIN'])
V('WIN_bytes_guard_in_bytes', ['C15', 'C17'], 'bits.py', "            if length + offset > len(data) * 8:", "            if length + offset > len(data):", ['WIN'])
S('WIN_bytesio_guard_reordered', ['C15', 'C17'], 'bits.py', "            if length + byteoffset * 8 + offset > s.seek(0, 2) * 8:", "            if s.seek(0, 2) * 8 < offset + 8 * byteoffset + length:")
S('WIN_bytesio_bytelength_simplified', ['C15', 'C17'], 'bits.py', "            bytelength = (length + byteoffset * 8 + offset + 7) // 8 - byteoffset", "            bytelength = (length + offset + 7) // 8")

# ---- H5c: e8m0 exact membership
_E8_OLD = "    try:\n        i = e8m0mxfp_allowed_values.index(f)\n    except ValueError:\n        raise ValueError("
V('H5c_e8m0_log2_membership', ['C11'], 'bitstore_helpers.py', _E8_OLD,
  "    try:\n        exponent = math.log2(f)\n        if not exponent.is_integer() or not -127 <= exponent <= 127:\n            raise ValueError\n        i = int(exponent) + 127\n    except (ValueError, OverflowError):\n        raise ValueError(", ['H5c'])
S('H5c_e8m0_log2_with_exact_check', ['C11'], 'bitstore_helpers.py', _E8_OLD,
  "    try:\n        if f <= 0 or math.isinf(f):\n            raise ValueError\n        k = round(math.log2(f))\n        if not -127 <= k <= 127 or 2.0 ** k != f:\n            raise ValueError\n        i = k + 127\n    except ValueError:\n        raise ValueError(")

# ---- MIRROR
V('MIRROR_delitem_hand_slice', ['C12'], 'bitstore.py', "            new_slice = offset_slice_indices_lsb0(key, len(self))\n            self._bitarray.__delitem__(new_slice)",
  "            if key.step is None or key.step > 0:\n                length = len(self)\n                start, stop, _ = key.indices(length)\n                self._bitarray.__delitem__(slice(length - stop, length - start, key.step))\n                return\n            new_slice = offset_slice_indices_lsb0(key, len(self))\n            self._bitarray.__delitem__(new_slice)", ['MIRROR'])
V('MIRROR_getslice_hand_bounds', ['C12'], 'bitstore.py', "        s = offset_slice_indices_lsb0(slice(start, stop, None), len(self))\n        return BitStore(self._bitarray[s.start:s.stop])",
  "        start, stop, _ = slice(start, stop, None).indices(len(self))\n        return BitStore(self._bitarray[len(self) - stop:len(self) - start])", ['MIRROR'])
V('MIRROR_index_off_by_one', ['C12'], 'bitstore.py', "        return bool(self._bitarray.__getitem__(-index - 1))", "        return bool(self._bitarray.__getitem__(-index))", ['MIRROR'])
S('MIRROR_rename_new_slice', ['C12'], 'bitstore.py', fn=rename_local('new_slice', 'mirrored_key'))
S('MIRROR_getslice_whole_mirrored', ['C12'], 'bitstore.py', "        return BitStore(self._bitarray[s.start:s.stop])", "        return BitStore(self._bitarray[s])")

# ---- XDT
V('XDT_extend_ignores_scale', ['C14', 'C15'], 'array_.py', "self._dtype.bitlength != iterable._dtype.bitlength \\\n                    or self._dtype.scale != iterable._dtype.scale:",
  "self._dtype.bitlength != iterable._dtype.bitlength:", ['XDT'])
V('XDT_equals_ignores_scale', ['C14', 'C15'], 'array_.py', "            if self._dtype.scale != other._dtype.scale:\n                return False\n", "", ['XDT'])
V('XDT_array_route_ignores_scale', ['C14', 'C15'], 'array_.py', "            if self._dtype.scale is None:\n                self.data += iterable.tobytes()\n            else:\n                # With a scale the stored items are not the raw values, so each one has to be encoded.\n                self.extend(iterable.tolist())",
  "            self.data += iterable.tobytes()", ['XDT'])
V('XDT_setitem_splice_by_dtype_eq', ['C14', 'C15'], 'array_.py', "                new_data = BitArray()\n                for x in value:\n                    new_data += self._create_element(x)\n                self.data[start * self._dtype.bitlength",
  "                if isinstance(value, Array) and value._dtype == self._dtype:\n                    new_data = value.data[:len(value) * self._dtype.bitlength]\n                else:\n                    new_data = BitArray()\n                    for x in value:\n                        new_data += self._create_element(x)\n                self.data[start * self._dtype.bitlength", ['XDT'])
S('XDT_setitem_splice_full_test', ['C14', 'C15'], 'array_.py', "                new_data = BitArray()\n                for x in value:\n                    new_data += self._create_element(x)\n                self.data[start * self._dtype.bitlength",
  "                if isinstance(value, Array) and value._dtype.name == self._dtype.name and value._dtype.bitlength == self._dtype.bitlength and value._dtype.scale == self._dtype.scale:\n                    new_data = value.data[:len(value) * self._dtype.bitlength]\n                else:\n                    new_data = BitArray()\n                    for x in value:\n                        new_data += self._create_element(x)\n                self.data[start * self._dtype.bitlength")
S('XDT_equals_reordered', ['C14', 'C15'], 'array_.py', "            if self._dtype.scale != other._dtype.scale:\n                return False\n            if self.data != other.data:\n                return False\n            return True",
  "            return other._dtype.scale == self._dtype.scale and self.data == other.data")


# ---- setters merged into a shared helper (H4/E4 look through one level of delegation)
def _setle_refactor(keep_zero_check):
    def fn(src):
        a = ("    def _setuintle(self, uintle: int, length: Optional[int] = None) -> None:\n"
             "        if length is None and hasattr(self, 'len') and len(self) != 0:\n            length = len(self)\n"
             "        if length is None or length == 0:\n"
             "            raise bitstring.CreationError(\"A non-zero length must be specified with a uintle initialiser.\")\n"
             "        self._bitstore = bitstore_helpers.intle2bitstore(uintle, length, False)\n")
        b = ("    def _setintle(self, intle: int, length: Optional[int] = None) -> None:\n"
             "        if length is None and hasattr(self, 'len') and len(self) != 0:\n            length = len(self)\n"
             "        if length is None or length == 0:\n"
             "            raise bitstring.CreationError(\"A non-zero length must be specified with an intle initialiser.\")\n"
             "        self._bitstore = bitstore_helpers.intle2bitstore(intle, length, True)\n")
        if src.count(a) != 1 or src.count(b) != 1:
            return None
        test = "length is None or length == 0" if keep_zero_check else "length is None"
        helper = ("    def _setle(self, i: int, length: Optional[int], signed: bool) -> None:\n"
                  "        if length is None and hasattr(self, 'len') and len(self) != 0:\n            length = len(self)\n"
                  f"        if {test}:\n"
                  "            raise bitstring.CreationError(\"A non-zero length must be specified with an intle/uintle initialiser.\")\n"
                  "        self._bitstore = bitstore_helpers.intle2bitstore(i, length, signed)\n\n"
                  "    def _setuintle(self, uintle: int, length: Optional[int] = None) -> None:\n        self._setle(uintle, length, False)\n")
        src = src.replace(a, helper)
        return src.replace(b, "    def _setintle(self, intle: int, length: Optional[int] = None) -> None:\n        self._setle(intle, length, True)\n")
    return fn


S('H4_S_le_setters_share_helper', ['C02', 'C15', 'C18', 'C04', 'C09', 'C20'], 'bits.py', fn=_setle_refactor(True))
V('E4_le_helper_drops_zero_check', ['C15'], 'bits.py', fn=_setle_refactor(False), expect=['E4'])

# ---- D2: non-raising inspection in a decoder
_SIE_OLD = "        try:\n            return (-codenum, pos + 1) if self[pos] else (codenum, pos + 1)\n        except IndexError:\n            raise bitstring.ReadError(\"Read off end of bitstring trying to read code.\")"
V('D2_sie_sign_by_startswith', ['C10', 'C06'], 'bits.py', _SIE_OLD, "        return (-codenum, pos + 1) if self.startswith('0b1', pos) else (codenum, pos + 1)", ['D2'])
S('D2_sie_sign_by_startswith_guarded', ['C10', 'C06'], 'bits.py', _SIE_OLD,
  "        if pos >= len(self):\n            raise bitstring.ReadError(\"Read off end of bitstring trying to read code.\")\n        return (-codenum, pos + 1) if self.startswith('0b1', pos) else (codenum, pos + 1)")

# ---- MEMO
V('MEMO_array_bytes_per_item_stale', ['C14', 'C18', 'C09'], 'array_.py', "        self._dtype = dtype\n\n    def _create_element",
  "        self._dtype = dtype\n\n    def _item_bytes(self):\n        if getattr(self, '_bytes_per_item', None) is None:\n            self._bytes_per_item = self._dtype.bitlength // 8\n        return self._bytes_per_item\n\n    def _create_element", ['MEMO'])
S('MEMO_array_bytes_per_item_refreshed', ['C14', 'C18', 'C09'], 'array_.py', "        self._dtype = dtype\n\n    def _create_element",
  "        self._dtype = dtype\n        self._bytes_per_item = None\n\n    def _item_bytes(self):\n        if getattr(self, '_bytes_per_item', None) is None:\n            self._bytes_per_item = self._dtype.bitlength // 8\n        return self._bytes_per_item\n\n    def _create_element")
S('MEMO_array_plain_extra_state', ['C14', 'C18', 'C09'], 'array_.py', "        self._dtype = dtype\n\n    def _create_element",
  "        self._dtype = dtype\n        self._label = None\n\n    def _create_element")

# ---- ESC: cached Colour instances
V('ESC_colour_instance_cache', ['C19'], 'bitstring_options.py', "        x = super().__new__(cls)\n        if use_colour:",
  "        try:\n            return cls._instances[use_colour]\n        except (AttributeError, KeyError):\n            pass\n        x = super().__new__(cls)\n        cls._instances = {**getattr(cls, '_instances', {}), use_colour: x}\n        if use_colour:", ['ESC'])
S('ESC_colour_rename_local', ['C19'], 'bitstring_options.py', "        x = super().__new__(cls)\n        if use_colour:", "        colour = x = super().__new__(cls)\n        if use_colour:")

# ---- H1: endian selection written as a table
_EC_OLD = "        endian = m.group('endian')\n        f = m.group('fmt')\n        if endian == '>':\n            fmt = REPLACEMENTS_BE[f]\n        elif endian == '<':\n            fmt = REPLACEMENTS_LE[f]\n        else:\n            assert endian in '=@'\n            fmt = REPLACEMENTS_NE[f]\n        return parse_name_length_token(fmt)"
V('H1_endian_table_default_be', ['C18', 'C05'], 'utils.py', _EC_OLD,
  "        replacements = {'>': REPLACEMENTS_BE, '<': REPLACEMENTS_LE, '=': REPLACEMENTS_NE}.get(m.group('endian'), REPLACEMENTS_BE)\n        return parse_name_length_token(replacements[m.group('fmt')])", ['H1'])
S('H1_endian_table_complete', ['C18', 'C05'], 'utils.py', _EC_OLD,
  "        replacements = {'>': REPLACEMENTS_BE, '<': REPLACEMENTS_LE, '=': REPLACEMENTS_NE, '@': REPLACEMENTS_NE}[m.group('endian')]\n        return parse_name_length_token(replacements[m.group('fmt')])")


# ---- extract-function refactoring of a function named in the reason tables (reasons follow the moved constructs)
def _extract_struct_tokens(src):
    old = ("    endian = m.group('endian')\n    # Split the format string into a list of 'q', '4h' etc.\n"
           "    formatlist = re.findall(STRUCT_SPLIT_RE, m.group('fmt'))")
    new = ("    return list(_struct_tokens(m.group('endian'), m.group('fmt')))\n\n\n@functools.lru_cache(CACHE_SIZE)\n"
           "def _struct_tokens(endian: str, fmt: str) -> List[str]:\n    # Split the format string into a list of 'q', '4h' etc.\n"
           "    formatlist = re.findall(STRUCT_SPLIT_RE, fmt)")
    return src.replace(old, new) if src.count(old) == 1 else None


S('PKG_S_extract_struct_tokens_helper', ALL + ['C05'], 'utils.py', fn=_extract_struct_tokens)

# ---- SCALE
V('SCALE_read_relooks_up_dtype', ['C11', 'C02', 'C06'], 'bitstream.py', "            val = dtype.read_fn(self, self._pos)\n            self._pos += dtype.bitlength",
  "            val, self._pos = self._readtoken(dtype.name, self._pos, dtype.length)", ['SCALE'])
S('SCALE_read_relooks_up_unscaled_only', ['C11', 'C02', 'C06'], 'bitstream.py', "            val = dtype.read_fn(self, self._pos)\n            self._pos += dtype.bitlength",
  "            if dtype.scale is None:\n                val, self._pos = self._readtoken(dtype.name, self._pos, dtype.length)\n            else:\n                val = dtype.read_fn(self, self._pos)\n                self._pos += dtype.bitlength")

# ---- BYTEWIN
V('BYTEWIN_end_rounded_up', ['C07'], 'bitstore.py', "            end_byte = end // 8\n", "            end_byte = (end + 7) // 8\n", ['BYTEWIN'])
V('BYTEWIN_start_rounded_down', ['C07'], 'bitstore.py', "            start_byte = (start + 7) // 8\n", "            start_byte = start // 8\n", ['BYTEWIN'])
V('BYTEWIN_raw_end', ['C07'], 'bitstore.py', "            b = self._bitarray[start_byte * 8: end_byte * 8].tobytes()", "            b = self._bitarray[start_byte * 8: end].tobytes()", ['BYTEWIN'])
S('BYTEWIN_rename_locals', ['C07'], 'bitstore.py', fn=rename_local('start_byte', 'first_byte'))

# ---- REP / STALE
V('REP_elementwise_loop', ['C05'], 'utils.py', "        final_tokens.extend(tokens * factor)", "        for token in tokens:\n            final_tokens.extend([token] * factor)", ['REP'])
V('REP_elementwise_comprehension', ['C05'], 'utils.py', "        final_tokens.extend(tokens * factor)", "        final_tokens.extend([t for t in tokens for _ in range(factor)])", ['REP'])
S('REP_group_loop', ['C05'], 'utils.py', "        final_tokens.extend(tokens * factor)", "        for _ in range(factor):\n            final_tokens.extend(tokens)")
S('REP_group_comprehension', ['C05'], 'utils.py', "        final_tokens.extend(tokens * factor)", "        final_tokens += [t for _ in range(factor) for t in tokens]")
def _hoist_remaining(src):
    a = "        # We should have precisely zero or one stretchy token\n        vals = []"
    b = "                bits_remaining = len(self) - pos\n"
    if src.count(a) != 1 or src.count(b) != 1:
        return None
    return src.replace(b, "").replace(a, a + "\n        bits_remaining = len(self) - pos")


V('STALE_stretchy_length_hoisted', ['C05', 'C06'], 'bits.py', fn=_hoist_remaining, expect=['STALE'])
V('REP_bracket_at_least_one_copy', ['C05'], 'utils.py', "','.join([s[start + 1:p]] * factor)", "(factor - 1) * (s[start + 1:p] + ',') + s[start + 1:p]", ['REP'])


# ------------------------------------------------------------------ package-wide behaviour-preserving transformations
# (each confirmed to keep the project's 836 tests green when it was written; the checks must stay silent on all of them)
import copy as _copy
copy = _copy

def swap_if_else(tree):
    """if c: A else: B  ->  if not c: B else: A   (only plain if/else, not elif chains)"""
    n = 0
    class T(ast.NodeTransformer):
        def visit_If(self, node):
            nonlocal n
            self.generic_visit(node)
            if node.orelse and not (len(node.orelse) == 1 and isinstance(node.orelse[0], ast.If)):
                # don't touch when body is an elif itself to keep chain readable
                node.test = ast.UnaryOp(op=ast.Not(), operand=node.test)
                node.body, node.orelse = node.orelse, node.body
                n += 1
            return node
    t = T().visit(tree)
    ast.fix_missing_locations(t)
    return t, n

def split_chained(tree):
    """a <= b < c  ->  a <= b and b < c   when b is a plain Name/Constant (no double evaluation issue)"""
    n = 0
    class T(ast.NodeTransformer):
        def visit_Compare(self, node):
            nonlocal n
            self.generic_visit(node)
            if len(node.ops) == 2 and isinstance(node.comparators[0], (ast.Name, ast.Constant)):
                n += 1
                a = ast.Compare(left=node.left, ops=[node.ops[0]], comparators=[node.comparators[0]])
                b = ast.Compare(left=copy.deepcopy(node.comparators[0]), ops=[node.ops[1]], comparators=[node.comparators[1]])
                return ast.BoolOp(op=ast.And(), values=[a, b])
            return node
    t = T().visit(tree)
    ast.fix_missing_locations(t)
    return t, n

def rename_locals(tree, suffix='_v'):
    n = 0
    for fn in [x for x in ast.walk(tree) if isinstance(x, (ast.FunctionDef, ast.AsyncFunctionDef))]:
        # only outermost functions (methods or module functions)
        pass
    def outer_functions(node, inside=False):
        for ch in ast.iter_child_nodes(node):
            if isinstance(ch, (ast.FunctionDef, ast.AsyncFunctionDef)):
                if not inside:
                    yield ch
                # do not descend
            else:
                yield from outer_functions(ch, inside)
    for fn in outer_functions(tree):
        params = {a.arg for a in fn.args.posonlyargs + fn.args.args + fn.args.kwonlyargs}
        if fn.args.vararg: params.add(fn.args.vararg.arg)
        if fn.args.kwarg: params.add(fn.args.kwarg.arg)
        declared = set()
        for x in ast.walk(fn):
            if isinstance(x, (ast.Global, ast.Nonlocal)):
                declared |= set(x.names)
        # nested scopes' own params
        nested_params = set()
        for x in ast.walk(fn):
            if x is not fn and isinstance(x, (ast.FunctionDef, ast.AsyncFunctionDef, ast.Lambda)):
                a = x.args
                nested_params |= {y.arg for y in a.posonlyargs + a.args + a.kwonlyargs}
                if a.vararg: nested_params.add(a.vararg.arg)
                if a.kwarg: nested_params.add(a.kwarg.arg)
            if x is not fn and isinstance(x, (ast.FunctionDef, ast.AsyncFunctionDef, ast.ClassDef)):
                nested_params.add(x.name)
        stores = {x.id for x in ast.walk(fn) if isinstance(x, ast.Name) and isinstance(x.ctx, (ast.Store, ast.Del))}
        # names bound by import / except-as / with-as inside function
        for x in ast.walk(fn):
            if isinstance(x, ast.ExceptHandler) and x.name:
                declared.add(x.name)
            if isinstance(x, (ast.Import, ast.ImportFrom)):
                for al in x.names:
                    declared.add((al.asname or al.name).split('.')[0])
        cand = {s for s in stores if s not in params and s not in declared and s not in nested_params and not s.startswith('__') and s != '_'}
        if not cand:
            continue
        for x in ast.walk(fn):
            if isinstance(x, ast.Name) and x.id in cand:
                x.id = x.id + suffix
                n += 1
    return tree, n



def _pkg_transform(which):
    fn = {'swap': swap_if_else, 'chain': split_chained, 'locals': rename_locals, 'unparse': lambda t: (t, 1)}[which]

    def run(filename, src):
        tree = ast.parse(src)
        tree, n = fn(tree)
        return ast.unparse(tree) + '\n' if n else None
    return run


S('PKG_S_unparse_roundtrip', ALL + ['C05'], '*', pkg_fn=_pkg_transform('unparse'))
S('PKG_S_swap_if_else_branches', ALL + ['C05'], '*', pkg_fn=_pkg_transform('swap'))
S('PKG_S_split_chained_comparisons', ALL + ['C05'], '*', pkg_fn=_pkg_transform('chain'))
S('PKG_S_rename_all_locals', ALL + ['C05'], '*', pkg_fn=_pkg_transform('locals'))

# ---- A11 for ConstBitStream
V('A11_constbitstream_copy_returns_self', ['C06', 'C04', 'C01'], 'bitstream.py', "        # The data can be shared as it's immutable, but the bit position can't be.\n        return self.__copy__()",
  "        return self", ['A11'])


# ---- SELFOP / SIB / SGN0 / IDEM / G5 (absolute helper) / D5 (native shift)
def _drop_self_decoupling(which):
    def fn(src):
        a = "        if bs is self:\n            bs = self._copy()\n        if pos is None:\n            pos = self._pos\n"
        if src.count(a) != 2:
            return None
        i = src.index(a) if which == 0 else src.index(a, src.index(a) + 1)
        return src[:i] + "        if pos is None:\n            pos = self._pos\n" + src[i + len(a):]
    return fn


V('SELFOP_overwrite_reads_operand_after_write', ['C06', 'C03', 'C20'], 'bitstream.py', fn=_drop_self_decoupling(0), expect=['SELFOP'])
V('SELFOP_insert_reads_operand_after_write', ['C06', 'C03', 'C20'], 'bitstream.py', fn=_drop_self_decoupling(1), expect=['SELFOP'])
V('SIB_bitarray_replace_drops_count_zero', ['C03', 'C07'], 'bitarray_.py', "        if count == 0:\n            return 0\n", "", ['SIB'])
V('SGN0_float_zero_shortcut', ['C02', 'C18', 'C11'], 'bitstore_helpers.py', "    fmt = {16: '>e', 32: '>f', 64: '>d'}[length] if big_endian else {16: '<e', 32: '<f', 64: '<d'}[length]\n",
  "    fmt = {16: '>e', 32: '>f', 64: '>d'}[length] if big_endian else {16: '<e', 32: '<f', 64: '<d'}[length]\n    if f == 0.0:\n        return BitStore.frombytes(bytes(length // 8))\n", ['SGN0'])
S('SGN0_float_zero_shortcut_with_sign', ['C02', 'C18', 'C11'], 'bitstore_helpers.py', "    fmt = {16: '>e', 32: '>f', 64: '>d'}[length] if big_endian else {16: '<e', 32: '<f', 64: '<d'}[length]\n",
  "    fmt = {16: '>e', 32: '>f', 64: '>d'}[length] if big_endian else {16: '<e', 32: '<f', 64: '<d'}[length]\n    if f == 0.0 and math.copysign(1.0, f) > 0:\n        return BitStore.frombytes(bytes(length // 8))\n")
V('IDEM_ixor_self_shortcut', ['C16', 'C03'], 'bitarray_.py', "        bs = self._create_from_bitstype(bs)\n        self._bitstore ^= bs._bitstore\n        return self",
  "        if bs is self:\n            return self\n        bs = self._create_from_bitstype(bs)\n        self._bitstore ^= bs._bitstore\n        return self", ['IDEM'])
S('IDEM_ior_self_shortcut', ['C16', 'C03'], 'bitarray_.py', "        bs = self._create_from_bitstype(bs)\n        self._bitstore |= bs._bitstore\n        return self",
  "        if bs is self:\n            return self\n        bs = self._create_from_bitstype(bs)\n        self._bitstore |= bs._bitstore\n        return self")
V('G5_insert_append_fast_path', ['C12', 'C03'], 'bitstream.py', "        self._insert(bs, pos)\n        self._pos = pos + len(bs)",
  "        if pos == len(self):\n            self._addright(bs)\n        else:\n            self._insert(bs, pos)\n        self._pos = pos + len(bs)", ['G5'])


def rename_private_params(tree_by_mod, suffix='_p'):
    """Rename the parameters (except self/cls) of private functions that are defined exactly once in the package; keyword
    arguments at their call sites follow."""
    defs = {}
    for mod, tree in tree_by_mod.items():
        for x in ast.walk(tree):
            if isinstance(x, (ast.FunctionDef,)):
                defs.setdefault(x.name, []).append(x)
    targets = {n: d[0] for n, d in defs.items() if len(d) == 1 and n.startswith('_') and not (n.startswith('__') and n.endswith('__'))
               and not n.startswith(('_set', '_get', '_read'))}      # registry functions: their parameter names are looked at by reflection
    # a function handed around as a value may be called with keywords through the alias: leave it alone
    as_value = set()
    for mod, tree in tree_by_mod.items():
        callfuncs = {id(x.func) for x in ast.walk(tree) if isinstance(x, ast.Call)}
        for x in ast.walk(tree):
            nm = x.attr if isinstance(x, ast.Attribute) else x.id if isinstance(x, ast.Name) else None
            if nm in targets and id(x) not in callfuncs and not (isinstance(x, ast.Name) and isinstance(x.ctx, ast.Store)):
                as_value.add(nm)
    ren = {}
    n_changed = 0
    for name, fn in targets.items():
        if name in as_value:
            continue
        a = fn.args
        if a.vararg or a.kwarg:
            continue
        if any(isinstance(d, ast.Name) and d.id in ('property',) or 'setter' in ast.unparse(d) or 'overload' in ast.unparse(d) for d in fn.decorator_list):
            continue
        params = [p.arg for p in a.posonlyargs + a.args + a.kwonlyargs if p.arg not in ('self', 'cls')]
        if not params:
            continue
        # nested functions/lambdas that rebind the same names would be confused: skip those
        if any(isinstance(y, (ast.FunctionDef, ast.Lambda)) and y is not fn for y in ast.walk(fn)):
            continue
        mp = {p: p + suffix for p in params}
        for p in a.posonlyargs + a.args + a.kwonlyargs:
            if p.arg in mp:
                p.arg = mp[p.arg]
        for y in ast.walk(fn):
            if isinstance(y, ast.Name) and y.id in mp:
                y.id = mp[y.id]
                n_changed += 1
        ren[name] = mp
    for mod, tree in tree_by_mod.items():
        for x in ast.walk(tree):
            if isinstance(x, ast.Call):
                nm = x.func.attr if isinstance(x.func, ast.Attribute) else x.func.id if isinstance(x.func, ast.Name) else None
                if nm in ren:
                    for k in x.keywords:
                        if k.arg in ren[nm]:
                            k.arg = ren[nm][k.arg]
                # functools.partial(fn, kw=...) style
                if nm == 'partial' and x.args and isinstance(x.args[0], (ast.Attribute, ast.Name)):
                    tgt = x.args[0].attr if isinstance(x.args[0], ast.Attribute) else x.args[0].id
                    if tgt in ren:
                        for k in x.keywords:
                            if k.arg in ren[tgt]:
                                k.arg = ren[tgt][k.arg]
    return n_changed


def _pkg_rename_private_params(srcs):
    trees = {fn: ast.parse(t) for fn, t in srcs.items()}
    n = rename_private_params(trees)
    return {fn: ast.unparse(t) + '\n' for fn, t in trees.items()} if n else None


VARIANTS.append(dict(id='PKG_S_rename_private_parameters', props=ALL + ['C05'], file='*', expect=[], kind='silent', where='', pkg_all_fn=_pkg_rename_private_params))


def ifexp_to_if(tree):
    """x = A if c else B  ->  if c: x = A else: x = B ; return A if c else B -> if c: return A else: return B"""
    import copy
    n = 0

    class T(ast.NodeTransformer):
        def generic_visit(self, node):
            nonlocal n
            super().generic_visit(node)
            for fld in ('body', 'orelse', 'finalbody'):
                stmts = getattr(node, fld, None)
                if isinstance(stmts, list) and stmts and isinstance(stmts[0], ast.stmt):
                    out = []
                    for s in stmts:
                        if isinstance(s, (ast.Return, ast.Assign)) and isinstance(getattr(s, 'value', None), ast.IfExp) and \
                                not (isinstance(s, ast.Assign) and any(not isinstance(t, ast.Name) for t in s.targets)):
                            a, b = copy.copy(s), copy.copy(s)
                            a.value, b.value = s.value.body, s.value.orelse
                            out.append(ast.If(test=s.value.test, body=[a], orelse=[b]))
                            n += 1
                        else:
                            out.append(s)
                    setattr(node, fld, out)
            return node
    t = T().visit(tree)
    ast.fix_missing_locations(t)
    return t, n


def swap_ifexp(tree):
    n = 0

    class T(ast.NodeTransformer):
        def visit_IfExp(self, node):
            nonlocal n
            self.generic_visit(node)
            n += 1
            return ast.IfExp(test=ast.UnaryOp(op=ast.Not(), operand=node.test), body=node.orelse, orelse=node.body)
    t = T().visit(tree)
    ast.fix_missing_locations(t)
    return t, n


def _pkg_transform2(fn):
    def run(filename, src):
        tree, n = fn(ast.parse(src))
        return ast.unparse(tree) + '\n' if n else None
    return run


S('PKG_S_conditional_expressions_as_statements', ALL + ['C05'], '*', pkg_fn=_pkg_transform2(ifexp_to_if))
S('PKG_S_conditional_expressions_negated', ALL + ['C05'], '*', pkg_fn=_pkg_transform2(swap_ifexp))

# ---- round 8: SGN0 memoised value routes, ESC table form, MIRROR delegation, CHOKE shapes
V('SGN0_token_builder_memoised', ['C18'], 'bitstore_helpers.py', "def bitstore_from_token(name: str", "@functools.lru_cache(CACHE_SIZE)\ndef bitstore_from_token(name: str", ['SGN0'])
V('SGN0_memoised_float_param', ['C18'], 'bitstore_helpers.py', "def float2bitstore(f: Union[str, float]", "@functools.lru_cache(CACHE_SIZE)\ndef float2bitstore(f: Union[str, float]", ['SGN0'])
_COL_OLD = "        if use_colour:\n            cls.blue = '\\033[34m'\n            cls.purple = '\\033[35m'\n            cls.green = '\\033[32m'\n            cls.off = '\\033[0m'\n        else:\n            cls.blue = cls.purple = cls.green = cls.off = ''\n        return x"
S('ESC_table_form', ['C19'], 'bitstring_options.py', _COL_OLD,
  "        codes = {'blue': '\\033[34m', 'purple': '\\033[35m', 'green': '\\033[32m', 'off': '\\033[0m'}\n        if not use_colour:\n            codes = dict.fromkeys(codes, '')\n        for name, code in codes.items():\n            setattr(cls, name, code)\n        return x")
V('ESC_table_form_off_kept', ['C19'], 'bitstring_options.py', _COL_OLD,
  "        codes = {'blue': '\\033[34m', 'purple': '\\033[35m', 'green': '\\033[32m', 'off': '\\033[0m'}\n        if not use_colour:\n            codes = {**dict.fromkeys(codes, ''), 'off': '\\033[0m'}\n        for name, code in codes.items():\n            setattr(cls, name, code)\n        return x", ['ESC'])
V('MIRROR_delegated_unmirrored', ['C12'], 'bitstore.py', "        return bool(self._bitarray.__getitem__(-index - 1))", "        return self.getindex_msb0(len(self) - index)", ['MIRROR'])
S('MIRROR_delegated_mirrored', ['C12'], 'bitstore.py', "        return bool(self._bitarray.__getitem__(-index - 1))", "        return self.getindex_msb0(-index - 1)")
V('CHOKE_in_form_no_raise', ['C15', 'C06'], 'dtypes.py', "                if length not in self.allowed_lengths:\n                    if self.allowed_lengths.only_one_value():",
  "                if length in self.allowed_lengths:\n                    pass\n                elif False:\n                    if self.allowed_lengths.only_one_value():", ['CHOKE'])


# ---- package-wide: every private function / method renamed (and every reference with it)
def _pkg_rename_private_functions(srcs):
    names = set()
    for fn, t in srcs.items():
        if fn.endswith('luts.py'):
            continue
        for n in ast.walk(ast.parse(t)):
            if isinstance(n, ast.FunctionDef) and n.name.startswith('_') and not n.name.startswith('__'):
                names.add(n.name)
    if not names:
        return None
    pat = re.compile(r'\b(' + '|'.join(sorted(map(re.escape, names), key=len, reverse=True)) + r')\b')
    return {fn: pat.sub(lambda m_: m_.group(1) + '_rn', t) for fn, t in srcs.items()}


VARIANTS.append(dict(id='PKG_S_rename_private_functions', props=ALL + ['C05'], file='*', expect=[], kind='silent', where='', pkg_all_fn=_pkg_rename_private_functions))


# ---- package-wide: undecorated methods of every class (and module-level functions) re-ordered (reverse alphabetical)
def _pkg_sort_definitions(srcs):
    out = {}
    n = 0
    for fn, text in srcs.items():
        if fn.endswith('luts.py'):
            out[fn] = text
            continue
        t = ast.parse(text)
        changed = False
        for c in [x for x in ast.walk(t) if isinstance(x, ast.ClassDef)] + [t]:
            dec = {s.name for s in c.body if isinstance(s, ast.FunctionDef) and s.decorator_list}
            plain = [s for s in c.body if isinstance(s, ast.FunctionDef) and not s.decorator_list and s.name not in dec]
            if len(plain) < 2 or len({s.name for s in plain}) != len(plain):
                continue
            first = min(c.body.index(s) for s in plain)
            rest = [s for s in c.body if s not in plain]
            c.body = rest[:first] + sorted(plain, key=lambda s: s.name, reverse=True) + rest[first:]
            changed = True
        out[fn] = ast.unparse(t) + '\n' if changed else text
        n += changed
    return out if n else None


VARIANTS.append(dict(id='PKG_S_sort_definitions', props=ALL + ['C05'], file='*', expect=[], kind='silent', where='', pkg_all_fn=_pkg_sort_definitions))


# ---- package-wide: guard clauses turned into if/else staircases, and the reverse
def _exits_stmt_list(stmts):
    if not stmts:
        return False
    s = stmts[-1]
    if isinstance(s, (ast.Return, ast.Raise)):
        return True
    if isinstance(s, ast.If):
        return bool(s.orelse) and _exits_stmt_list(s.body) and _exits_stmt_list(s.orelse)
    return False


def _stmt_lists(node):
    for fld in ('body', 'orelse', 'finalbody'):
        lst = getattr(node, fld, None)
        if isinstance(lst, list) and lst and isinstance(lst[0], ast.stmt):
            yield node, fld, lst
            for c in lst:
                if not isinstance(c, (ast.FunctionDef, ast.ClassDef)):
                    yield from _stmt_lists(c)
    for h in getattr(node, 'handlers', []) or []:
        yield from _stmt_lists(h)


def _pkg_nest_after_exit(srcs):
    out, n = {}, 0
    for fn, text in srcs.items():
        if fn.endswith('luts.py'):
            out[fn] = text
            continue
        t = ast.parse(text)
        ch = False
        for f in [x for x in ast.walk(t) if isinstance(x, ast.FunctionDef)]:
            for node, fld, lst in list(_stmt_lists(f)):
                for i, s in enumerate(lst):
                    if isinstance(s, ast.If) and not s.orelse and _exits_stmt_list(s.body) and i + 1 < len(lst) and isinstance(node, (ast.FunctionDef, ast.If)) \
                            and not any(isinstance(y, ast.FunctionDef) for y in lst[i + 1:]):
                        s.orelse = lst[i + 1:]
                        del lst[i + 1:]
                        ch = True
                        n += 1
                        break
        out[fn] = ast.unparse(t) + '\n' if ch else text
    return out if n else None


def _pkg_unnest_else(srcs):
    out, n = {}, 0
    for fn, text in srcs.items():
        if fn.endswith('luts.py'):
            out[fn] = text
            continue
        t = ast.parse(text)
        ch = False
        for f in [x for x in ast.walk(t) if isinstance(x, ast.FunctionDef)]:
            for node, fld, lst in list(_stmt_lists(f)):
                new = []
                for s in lst:
                    if isinstance(s, ast.If) and s.orelse and _exits_stmt_list(s.body) and not (len(s.orelse) == 1 and isinstance(s.orelse[0], ast.If)):
                        tail = s.orelse
                        s.orelse = []
                        new.append(s)
                        new.extend(tail)
                        ch = True
                        n += 1
                    else:
                        new.append(s)
                setattr(node, fld, new)
        out[fn] = ast.unparse(t) + '\n' if ch else text
    return out if n else None


VARIANTS.append(dict(id='PKG_S_nest_after_exit', props=ALL + ['C05'], file='*', expect=[], kind='silent', where='', pkg_all_fn=_pkg_nest_after_exit))
VARIANTS.append(dict(id='PKG_S_unnest_else', props=ALL + ['C05'], file='*', expect=[], kind='silent', where='', pkg_all_fn=_pkg_unnest_else))


# ---- package-wide: operands of every simple comparison swapped (a < b -> b > a, x == 0 -> 0 == x); messages of raises held in a local first
_CMP_SWAP = {ast.Lt: ast.Gt, ast.Gt: ast.Lt, ast.LtE: ast.GtE, ast.GtE: ast.LtE, ast.Eq: ast.Eq, ast.NotEq: ast.NotEq}


class _FlipCompare(ast.NodeTransformer):
    def visit_Compare(self, node):
        self.generic_visit(node)
        if len(node.ops) == 1 and type(node.ops[0]) in _CMP_SWAP and not any(isinstance(y, (ast.Call, ast.NamedExpr)) for y in ast.walk(node)):
            return ast.copy_location(ast.Compare(left=node.comparators[0], ops=[_CMP_SWAP[type(node.ops[0])]()], comparators=[node.left]), node)
        return node


def _pkg_flip_comparisons(srcs):
    out = {}
    for fn, text in srcs.items():
        if fn.endswith('luts.py'):
            out[fn] = text
            continue
        t = _FlipCompare().visit(ast.parse(text))
        ast.fix_missing_locations(t)
        out[fn] = ast.unparse(t) + '\n'
    return out


def _pkg_message_locals(srcs):
    out, n = {}, 0
    for fn, text in srcs.items():
        if fn.endswith('luts.py'):
            out[fn] = text
            continue
        t = ast.parse(text)

        def rec(lst):
            nonlocal n
            i = 0
            while i < len(lst):
                s = lst[i]
                for fld in ('body', 'orelse', 'finalbody'):
                    sub = getattr(s, fld, None)
                    if isinstance(sub, list) and sub and isinstance(sub[0], ast.stmt) and not isinstance(s, (ast.FunctionDef, ast.ClassDef)):
                        rec(sub)
                for h in getattr(s, 'handlers', []) or []:
                    rec(h.body)
                if isinstance(s, ast.Raise) and isinstance(s.exc, ast.Call) and len(s.exc.args) == 1 and isinstance(s.exc.args[0], (ast.JoinedStr, ast.Constant)) \
                        and not s.exc.keywords:
                    a = ast.Assign(targets=[ast.Name(id='_message', ctx=ast.Store())], value=s.exc.args[0])
                    s.exc.args[0] = ast.Name(id='_message', ctx=ast.Load())
                    lst.insert(i, a)
                    i += 1
                    n += 1
                i += 1
        for f in [x for x in ast.walk(t) if isinstance(x, ast.FunctionDef)]:
            rec(f.body)
        ast.fix_missing_locations(t)
        out[fn] = ast.unparse(t) + '\n'
    return out if n else None


VARIANTS.append(dict(id='PKG_S_flip_comparisons', props=ALL + ['C05'], file='*', expect=[], kind='silent', where='', pkg_all_fn=_pkg_flip_comparisons))
VARIANTS.append(dict(id='PKG_S_message_locals', props=ALL + ['C05'], file='*', expect=[], kind='silent', where='', pkg_all_fn=_pkg_message_locals))


# ---- package-wide: De Morgan on every compound if-test; `if a or b: raise X` split into two guards
class _DeMorganIf(ast.NodeTransformer):
    def visit_If(self, node):
        self.generic_visit(node)
        t = node.test
        if isinstance(t, ast.BoolOp) and not any(isinstance(y, ast.NamedExpr) for y in ast.walk(t)):
            inv = ast.BoolOp(op=ast.And() if isinstance(t.op, ast.Or) else ast.Or(), values=[ast.UnaryOp(op=ast.Not(), operand=v) for v in t.values])
            node.test = ast.UnaryOp(op=ast.Not(), operand=inv)
        return node


def _pkg_demorgan(srcs):
    out = {}
    for fn, text in srcs.items():
        if fn.endswith('luts.py'):
            out[fn] = text
            continue
        t = _DeMorganIf().visit(ast.parse(text))
        ast.fix_missing_locations(t)
        out[fn] = ast.unparse(t) + '\n'
    return out


def _pkg_split_or_guards(srcs):
    import copy as _copy
    out, n = {}, 0
    for fn, text in srcs.items():
        if fn.endswith('luts.py'):
            out[fn] = text
            continue
        t = ast.parse(text)
        for node in ast.walk(t):
            for fld in ('body', 'orelse', 'finalbody'):
                lst = getattr(node, fld, None)
                if isinstance(lst, list) and lst and isinstance(lst[0], ast.stmt):
                    new = []
                    for s in lst:
                        if isinstance(s, ast.If) and not s.orelse and isinstance(s.test, ast.BoolOp) and isinstance(s.test.op, ast.Or) and len(s.body) == 1 \
                                and isinstance(s.body[0], ast.Raise) and not any(isinstance(y, ast.NamedExpr) for y in ast.walk(s.test)):
                            for v in s.test.values:
                                new.append(ast.If(test=v, body=_copy.deepcopy(s.body), orelse=[]))
                            n += 1
                        else:
                            new.append(s)
                    setattr(node, fld, new)
        ast.fix_missing_locations(t)
        out[fn] = ast.unparse(t) + '\n'
    return out if n else None


VARIANTS.append(dict(id='PKG_S_demorgan', props=ALL + ['C05'], file='*', expect=[], kind='silent', where='', pkg_all_fn=_pkg_demorgan))
VARIANTS.append(dict(id='PKG_S_split_or_guards', props=ALL + ['C05'], file='*', expect=[], kind='silent', where='', pkg_all_fn=_pkg_split_or_guards))


# ---- package-wide: positional arguments of calls to uniquely named private functions written as keywords
def _pkg_keyword_arguments(srcs):
    import collections
    trees = {fn: ast.parse(t) for fn, t in srcs.items() if not fn.endswith('luts.py')}
    defs = collections.defaultdict(list)
    for fn, t in trees.items():
        for c in t.body:
            if isinstance(c, ast.FunctionDef):
                defs[c.name].append((None, c))
            if isinstance(c, ast.ClassDef):
                for k in c.body:
                    if isinstance(k, ast.FunctionDef):
                        defs[k.name].append((c.name, k))
    n = 0
    for fn, t in trees.items():
        for x in ast.walk(t):
            if isinstance(x, ast.Call) and not any(isinstance(a, ast.Starred) for a in x.args) and not any(k.arg is None for k in x.keywords):
                name = x.func.attr if isinstance(x.func, ast.Attribute) else x.func.id if isinstance(x.func, ast.Name) else None
                if not name or not name.startswith('_') or name.startswith('__') or len(defs.get(name, [])) != 1:
                    continue
                cls, f = defs[name][0]
                if f.decorator_list or f.args.vararg or f.args.kwarg:
                    continue
                if cls and isinstance(x.func, ast.Attribute) and isinstance(x.func.value, ast.Name) and x.func.value.id[:1].isupper():
                    continue
                off = 1 if (cls and isinstance(x.func, ast.Attribute)) else 0
                allp = [a.arg for a in f.args.posonlyargs] + [a.arg for a in f.args.args]
                call_params = allp[off:]
                keep = max(0, len(f.args.posonlyargs) - off)
                if len(x.args) > len(call_params):
                    continue
                new_kw = [ast.keyword(arg=call_params[i], value=a) for i, a in enumerate(x.args[keep:], start=keep)]
                if new_kw:
                    x.args = x.args[:keep]
                    x.keywords = new_kw + x.keywords
                    n += 1
    if not n:
        return None
    out = dict(srcs)
    for fn, t in trees.items():
        ast.fix_missing_locations(t)
        out[fn] = ast.unparse(t) + '\n'
    return out


VARIANTS.append(dict(id='PKG_S_keyword_arguments', props=ALL + ['C05'], file='*', expect=[], kind='silent', where='', pkg_all_fn=_pkg_keyword_arguments))

"""B2 (validate before mutate), WB (ranged writes stay inside the validated window), N1 (asserts), N2 (divisions)."""
from __future__ import annotations

import ast
import re

from ..core import own_walk
from ..model import AnalysisError, FAMILY, MUTABLE
from ..report import RuleResult, norm
from ..resolve import ANY
from . import guards as G
from .ownership import get_effects, public_roots
from .tables import fold

DATA_MUTATORS = {'append', 'prepend', 'overwrite', 'insert', 'byteswap', '__delitem__', '__setitem__', 'clear', 'set', 'invert',
                 'reverse', 'replace', 'rol', 'ror'}
B2_EXEMPT = {
    'bitarray_:BitArray.set': 'takes an iterable of positions: valid positions before a bad one may already be applied (property wording)',
    'bitarray_:BitArray.invert': 'takes an iterable of positions (property wording)',
    'array_:Array.fromfile': 'mirrors array.array.fromfile: appends what is available, then raises EOFError (documented)',
}


def _raising_nodes(ctx):
    """Call-graph nodes from which an explicit `raise` statement is reachable."""
    if hasattr(ctx, '_raising'):
        return ctx._raising
    cg = ctx.callgraph()
    direct = {n for n in cg if any(isinstance(x, ast.Raise) for x in own_walk(ctx.m.funcs[n[0]].node))}
    rev = {}
    for n, es in cg.items():
        for (c, cs) in es:
            rev.setdefault(c, set()).add(n)
    out = set(direct)
    work = list(direct)
    while work:
        n = work.pop()
        for p in rev.get(n, ()):
            if p not in out:
                out.add(p)
                work.append(p)
    ctx._raising = out
    return out


def _stmt_effect(ctx, E, node, s, selfname, is_array):
    """Does statement s (top-level of a block) change self's content?  Returns the ast node of the effect or None."""
    f = ctx.m.funcs[node[0]]
    for x in ast.walk(s):
        if is_array:
            if isinstance(x, (ast.Assign, ast.AugAssign)):
                for t in (x.targets if isinstance(x, ast.Assign) else [x.target]):
                    if ast.unparse(t).startswith('self.data'):
                        return x
            if isinstance(x, ast.Delete) and any(ast.unparse(t).startswith('self.data') for t in x.targets):
                return x
            if isinstance(x, ast.Call) and isinstance(x.func, ast.Attribute) and ast.unparse(x.func.value) == 'self.data' and x.func.attr in DATA_MUTATORS:
                return x
    if not is_array:
        for d in E.direct(node):
            if d.root == selfname and d.kind in ('install', 'inplace') and any(d.node is y for y in ast.walk(s)):
                return d.node
        edges, _ = E.edges(node)
        for (cn, root, cs) in edges:
            if root == selfname and any(cs.node is y for y in ast.walk(s)) and E.selfeff(cn):
                return cs.node
    return None


def _may_raise_calls(ctx, node, s, effect):
    """Calls inside statement s (other than the effect call itself) from which an explicit raise is reachable."""
    R = _raising_nodes(ctx)
    fa = ctx.fa(node)
    out = []
    for cs in fa.calls:
        if cs.node is effect or not any(cs.node is y for y in ast.walk(s)):
            continue
        if cs.kind != 'call':
            continue
        if any(ctx.node(g, c) in R for (g, c) in cs.targets):
            out.append(cs)
    return out


def rule_B2(ctx):
    """In every public mutator no explicit raise is reachable after the first effect on self."""
    m = ctx.m
    E = get_effects(ctx)
    r = RuleResult('B2', 'validate before mutate: no raise after the first change of self in public mutators')
    targets = []
    for c in sorted(MUTABLE):
        for name, f in public_roots(ctx, c):
            if name in ('__init__', '__new__') or f.is_classmethod() or f.is_staticmethod():
                continue
            node = ctx.node(f, c)
            if E.selfeff(node):
                targets.append((node, f, False))
    # helpers the mutators run on self (e.g. __setitem__ -> _setitem_int): same obligation inside them
    work = [t[0] for t in targets]
    seen_nodes = set(work)
    while work:
        n0 = work.pop()
        edges, sn = E.edges(n0)
        for (cn, root, cs) in edges:
            if root is not None and root == sn and cn not in seen_nodes and E.selfeff(cn):
                g = m.funcs[cn[0]]
                if g.cls in FAMILY and g.name not in ('__init__', '__new__'):
                    seen_nodes.add(cn)
                    work.append(cn)
                    targets.append((cn, g, False))
    arr = m.classes.get('Array')
    if arr is None:
        raise AnalysisError('anchor vanished: class Array')
    for name, f in arr.methods.items():
        if name in ('__init__',) or f.is_classmethod() or f.is_staticmethod():
            continue
        if any('self.data' in ast.unparse(x) and isinstance(x, (ast.Assign, ast.AugAssign, ast.Delete, ast.Call)) for x in own_walk(f.node)):
            targets.append(((f.key, None), f, True))
    seen = set()
    for node, f, is_array in targets:
        if (f.key, node[1]) in seen:
            continue
        seen.add((f.key, node[1]))
        selfname = f.params()[0] if f.params() else 'self'
        problems = []

        def block(stmts, dirty, in_loop):
            for s in stmts:
                if isinstance(s, (ast.FunctionDef, ast.ClassDef)):
                    continue
                if isinstance(s, ast.Raise):
                    if dirty:
                        problems.append((s, 'raises after self was already changed'))
                    return dirty, True
                if isinstance(s, ast.Return):
                    return dirty, True
                if isinstance(s, ast.If):
                    eff_t = _stmt_effect(ctx, E, node, ast.Expr(value=s.test), selfname, is_array) if False else None
                    d1, t1 = block(s.body, dirty, in_loop)
                    d2, t2 = block(s.orelse, dirty, in_loop)
                    alive = [d for d, t in ((d1, t1), (d2, t2)) if not t]
                    if not alive:
                        return dirty, True
                    dirty = any(alive)
                    continue
                if isinstance(s, (ast.For, ast.While)):
                    # a loop body that both changes self and can fail on a later iteration leaves a partial effect
                    eff = None
                    for b in s.body:
                        e = _stmt_effect(ctx, E, node, b, selfname, is_array)
                        if e is not None:
                            eff = e
                    if eff is not None:
                        for b in s.body:
                            for cs in _may_raise_calls(ctx, node, b, eff):
                                problems.append((cs.node, f'inside a loop that changes self, {cs.name}() can raise on a later iteration: '
                                                          'earlier iterations are already applied'))
                            for x in ast.walk(b):
                                if isinstance(x, ast.Raise):
                                    problems.append((x, 'raise inside a loop that changes self'))
                        dirty = True
                    else:
                        d, _ = block(s.body, dirty, True)
                        dirty = dirty or d
                    continue
                if isinstance(s, ast.Try):
                    d, t = block(s.body, dirty, in_loop)
                    for h in s.handlers:
                        # a handler runs because a statement of the body raised; when the body is a single call, that call did not
                        # complete, and the callee's own validate-before-mutate obligation says it changed nothing
                        block(h.body, dirty if len(s.body) == 1 else (d or dirty), in_loop)
                    dirty = d or dirty
                    block(s.finalbody, dirty, in_loop)
                    continue
                if isinstance(s, ast.With):
                    dirty, t = block(s.body, dirty, in_loop)
                    if t:
                        return dirty, True
                    continue
                e = _stmt_effect(ctx, E, node, s, selfname, is_array)
                if e is not None:
                    dirty = True
            return dirty, False

        block(G.body_wo_doc(f), False, False)
        if problems and ctx.reason_key(B2_EXEMPT, f.key) is not None:
            r.ok(f'{f.key}[{node[1]}]', reason=True, sample={'instance': f.key, 'reason': B2_EXEMPT[ctx.reason_key(B2_EXEMPT, f.key)]})
        elif problems:
            for (nd, why) in problems[:2]:
                r.fail(f.key, nd, f"{why}: an invalid argument must raise and leave the content as it was", loc=f.loc(nd),
                       extra={'ctx': node[1]})
        else:
            r.ok(f'{f.key}[{node[1]}]', {'instance': f.key, 'ctx': node[1], 'verdict': 'all raises precede the first effect'})
    if len(seen) < 40:
        raise AnalysisError(f'only {len(seen)} mutators examined (floor 40)')
    return r


# ---------------------------------------------------------------------------------------------- WB
def rule_WB(ctx):
    """Ranged in-place operations never write beyond the validated end of the window."""
    m = ctx.m
    r = RuleResult('WB', 'loops of ranged writes are bounded by the validated end position')
    n = 0
    for c in sorted(MUTABLE):
        for name, f in public_roots(ctx, c):
            pass
    ba = m.classes['BitArray']
    for name, f in sorted(ba.methods.items()):
        val = [x for x in own_walk(f.node) if isinstance(x, ast.Assign) and isinstance(x.value, ast.Call) and isinstance(x.value.func, ast.Attribute)
               and x.value.func.attr in m.validators and isinstance(x.targets[0], ast.Tuple)]
        if not val:
            continue
        s_var, e_var = [t.id for t in val[0].targets[0].elts]
        writes = ('_reversebytes', '_delete', '_insert', '_overwrite', '_invert')
        loops = [x for x in own_walk(f.node) if isinstance(x, ast.For)]
        outer = [lp for lp in loops if not any(o is not lp and any(lp is y for y in ast.walk(o)) for o in loops)]
        for lp in outer:
            has_write = any(isinstance(y, ast.Call) and isinstance(y.func, ast.Attribute) and y.func.attr in writes for y in ast.walk(lp)) or \
                any(isinstance(y, ast.Subscript) and isinstance(y.ctx, ast.Store) and ast.unparse(y.value) == 'self' for y in ast.walk(lp))
            if not has_write:
                continue
            n += 1
            it = lp.iter
            target = lp.target
            # `for k, v in enumerate(range(...), start=..)`: the positions are still the range's
            if isinstance(it, ast.Call) and isinstance(it.func, ast.Name) and it.func.id == 'enumerate' and it.args and isinstance(target, ast.Tuple) \
                    and len(target.elts) == 2:
                it, target = it.args[0], target.elts[1]
            if isinstance(it, ast.Name):
                # the range held in a local bound once: `starts = range(a, b, step); for p in starts: ...`
                defs = [x.value for x in own_walk(f.node) if isinstance(x, ast.Assign) and len(x.targets) == 1 and isinstance(x.targets[0], ast.Name)
                        and x.targets[0].id == it.id]
                stores = sum(1 for y in own_walk(f.node) if isinstance(y, ast.Name) and y.id == it.id and isinstance(y.ctx, ast.Store))
                if len(defs) == 1 and stores == 1 and it.id not in f.params():
                    it = defs[0]
            if not (isinstance(it, ast.Call) and isinstance(it.func, ast.Name) and it.func.id == 'range' and len(it.args) >= 2):
                raise AnalysisError(f'{f.key}: write loop is not a range() loop (needs a human)')
            stop = it.args[1]
            # stop is `limit + 1` or `limit`; the limit must be bounded above by the validated end
            limit = stop.left if isinstance(stop, ast.BinOp) and isinstance(stop.op, ast.Add) and isinstance(stop.right, ast.Constant) else stop

            def bounded(e, depth=0):
                if depth > 4:
                    return False
                if isinstance(e, ast.Name):
                    if e.id == e_var:
                        return True
                    assigns = [x.value for x in own_walk(f.node) if isinstance(x, ast.Assign) and len(x.targets) == 1
                               and isinstance(x.targets[0], ast.Name) and x.targets[0].id == e.id]
                    return bool(assigns) and all(bounded(a, depth + 1) for a in assigns)
                if isinstance(e, ast.Call) and isinstance(e.func, ast.Name) and e.func.id == 'min':
                    return any(bounded(a, depth + 1) for a in e.args)
                if isinstance(e, ast.IfExp):
                    return bounded(e.body, depth + 1) and bounded(e.orelse, depth + 1)
                if isinstance(e, ast.BinOp) and isinstance(e.op, ast.Sub):
                    return bounded(e.left, depth + 1)      # end - k with k >= 0 by construction of the callers
                return False
            # does the loop variable name the END of each written pattern (writes start at v - stride) or its START (writes run
            # from v to v + stride)?  In the second case the last start must be at most <bounded> - stride.
            v = target.id if isinstance(target, ast.Name) else None
            stride = ast.unparse(it.args[2]) if len(it.args) > 2 else '1'
            starts = [x for x in ast.walk(lp) if isinstance(x, ast.Assign) and isinstance(x.value, ast.Name) and x.value.id == v]
            ends = [x for x in ast.walk(lp) if isinstance(x, ast.Assign) and isinstance(x.value, ast.BinOp) and isinstance(x.value.op, ast.Sub)
                    and ast.unparse(x.value.left) == v and ast.unparse(x.value.right) == stride]
            if starts and not ends:
                if isinstance(limit, ast.BinOp) and isinstance(limit.op, ast.Sub) and ast.unparse(limit.right) == stride and isinstance(limit.left, ast.Name):
                    limit = limit.left          # last start + stride <= this
                else:
                    # the same as a sum, however it is ordered: (stop - 1) + stride must be one bounded name (minus a constant)
                    from .ingest import _lin
                    try:
                        form = dict(_lin(stop))
                        for k_, v_ in _lin(it.args[2] if len(it.args) > 2 else ast.Constant(value=1)).items():
                            form[k_] = form.get(k_, 0) + v_
                        form[1] = form.get(1, 0) - 1
                        form = {k_: v_ for k_, v_ in form.items() if v_}
                        names_ = [k_ for k_ in form if k_ != 1]
                        if len(names_) == 1 and form[names_[0]] == 1 and form.get(1, 0) <= 0 and names_[0].isidentifier():
                            limit = ast.Name(id=names_[0], ctx=ast.Load())
                        else:
                            limit = None
                    except Exception:
                        limit = None
            if limit is not None and bounded(limit):
                r.ok(f'{f.key}:{norm(it)}', {'instance': f.key, 'loop': norm(it), 'limit': norm(limit), 'bounded_by': e_var})
            else:
                r.fail(f.key, f'{norm(it)}: limit {norm(limit) if limit is not None else norm(stop)}', f"the loop of in-place writes runs up to '{norm(limit) if limit is not None else norm(stop)}', which is not bounded by the "
                       f"validated end '{e_var}' on every path: bits beyond the given [start, end) range are altered", loc=f.loc(lp))
    if n < 1:
        raise AnalysisError('no ranged write loop found (byteswap vanished?)')
    return r


# ---------------------------------------------------------------------------------------------- facts
def _len_aliases(f):
    """Names that hold len(self) (e.g. `length = len(self)`)."""
    out = set()
    for x in own_walk(f.node):
        if isinstance(x, ast.Assign) and len(x.targets) == 1 and isinstance(x.targets[0], ast.Name) and G.is_len_of(x.value, 'self'):
            out.add(x.targets[0].id)
    return out


def _is_len_self(e, aliases):
    return G.is_len_of(e, 'self') or (isinstance(e, ast.Name) and e.id in aliases) or ast.unparse(e) == 'len(self._bitstore)'


_MODEL = [None]


def validator_facts(model, mname):
    """Facts a helper establishes about the value it returns: for a method `m(self, p)` that only tests p, raises, normalises
    and returns p, the facts that hold for p at its return statements (the validator summary of DESIGN 2.4)."""
    if model is None:
        return None
    cands = [ci.methods[mname] for c, ci in model.classes.items() if mname in ci.methods]
    out = None
    for g in cands:
        ps = g.params()
        if len(ps) != 2:
            return None
        p = ps[1]
        rets = [x for x in own_walk(g.node) if isinstance(x, ast.Return)]
        if not rets or not all(isinstance(x.value, ast.Name) and x.value.id == p for x in rets):
            return None
        for x in rets:
            fx = facts_before(g, p, x.lineno)
            out = fx if out is None else (out & fx)
    return out


def facts_before(f, var, line, node=None):
    """Facts about the local/parameter ``var`` established by dominating guards before ``line``:
    subset of {'ge0', 'gt0', 'le_len', 'lt_len', 'ne0'}."""
    facts = set()
    aliases = _len_aliases(f)

    def pos_atoms(c):
        """Atoms that hold when condition c is TRUE: conjunctions of single comparisons of var with 0 / len(self)."""
        out = set()
        if isinstance(c, ast.BoolOp) and isinstance(c.op, ast.And):
            for v in c.values:
                out |= pos_atoms(v)
            return out
        if isinstance(c, ast.Compare) and len(c.ops) == 1:
            a, op, b = c.left, c.ops[0], c.comparators[0]
            isv = lambda e: isinstance(e, ast.Name) and e.id == var
            if isv(b) and G.is_zero(a) and isinstance(op, ast.LtE) or isv(a) and G.is_zero(b) and isinstance(op, ast.GtE):
                out.add('ge0')
            if isv(b) and G.is_zero(a) and isinstance(op, ast.Lt) or isv(a) and G.is_zero(b) and isinstance(op, ast.Gt):
                out |= {'gt0', 'ge0', 'ne0'}
            if isv(a) and _is_len_self(b, aliases) and isinstance(op, ast.LtE) or isv(b) and _is_len_self(a, aliases) and isinstance(op, ast.GtE):
                out.add('le_len')
            if isv(a) and _is_len_self(b, aliases) and isinstance(op, ast.Lt) or isv(b) and _is_len_self(a, aliases) and isinstance(op, ast.Gt):
                out |= {'lt_len', 'le_len'}
        return out

    def neg_atoms(t):
        """Atoms that hold when test t is FALSE (the guard raised/returned when t was true)."""
        out = set()
        for d in G.disjuncts(t):
            if G.test_is_negative(d, var):
                out.add('ge0')
            if isinstance(d, ast.Compare) and len(d.ops) == 1 and isinstance(d.left, ast.Name) and d.left.id == var:
                op, rhs = d.ops[0], d.comparators[0]
                if isinstance(op, ast.Gt) and _is_len_self(rhs, aliases):
                    out.add('le_len')
                if isinstance(op, ast.GtE) and _is_len_self(rhs, aliases):
                    out.add('lt_len')
                if isinstance(op, ast.LtE) and G.is_zero(rhs):
                    out |= {'gt0', 'ge0', 'ne0'}
                if isinstance(op, ast.Eq) and G.is_zero(rhs):
                    out.add('ne0')
            if isinstance(d, ast.UnaryOp) and isinstance(d.op, ast.Not):
                o = d.operand
                if isinstance(o, ast.Name) and o.id == var:
                    out.add('ne0')
                out |= pos_atoms(o)
                if isinstance(o, ast.Compare) and len(o.ops) >= 2 and not (len(o.ops) == 2 and G.is_zero(o.left) and isinstance(o.comparators[0], ast.Name)
                                                                         and o.comparators[0].id == var and _is_len_self(o.comparators[1], aliases)):
                    # a longer chain `0 <= a <= b <= len(self)`: everything left of var bounds it from below, everything right from above
                    terms = [o.left] + list(o.comparators)
                    for i, t in enumerate(terms):
                        if isinstance(t, ast.Name) and t.id == var and all(isinstance(op, (ast.Lt, ast.LtE)) for op in o.ops):
                            if G.is_zero(terms[0]) and i > 0:
                                out.add('gt0' if any(isinstance(op, ast.Lt) for op in o.ops[:i]) else 'ge0')
                            if _is_len_self(terms[-1], aliases) and i < len(terms) - 1:
                                out.add('lt_len' if any(isinstance(op, ast.Lt) for op in o.ops[i:]) else 'le_len')
                if isinstance(o, ast.Compare) and len(o.ops) == 2 and G.is_zero(o.left) and isinstance(o.comparators[0], ast.Name) \
                        and o.comparators[0].id == var and _is_len_self(o.comparators[1], aliases):
                    lo, hi = o.ops
                    out.add('ge0' if isinstance(lo, ast.LtE) else 'gt0')
                    if isinstance(lo, ast.Lt):
                        out |= {'ge0', 'ne0'}
                    out.add('le_len' if isinstance(hi, ast.LtE) else 'lt_len')
                    if isinstance(hi, ast.Lt):
                        out.add('le_len')
        return out

    def scan(stmts):
        for s in stmts:
            if getattr(s, 'lineno', 0) >= line:
                return
            if isinstance(s, ast.If):
                contains = any(getattr(y, 'lineno', -1) == line for y in ast.walk(s))
                if G.exits(s.body) and not contains:
                    facts.update(neg_atoms(s.test))
                elif contains:
                    in_body = any(getattr(y, 'lineno', -1) == line for b in s.body for y in ast.walk(b))
                    if in_body:
                        if isinstance(s.test, ast.Name) and s.test.id == var:
                            facts.add('ne0')
                        facts.update(pos_atoms(s.test))
                    else:
                        facts.update(neg_atoms(s.test))
                    scan(s.body if in_body else s.orelse)
                    return
                # `if pos < 0: pos += len(self)` normalisation keeps nothing; ignore
            elif isinstance(s, ast.Assign) and len(s.targets) == 1 and isinstance(s.targets[0], ast.Name) and s.targets[0].id == var:
                v = s.value
                if isinstance(v, ast.Call) and isinstance(v.func, ast.Name) and v.func.id == 'min' and any(_is_len_self(a, aliases) for a in v.args) \
                        and any(isinstance(a, ast.Name) and a.id == var for a in v.args):
                    facts.add('le_len')       # keeps earlier lower-bound facts
                elif isinstance(v, ast.Call) and isinstance(v.func, ast.Attribute) and len(v.args) == 1 and isinstance(v.args[0], ast.Name) \
                        and v.args[0].id == var and ast.unparse(v.func.value) == 'self' and validator_facts(_MODEL[0], v.func.attr) is not None:
                    facts.clear()
                    facts.update(validator_facts(_MODEL[0], v.func.attr))     # pos = self._checked_position(pos)
                else:
                    facts.clear()
            elif isinstance(s, ast.Assign) and len(s.targets) == 1 and isinstance(s.targets[0], ast.Tuple) and any(
                    isinstance(t, ast.Name) and t.id == var for t in s.targets[0].elts):
                # start, end = self._validate_slice(start, end): what the validator establishes for the value at that position
                v = s.value
                idx = [i for i, t in enumerate(s.targets[0].elts) if isinstance(t, ast.Name) and t.id == var][0]
                vf = None
                if isinstance(v, ast.Call) and isinstance(v.func, ast.Attribute) and ast.unparse(v.func.value) == 'self':
                    vf = tuple_validator_facts(_MODEL[0], v.func.attr, idx, len(s.targets[0].elts))
                facts.clear()
                if vf:
                    facts.update(vf)
            elif isinstance(s, ast.AugAssign) and isinstance(s.target, ast.Name) and s.target.id == var:
                facts.clear()
            elif isinstance(s, (ast.For, ast.While, ast.With, ast.Try)):
                if any(getattr(y, 'lineno', -1) == line for y in ast.walk(s)):
                    scan(s.body)
                    return
    scan(G.body_wo_doc(f))
    # the use sits in a branch of a conditional expression: `f(v) if v else ...`
    if node is not None:
        for x in own_walk(f.node):
            if isinstance(x, ast.IfExp):
                in_body = any(node is y for y in ast.walk(x.body))
                in_else = any(node is y for y in ast.walk(x.orelse))
                if in_body:
                    if isinstance(x.test, ast.Name) and x.test.id == var:
                        facts.add('ne0')
                    facts.update(pos_atoms(x.test))
                elif in_else:
                    facts.update(neg_atoms(x.test))
    if 'gt0' in facts or ('ge0' in facts and 'ne0' in facts):
        facts |= {'gt0', 'ge0', 'ne0'}
    if 'lt_len' in facts:
        facts.add('le_len')
    return facts


def _reduced_modulo(f, b, e, line):
    """`b %= e - s` (or b = b % (e - s)) is the last binding of b before the line: returns s, else None."""
    last = None
    for x in own_walk(f.node):
        if getattr(x, 'lineno', 10 ** 9) >= line:
            continue
        if isinstance(x, ast.AugAssign) and isinstance(x.target, ast.Name) and x.target.id == b:
            last = x
        elif isinstance(x, ast.Assign) and any(isinstance(t, ast.Name) and t.id == b for t in x.targets):
            last = x
    m_ = None
    if isinstance(last, ast.AugAssign) and isinstance(last.op, ast.Mod):
        m_ = last.value
    elif isinstance(last, ast.Assign) and isinstance(last.value, ast.BinOp) and isinstance(last.value.op, ast.Mod) and isinstance(last.value.left, ast.Name) \
            and last.value.left.id == b:
        m_ = last.value.right
    if isinstance(m_, ast.BinOp) and isinstance(m_.op, ast.Sub) and isinstance(m_.left, ast.Name) and m_.left.id == e and isinstance(m_.right, ast.Name):
        # e and s themselves must not change between the reduction and the use
        s_ = m_.right.id
        for x in own_walk(f.node):
            if last.lineno < getattr(x, 'lineno', 0) < line and isinstance(x, (ast.Assign, ast.AugAssign)):
                tg = x.targets if isinstance(x, ast.Assign) else [x.target]
                if any(isinstance(y, ast.Name) and y.id in (e, s_, b) for t in tg for y in ast.walk(t)):
                    return None
        return s_
    return None


def tuple_validator_facts(model, mname, idx, width):
    """For a method whose every return is a tuple of `width` of its own (normalised) parameters: the facts that hold for the
    parameter at position idx at the returns."""
    if model is None:
        return None
    cands = [ci.methods[mname] for c, ci in model.classes.items() if mname in ci.methods]
    out = None
    for g in cands:
        rets = [x for x in own_walk(g.node) if isinstance(x, ast.Return)]
        if not rets:
            return None
        for x in rets:
            if not (isinstance(x.value, ast.Tuple) and len(x.value.elts) == width and isinstance(x.value.elts[idx], ast.Name)
                    and x.value.elts[idx].id in g.params()):
                return None
            fx = facts_before(g, x.value.elts[idx].id, x.lineno)
            out = fx if out is None else (out & fx)
    return out


def _endian_assert_exhaustive(m, f, a):
    """An assertion about the endianness character inside the endian if-chain of a struct-token parser: evaluate the chain for
    every character of the regex's endian class; if no character runs into a failing assertion, it cannot fail."""
    from . import tables as T
    try:
        chain = T._endian_chain(f)
    except AnalysisError:
        return False
    if chain is None:
        return False
    classes = set()
    for name in T.STRUCT_REGEXES:
        try:
            pat = T._regex_literal(m, name)
            for cls_ in T.regex_classes(pat):
                if cls_ & set('<>@='):
                    classes |= set(cls_)
        except Exception:
            return False
    if not classes or not classes <= set('<>@=!'):
        return False
    try:
        return all(chain(ch) != 'AssertionError' for ch in classes)
    except AnalysisError:
        return False


def _fresh_copy_unflagged(m, f, test):
    """`assert X.immutable is False` where X is (a local holding, or an attribute just assigned) the result of store._copy(), and
    BitStore._copy is still 'return BitStore(<bitarray>)' with the constructor's flag defaulting to False."""
    if not (isinstance(test, ast.Compare) and len(test.ops) == 1 and isinstance(test.ops[0], ast.Is) and isinstance(test.comparators[0], ast.Constant)
            and test.comparators[0].value is False and isinstance(test.left, ast.Attribute) and test.left.attr == 'immutable'):
        return False
    cp = m.classes.get('BitStore') and m.classes['BitStore'].methods.get('_copy')
    init = m.classes.get('BitStore') and m.classes['BitStore'].methods.get('__init__')
    if cp is None or init is None:
        return False
    rets = [x for x in own_walk(cp.node) if isinstance(x, ast.Return)]
    if len(rets) != 1 or not (isinstance(rets[0].value, ast.Call) and ast.unparse(rets[0].value.func) == 'BitStore' and len(rets[0].value.args) == 1
                              and not rets[0].value.keywords):
        return False
    a = init.node.args
    dflt = dict(zip([x.arg for x in a.args][-len(a.defaults):], a.defaults)) if a.defaults else {}
    if not (isinstance(dflt.get('immutable'), ast.Constant) and dflt['immutable'].value is False):
        return False
    target = ast.unparse(test.left.value)
    src = [x for x in own_walk(f.node) if isinstance(x, ast.Assign) and len(x.targets) == 1 and ast.unparse(x.targets[0]) == target]
    if not src:
        return False
    for x in src:
        v = x.value
        if isinstance(v, ast.Name):
            vs = [y for y in own_walk(f.node) if isinstance(y, ast.Assign) and len(y.targets) == 1 and ast.unparse(y.targets[0]) == v.id]
            if len(vs) != 1:
                return False
            v = vs[0].value
        if not (isinstance(v, ast.Call) and isinstance(v.func, ast.Attribute) and v.func.attr == '_copy' and not v.args):
            return False
    return True


def _merge_chain(t):
    """`a <= b and b <= c` written as the chain `a <= b <= c` (the form the reason table uses); anything else unchanged."""
    if isinstance(t, ast.BoolOp) and isinstance(t.op, ast.And) and len(t.values) == 2 and all(isinstance(v, ast.Compare) and len(v.ops) == 1 for v in t.values):
        a, b = t.values
        flip = {ast.Gt: ast.Lt, ast.GtE: ast.LtE, ast.Lt: ast.Gt, ast.LtE: ast.GtE}
        if isinstance(a.comparators[0], ast.Constant) and ast.dump(a.left) == ast.dump(b.left) and type(a.ops[0]) in flip:
            # `x >= 0 and x <= n` (constants to the right) is `0 <= x and x <= n`
            a = ast.Compare(left=a.comparators[0], ops=[flip[type(a.ops[0])]()], comparators=[a.left])
        if ast.dump(a.comparators[0]) == ast.dump(b.left) and isinstance(b.left, (ast.Name, ast.Constant)):
            return ast.Compare(left=a.left, ops=[a.ops[0], b.ops[0]], comparators=[a.comparators[0], b.comparators[0]])
    return t


def _assert_needs(test, params):
    """Translate an assert on helper parameters into {param: set of needed facts}; None if not of a known shape."""
    needs = {}
    t = test
    if isinstance(t, ast.BoolOp) and isinstance(t.op, ast.And):
        for v in t.values:
            sub = _assert_needs(v, params)
            if sub is None:
                return None
            for k, w in sub.items():
                needs.setdefault(k, set()).update(w)
        return needs
    if isinstance(t, ast.Compare):
        ops, vals = t.ops, [t.left] + t.comparators
        for i, op in enumerate(ops):
            a, b = vals[i], vals[i + 1]
            if isinstance(b, ast.Name) and b.id in params and G.is_zero(a):
                needs.setdefault(b.id, set()).add('ge0' if isinstance(op, ast.LtE) else 'gt0' if isinstance(op, ast.Lt) else '?')
            elif isinstance(a, ast.Name) and a.id in params and G.is_len_of(b, 'self'):
                needs.setdefault(a.id, set()).add('le_len' if isinstance(op, ast.LtE) else 'lt_len' if isinstance(op, ast.Lt) else '?')
            elif isinstance(a, ast.Name) and a.id in params and G.is_zero(b) and isinstance(op, ast.GtE):
                needs.setdefault(a.id, set()).add('ge0')
            elif isinstance(a, ast.Name) and a.id in params and G.is_zero(b) and isinstance(op, ast.Gt):
                needs.setdefault(a.id, set()).add('gt0')
            else:
                return None
        if any('?' in v for v in needs.values()):
            return None
        return needs
    return None


N1_REASONS = {
    ('bits:Bits._truncateleft', '0 <= bits <= len(self)'): 'only caller _ilshift passes n with 0 < n <= old length, after appending n bits',
    ('bits:Bits._truncateright', '0 <= bits <= len(self)'): 'only caller _irshift passes n with 0 < n <= old length, after prepending n bits',
    ('bits:Bits._delete', '0 <= pos <= len(self)'): 'helper-to-helper: _ror_msb0/_rol_msb0 pass positions inside the validated [start, end)',
    ('bits:Bits._delete', 'pos + bits <= len(self)'): 'helper-to-helper: bits < end - start after the modulo, pos + bits <= end',
    ('bits:Bits._reversebytes', '(end - start) % 8 == 0'): 'byteswap passes byteend - bytestart = 8 * bytesize',
    ('bits:Bits._absolute_slice', 'start < end'): 'start == end returns earlier; callers pass (n, len) with n <= len, (0, len - n), (0, bits), (len - bits, len) with 0 < bits',
    ('bits:Bits._find_lsb0', 'start <= end'): 'public find/rfind/findall pass the results of _validate_slice (validator summary: 0 <= start <= end <= len)',
    ('bits:Bits._findall_lsb0', 'start <= end'): 'as _find_lsb0',
    ('bits:Bits._rfind_lsb0', 'start <= end'): 'as _find_lsb0',
    ('bits:Bits._find_lsb0', 'bitstring.options.lsb0'): 'G1: the lsb0 variants are installed exactly when the option is true',
    ('bits:Bits._rfind_lsb0', 'bitstring.options.lsb0'): 'G1',
    ('bits:Bits._readue', 'codenum == 0'): 'local arithmetic: leadingzeros == 0 gives (1 << 0) - 1 == 0',
    ('bits:Bits._readtoken', 'length is not None'): "only caller is __main__.main, which passes b1.__len__()",
    ('bits:Bits._pp', 'bits_per_group == 0'): 'else-branch of `bits_per_group > 0`; callers pass a bit length >= 0',
    ('bits:Bits._pp', 'max_bits_per_line > 0'): 'groups_per_line >= 1 and bits_per_group > 0, or width_available >= 1 times a positive bits-per-char, or the explicit 24',
    ('array_:Array._promotetype', 'is_int(type1) and is_int(type2)'): 'case analysis: the float cases returned above and exactly two kind flags are set',
    ('utils:structparser', "endian == '>'"): 'H1: the endian character class of STRUCT_PACK_RE is exhausted by the branches',
    ('utils:parse_single_struct_token', "endian in '=@'"): 'H1: the endian character class of SINGLE_STRUCT_PACK_RE is exhausted by the branches',
    ('bitarray_:BitArray.__copy__', 's_copy._bitstore.immutable is False'): 'A8: _copy builds a new BitStore whose flag defaults to False',
    ('mxfp:MXFPFormat.createLUT_for_float16_to_mxfp', 'length in [4, 6]'): 'table generator, not reachable from the public API',
    ('bits:Bits._insert', '0 <= pos <= len(self)@bitarray_:BitArray._ror_msb0'): 'start is a validated position',
    ('bits:Bits._insert', '0 <= pos <= len(self)@bitarray_:BitArray._rol_msb0'): 'end - bits lies in [start, end) after the deletion of bits bits',
    ('bits:Bits._imul', 'n >= 0@bits:Bits._imul'): 'n/a',
}


def rule_N1(ctx):
    """Every assert is established by its callers' guards (facts) or carries a reviewed reason."""
    m = ctx.m
    r = RuleResult('N1', 'assert obligations: discharged by dominating guards at every public call site, or by a reason')
    _MODEL[0] = m
    sites = []
    for f in m.funcs.values():
        for x in own_walk(f.node):
            if isinstance(x, ast.Assert):
                sites.append((f, x))
    if len(sites) < 20:
        raise AnalysisError(f'only {len(sites)} asserts found (floor 20)')
    cg = ctx.callgraph()
    callers = {}
    for n, es in cg.items():
        for (c, cs) in es:
            callers.setdefault(c[0], []).append((n, cs))
    used = set()
    for f, a in sites:
        txt = norm(_merge_chain(a.test))
        fk = ctx.rk(f.key)
        is_gen = any(isinstance(y, (ast.Yield, ast.YieldFrom)) for y in own_walk(f.node))
        if is_gen and 'options.' in txt:
            # a generator body runs when it is consumed, not when the (mode-switched) method was called
            r.fail(f.key, f'assert {txt}', 'this assertion about a module option sits in a generator: the option can be changed between the call '
                   'that created the generator and its consumption, and the user then sees AssertionError', loc=f.loc(a))
            continue
        if _endian_assert_exhaustive(m, f, a):
            r.ok(f'{f.key}: {txt}', sample={'instance': f.key, 'assert': txt, 'verdict': 'cannot fail: the if-chain in front of it and the assertion together cover '
                                                 'exactly the endianness characters the regular expression admits (evaluated for each of them, rule H1)'})
            continue
        if _fresh_copy_unflagged(m, f, a.test):
            r.ok(f'{f.key}: {txt}', sample={'instance': f.key, 'assert': txt, 'verdict': "holds by construction: the value is the result of the store's "
                                                 '_copy(), which builds a new store with the default (False) flag'})
            continue
        rk = _rmatch(ctx, N1_REASONS, fk, txt, f)
        if rk is not None:
            used.add(rk)
            r.ok(f'{f.key}: {txt}', reason=True, sample={'instance': f.key, 'assert': txt, 'reason': N1_REASONS[rk]})
            continue
        params = f.params()
        needs = _assert_needs(a.test, params)
        if needs is None:
            # an assertion about locals of the function itself (e.g. a helper's precondition after the helper was folded into its
            # caller): discharged by the function's own dominating guards
            local_names = [y.id for y in ast.walk(a.test) if isinstance(y, ast.Name) and y.id not in params and y.id != 'len']
            loc_needs = _assert_needs(a.test, local_names) if local_names else None
            if loc_needs and all(need <= facts_before(f, v, a.lineno, node=a) for v, need in loc_needs.items()):
                r.ok(f'{f.key}: {txt}', {'instance': f.key, 'assert': txt, 'verdict': 'established by the guards of the same function'})
                continue
        if needs is None:
            r.fail(f.key, f'assert {txt}', 'this assertion is neither of a shape the fact engine understands nor justified in the reason table: '
                   'if a public call can violate it the user sees AssertionError', loc=f.loc(a))
            continue
        # every call site must establish the needed facts for the argument it passes
        bad = None
        n_sites = 0
        for (cn, cs) in callers.get(f.key, []):
            g = m.funcs[cn[0]]
            if not isinstance(cs.node, ast.Call):
                continue
            if _rmatch(ctx, N1_REASONS, ctx.rk(f.key), f'{txt}@{ctx.rk(g.key)}', f) is not None:
                continue
            n_sites += 1
            # map parameters to argument expressions (skip self)
            pos = [p for p in params if p != 'self']
            args = list(cs.node.args)
            if isinstance(cs.node.func, ast.Attribute) and isinstance(cs.node.func.value, ast.Name) and cs.node.func.value.id in m.classes:
                args = args[1:]     # Class.method(self, ...)
            for p, need in needs.items():
                if p not in pos or pos.index(p) >= len(args):
                    bad = (g, cs.node, p, need, 'argument not found')
                    continue
                arg = args[pos.index(p)]
                if isinstance(arg, ast.Name) and arg.id not in g.params():
                    # a local that only names an expression (`insert_at = end - bits`): judge the expression
                    defs_ = [y for y in own_walk(g.node) if isinstance(y, (ast.Assign, ast.AugAssign, ast.For)) and any(
                        isinstance(z, ast.Name) and z.id == arg.id for t in (y.targets if isinstance(y, ast.Assign) else [y.target]) for z in ast.walk(t))]
                    if len(defs_) == 1 and isinstance(defs_[0], ast.Assign) and len(defs_[0].targets) == 1 and isinstance(defs_[0].targets[0], ast.Name) \
                            and isinstance(defs_[0].value, ast.BinOp):
                        arg = defs_[0].value
                if isinstance(arg, ast.Constant) and isinstance(arg.value, int):
                    have = {'ge0'} if arg.value >= 0 else set()
                    if arg.value > 0:
                        have |= {'gt0', 'ne0'}
                elif isinstance(arg, ast.Name):
                    have = facts_before(g, arg.id, cs.node.lineno, node=cs.node)
                elif isinstance(arg, ast.Call) and isinstance(arg.func, ast.Name) and arg.func.id == 'min' and len(arg.args) == 2 and not arg.keywords \
                        and any(_is_len_self(a, _len_aliases(g)) for a in arg.args) and any(isinstance(a, ast.Name) for a in arg.args):
                    # f(min(v, len(self))): the clipping `v = min(v, len(self))` written in the argument
                    v = next(a for a in arg.args if isinstance(a, ast.Name) and not _is_len_self(a, _len_aliases(g)))
                    have = facts_before(g, v.id, cs.node.lineno, node=cs.node) | {'le_len'}
                elif isinstance(arg, ast.BinOp) and isinstance(arg.op, ast.Sub) and isinstance(arg.left, ast.Name) and isinstance(arg.right, ast.Name) \
                        and _reduced_modulo(g, arg.right.id, arg.left.id, cs.node.lineno):
                    # f(e - b) after `b %= e - s` with s, e validated: 0 <= b < e - s, hence s < e - b <= e, inside [0, len]
                    e_facts = facts_before(g, arg.left.id, cs.node.lineno, node=cs.node)
                    s_name = _reduced_modulo(g, arg.right.id, arg.left.id, cs.node.lineno)
                    s_facts = facts_before(g, s_name, cs.node.lineno, node=cs.node)
                    have = set()
                    if 'le_len' in e_facts:
                        have.add('le_len')
                    if 'ge0' in s_facts:
                        have |= {'ge0'}
                else:
                    have = set()
                if not need <= have:
                    bad = (g, cs.node, p, need - have, f"argument {norm(arg)}")
        if bad:
            g, nd, p, miss, what = bad
            r.fail(f.key, f'assert {txt} <- {g.key}', f"{g.key} can call {f.name} without establishing {sorted(miss)} for '{p}' ({what}): the "
                   'helper\'s assert turns a bad argument into AssertionError instead of a documented exception', loc=g.loc(nd),
                   extra={'props': ['C20', 'C03', 'C16']})
        else:
            r.ok(f'{f.key}: {txt}', {'instance': f.key, 'assert': txt, 'call_sites_checked': n_sites, 'needs': {k: sorted(v) for k, v in needs.items()}})
    return r


N2_REASONS = {
    ('dtypes:Dtype._create', 'x._bits_per_item'): 'n/a',
    ('bits:Bits._read_dtype_list', 'dtype.bits_per_item'): 'multiplier > 0 is enforced in DtypeDefinition.__init__',
    ('bitstream:ConstBitStream.read', 'dtype.bits_per_item'): 'multiplier > 0 is enforced in DtypeDefinition.__init__',
    ('dtypes:scaled_set_fn.wrapper', 'scale'): 'Dtype._set_scale rejects a zero scale before installing the wrapper',
    ('bitstore:offset_slice_indices_lsb0', 'step'): 'indices() returns a non-zero step (slice.indices raises ValueError for step 0)',
    ('bits:Bits._pp', 'chars_per_24_bits'): 'sum of two positive widths: _bits_per_char admitted only bin/oct/hex/bytes',
    ('bits:Bits._pp', 'offset_factor'): 'callers pass 1 or the (non-zero) item width',
    ('bits:Bits._bits_per_char', 'dtype_register[fmt].bitlength2chars_fn(24)'): '24 bits give 6, 8, 24 or 3 characters for the four names admitted by the preceding membership test',
    ('dtypes:AllowedLengths.__contains__', 'self.values[1] - self.values[0]'): 'H3: open-ended allowed_lengths literals are equally spaced with a non-zero step',
    ('fp8:Binary8Format.createLUT_for_binary8_to_float', '2.0 ** (7 - self.exp_bits)'): 'power of two',
    ('mxfp:MXFPFormat.createLUT_for_int_to_float', '2.0 ** self.mantissa_bits'): 'power of two',
    ('bits:Bits._readse', '2'): 'literal',
}


def rule_N2(ctx):
    """Every division has a divisor that cannot be zero."""
    m = ctx.m
    r = RuleResult('N2', 'division obligations: literal, guarded, or justified non-zero divisors')
    _CTX[0] = ctx
    n = 0
    arr_ok = None
    for f in m.funcs.values():
        fa = None
        for x in own_walk(f.node):
            div = None
            if isinstance(x, ast.BinOp) and isinstance(x.op, (ast.Div, ast.FloorDiv, ast.Mod)):
                if isinstance(x.op, ast.Mod):
                    fa = fa or ctx.R.analyse(f, None) if f.cls not in FAMILY else ctx.R.analyse(f, f.cls)
                    lt = fa.expr_type.get(id(x.left), ANY)
                    if isinstance(x.left, (ast.Constant, ast.JoinedStr)) or 'str' in lt:
                        continue      # string formatting
                div = x.right
                node = x
            elif isinstance(x, ast.AugAssign) and isinstance(x.op, (ast.Div, ast.FloorDiv, ast.Mod)):
                div, node = x.value, x
            elif isinstance(x, ast.Call) and isinstance(x.func, ast.Name) and x.func.id == 'divmod' and len(x.args) == 2:
                div, node = x.args[1], x
            if div is None:
                continue
            n += 1
            dt = norm(div)
            # 1. constants and powers
            try:
                v = fold(div)
                if v != 0:
                    r.ok(f'{f.key}:{norm(node)}', trivial=True)
                    continue
            except (ValueError, TypeError, ZeroDivisionError):
                pass
            if isinstance(div, ast.BinOp) and isinstance(div.op, (ast.Pow, ast.LShift)):
                r.ok(f'{f.key}:{norm(node)}', trivial=True)
                continue
            # 2. guards
            if _nonzero_guarded(f, node, div):
                r.ok(f'{f.key}:{norm(node)}', {'instance': f.key, 'division': norm(node), 'verdict': 'dominating non-zero guard'})
                continue
            # 3. Array item width: invariant established by N2a
            dt_x = ast.unparse(G.expand(f, div))          # through a local such as `itemsize = self._dtype.bitlength`
            if f.cls == 'Array' and ('_dtype.bitlength' in dt or dt == 'self.itemsize' or '_dtype.bitlength' in dt_x or dt_x == 'self.itemsize'):
                if arr_ok is None:
                    from .dims import rule_N2a
                    arr_ok = not rule_N2a(ctx).findings
                if arr_ok:
                    r.ok(f'{f.key}:{norm(node)}', reason=True)
                    continue
            rk = _rmatch(ctx, N2_REASONS, ctx.rk(f.key), dt, f)
            if rk is not None:
                r.ok(f'{f.key}:{norm(node)}', reason=True, sample={'instance': f.key, 'divisor': dt, 'reason': N2_REASONS[rk]})
                continue
            # a division whose ZeroDivisionError is caught where it happens
            if any(isinstance(t_, ast.Try) and any(node is y for b in t_.body for y in ast.walk(b)) and any(
                    G.handler_names(h) & {'ZeroDivisionError', 'ArithmeticError', 'Exception', '*'} for h in t_.handlers) for t_ in own_walk(f.node)):
                r.ok(f'{f.key}:{norm(node)}', {'instance': f.key, 'divisor': dt, 'verdict': 'under a ZeroDivisionError handler'})
                continue
            r.fail(f.key, f'{norm(node)}', f"the divisor '{dt}' can be zero on some path (no dominating guard, not a non-zero constant, no reviewed reason): "
                   'ZeroDivisionError reaches the caller', loc=f.loc(node))
    if n < 20:
        raise AnalysisError(f'only {n} divisions found (floor 20)')
    return r


_CTX = [None]


def _nonzero_guarded(f, node, div):
    names = {x.id for x in ast.walk(div) if isinstance(x, ast.Name)}
    dt = ast.unparse(div)
    # conditional expression: X % g if ... and g else 0
    for x in own_walk(f.node):
        if isinstance(x, ast.IfExp):
            pt, pbody, pelse = G.pos_if(x)
            if any(node is y for y in ast.walk(pbody)):
                conj = pt.values if isinstance(pt, ast.BoolOp) and isinstance(pt.op, ast.And) else [pt]
                if any(ast.unparse(c) == dt or (isinstance(c, ast.Compare) and ast.unparse(c.left) == dt and isinstance(c.ops[0], (ast.Gt, ast.NotEq)) and G.is_zero(c.comparators[0]))
                       for c in conj):
                    return True
            elif any(node is y for y in ast.walk(pelse)):
                # the division sits where the (positive) test is false: `0 if not d else x % d` reads as `x % d if d else 0`
                u = ast.unparse(pt)
                if u in (f'{dt} == 0', f'0 == {dt}', f'{dt} <= 0', f'{dt} < 1'):
                    return True
    line = node.lineno

    def zero_test(t):
        """test true => divisor is zero (so leaving on it makes the divisor non-zero afterwards)"""
        for d in G.disjuncts(t):
            u = ast.unparse(d)
            if u in (f'{dt} == 0', f'not {dt}', f'0 == {dt}', f'{dt} <= 0', f'{dt} < 1'):
                return True
            # a - b with `a == b` test
            if isinstance(div, ast.BinOp) and isinstance(div.op, ast.Sub) and isinstance(d, ast.Compare) and isinstance(d.ops[0], ast.Eq):
                pair = {ast.unparse(d.left), ast.unparse(d.comparators[0])}
                if pair == {ast.unparse(div.left), ast.unparse(div.right)}:
                    return True
        return False

    def scan(stmts):
        for s in stmts:
            if getattr(s, 'lineno', 0) > line:
                return False
            if isinstance(s, ast.If):
                contains = any(y is node for y in ast.walk(s))
                if not contains and G.exits(s.body) and zero_test(s.test):
                    return True
                # `if not d: d = <item width>`: replaced by the Array's non-zero item width (N2a)
                if not contains and zero_test(s.test) and len(s.body) == 1 and isinstance(s.body[0], ast.Assign) \
                        and ast.unparse(s.body[0].targets[0]) == dt and ast.unparse(s.body[0].value) in ('self.itemsize', 'self._dtype.bitlength') \
                        and f.cls == 'Array' and not s.orelse:
                    from .dims import rule_N2a
                    if not rule_N2a(_CTX[0]).findings:
                        return True
                if contains:
                    in_body = any(y is node for b in s.body for y in ast.walk(b))
                    # enclosing positive test on the divisor itself
                    t = s.test
                    conj = t.values if isinstance(t, ast.BoolOp) and isinstance(t.op, ast.And) else [t]
                    if in_body and any(ast.unparse(c) == dt or (isinstance(c, ast.Compare) and ast.unparse(c.left) == dt and isinstance(c.ops[0], (ast.Gt, ast.NotEq))
                                                               and G.is_zero(c.comparators[0])) for c in conj):
                        return True
                    if in_body and (ast.unparse(t) == dt or (isinstance(t, ast.Compare) and ast.unparse(t.left) == dt and isinstance(t.ops[0], (ast.Gt, ast.NotEq)) and G.is_zero(t.comparators[0]))):
                        return True
                    # the division sits in the else branch of a test that is true exactly when the divisor is zero
                    if not in_body and zero_test(t):
                        return True
                    # ... or in the body of the negation of such a test (`if start != end: bits %= end - start`)
                    if in_body and any(zero_test(G.canon_truth(ast.UnaryOp(op=ast.Not(), operand=c))) for c in conj):
                        return True
                    return scan(s.body if in_body else s.orelse)
            elif isinstance(s, (ast.For, ast.While, ast.With, ast.Try)):
                if any(y is node for y in ast.walk(s)):
                    return scan(s.body)
        return False
    return scan(G.body_wo_doc(f))


# ---------------------------------------------------------------------------------------------- N5
N5_REASONS = {
    ('utils:structparser', 'REPLACEMENTS_NE[c]'): 'H1: c ranges over the struct-code class of STRUCT_PACK_RE = the table keys',
    ('utils:structparser', 'REPLACEMENTS_LE[c]'): 'H1',
    ('utils:structparser', 'REPLACEMENTS_BE[c]'): 'H1',
    ('utils:parse_single_struct_token', 'REPLACEMENTS_BE[f]'): 'H1: f is the struct-code group of SINGLE_STRUCT_PACK_RE',
    ('utils:parse_single_struct_token', 'REPLACEMENTS_LE[f]'): 'H1',
    ('utils:parse_single_struct_token', 'REPLACEMENTS_NE[f]'): 'H1',
    ('bitarray_:BitArray.byteswap', 'utils.PACK_CODE_SIZE[f]'): 'H1: f comes from STRUCT_SPLIT_RE over a BYTESWAP_STRUCT_PACK_RE match',
    ('bitarray_:BitArray.byteswap', 'utils.PACK_CODE_SIZE[f[-1]]'): 'H1',
    ('bits:Bits._getfloatbe', "{16: '>e', 32: '>f', 64: '>d'}[len(self)]"): 'H2: the registry get_fn checks len(bs) against allowed_lengths = the table keys; _readtoken also converts KeyError',
    ('bits:Bits._getfloatle', "{16: '<e', 32: '<f', 64: '<d'}[len(self)]"): 'H2',
    ('bitstore_helpers:float2bitstore', "{16: '>e', 32: '>f', 64: '>d'}[length]"): 'H2: _setfloat rejects lengths outside the same list',
    ('bitstore_helpers:float2bitstore', "{16: '<e', 32: '<f', 64: '<d'}[length]"): 'H2',
    ('dtypes:Register.__getitem__', 'cls.names[name]'): 'callers pass Dtype.name of an existing Dtype or a name just checked against the layout tables (H3)',
    ('dtypes:Dtype.__str__', 'dtype_register.names[self._name]'): 'the Dtype was created from this registry entry',
    ('dtypes:Dtype.__repr__', 'dtype_register.names[self._name]'): 'the Dtype was created from this registry entry',
    ('dtypes:Dtype._create', 'dtype_register.names[x._name]'): 'x._name is definition.name of a registered definition',
    ('dtypes:Dtype._create', 'dtype_register.names[definition.name]'): 'the same lookup written with the definition itself: _create is called by DtypeDefinition.get_dtype only (rule CHOKE), with a registered definition',
    ('dtypes:Register.add_dtype_alias', 'cls.names[name]'): 'H3: every alias source is registered before use (both byte-order branches)',
    ('dtypes:Register.add_dtype_alias', 'cls.names[alias]'): 'assigned on the previous line',
    ('fp8:Binary8Format.decompress_luts', 'binary8_luts_compressed[self.exp_bits, self.bias]'): 'H5c: every format object has its table key',
    ('mxfp:MXFPFormat.decompress_luts', 'mxfp_luts_compressed[self.exp_bits, self.mantissa_bits, self.bias, self.mxfp_overflow]'): 'H5c',
}


def _keys_are_allowed_lengths(ctx, f, base):
    """The table's keys are exactly the allowed_lengths of a dtype whose set/get function reaches ``f``: the length choke
    point (rule CHOKE) lets no other length exist, so the lookup cannot miss."""
    m = ctx.m
    d = base
    if not isinstance(d, ast.Dict):
        nm = ast.unparse(base).split('.')[-1]
        d = None
        for mod in m.mods:
            gv = m.modglobals[mod].get(nm)
            if isinstance(gv, ast.Dict):
                d = gv
    if not isinstance(d, ast.Dict) or not d.keys or not all(isinstance(k, ast.Constant) and isinstance(k.value, int) for k in d.keys):
        return False
    keys = {k.value for k in d.keys}
    for e in m.registry:
        al = e.get('allowed_lengths') or ()
        if not al or Ellipsis in al or set(al) != keys:
            continue
        cache = ctx.__dict__.setdefault('_al_cache', {})
        ck = e['name']
        if ck not in cache:
            roots = []
            for role in ('set_fn', 'get_fn'):
                g = m.func_by_dotted(e[role]) if e.get(role) else None
                if g is not None:
                    for cx in ctx.R.contexts(g):
                        roots.append(ctx.node(g, cx))
            cache[ck] = {n[0] for n in ctx.reachable(roots)}
        if f.key in cache[ck]:
            return f"keys = allowed_lengths of '{e['name']}' (no other length passes the dtype choke point)"
    return False


def _keys_cover_regex_class(ctx, f, base, key):
    """The key is the endianness character a struct-token regular expression matched, and the table has an entry for every
    character of that regex's endian class (H1 checks what each entry selects)."""
    from . import tables as T
    m = ctx.m
    d = base
    if not isinstance(d, ast.Dict):
        nm = ast.unparse(base).split('.')[-1]
        d = None
        for mod in m.mods:
            gv = m.modglobals[mod].get(nm)
            if isinstance(gv, ast.Dict):
                d = gv
    if not isinstance(d, ast.Dict) or not all(isinstance(k, ast.Constant) and isinstance(k.value, str) for k in d.keys):
        return False
    kt = ast.unparse(key)
    from_match = "group('endian')" in kt or 'group("endian")' in kt
    if isinstance(key, ast.Name):
        from_match = any(isinstance(y, ast.Assign) and any(isinstance(t, ast.Name) and t.id == key.id for t in y.targets) and "group('endian')" in ast.unparse(y.value)
                         for y in own_walk(f.node)) or key.id == 'endian'
    if not from_match:
        return False
    classes = set()
    import re as _re2
    try:
        # which regular expression the match object of this function comes from (the pairing rule H1 uses)
        own = {'utils:structparser': ('STRUCT_PACK_RE',), 'utils:parse_single_struct_token': ('SINGLE_STRUCT_PACK_RE',)}.get(ctx.rk(f.key))
        for name in own or T.STRUCT_REGEXES:
            pat = T._regex_literal(m, name)
            if 'endian' not in pat:
                continue
            if _re2.search(r'\(\?P<endian>[^)]*\)[?*]', pat):
                return False          # the group may be absent (None is not a key)
            for cls_ in T.regex_classes(pat):
                if cls_ & set('<>@='):
                    classes |= set(cls_)
    except Exception:
        return False
    keys = {k.value for k in d.keys}
    if classes and classes <= keys:
        return 'the table has an entry for each endianness character the regular expression admits'
    return False


def rule_N5(ctx):
    """Every lookup in a dict table by a run-time key is guarded (membership test, try/except KeyError) or justified."""
    m = ctx.m
    r = RuleResult('N5', 'dict-table lookups cannot raise KeyError to the caller')
    n = 0
    for f in m.funcs.values():
        fa = None
        for x in own_walk(f.node):
            if not (isinstance(x, ast.Subscript) and isinstance(x.ctx, ast.Load)):
                continue
            base = x.value
            is_table = isinstance(base, ast.Dict)
            if not is_table:
                txt = ast.unparse(base)
                nm = txt.split('.')[-1]
                for mod in m.mods:
                    gv = m.modglobals[mod].get(nm)
                    if isinstance(gv, ast.Dict) and (txt == nm and (mod == f.mod or nm in m.imports[f.mod]) or txt.endswith('.' + nm)):
                        is_table = True
                if nm in ('names', '_largest_values') and isinstance(base, ast.Attribute):
                    is_table = True
            if not is_table or isinstance(x.slice, ast.Slice):
                continue
            n += 1
            key = norm(x)
            # guarded by try/except KeyError (or a superclass)
            guarded = False
            for t in own_walk(f.node):
                if isinstance(t, ast.Try) and any(x is y for b in t.body for y in ast.walk(b)):
                    if any(G.handler_names(h) & {'KeyError', 'LookupError', 'Exception', '*'} for h in t.handlers):
                        guarded = True
                if isinstance(t, ast.If):
                    pt, pbody, pelse = G.pos_if(t)
                    tt = ast.unparse(pt)
                    if f'{ast.unparse(x.slice)} in {ast.unparse(base)}' in tt and any(x is y for b in pbody for y in ast.walk(b)):
                        guarded = True
                    # `if key not in table: raise` before the lookup (the positive branch is everything after it)
                    if f'{ast.unparse(x.slice)} in {ast.unparse(base)}' in tt and G.exits(pelse) and not pbody and t.lineno < x.lineno \
                            and any(t is st for st in G.body_wo_doc(f)):
                        guarded = True
                if isinstance(t, (ast.For, ast.comprehension)) and ast.unparse(t.target) == ast.unparse(x.slice) and \
                        ast.unparse(t.iter) in (ast.unparse(base), ast.unparse(base) + '.keys()'):
                    guarded = True       # the key iterates over the table itself
            if not guarded and isinstance(x.slice, ast.Constant):
                # a literal key that the literal table lists
                tbl = base if isinstance(base, ast.Dict) else None
                if tbl is None:
                    nm_ = ast.unparse(base).split('.')[-1]
                    for mod in m.mods:
                        gv = m.modglobals[mod].get(nm_)
                        if isinstance(gv, ast.Dict):
                            tbl = gv
                if tbl is not None and any(isinstance(k, ast.Constant) and k.value == x.slice.value and type(k.value) is type(x.slice.value) for k in tbl.keys):
                    guarded = 'literal key listed in the table'
            if not guarded:
                guarded = _keys_are_allowed_lengths(ctx, f, base)
            if not guarded:
                guarded = _keys_cover_regex_class(ctx, f, base, x.slice)
            if guarded:
                r.ok(f'{f.key}:{key}', {'instance': f.key, 'lookup': key, 'verdict': 'membership test / KeyError handler' if guarded is True else guarded})
            elif _rmatch(ctx, N5_REASONS, ctx.rk(f.key), key, f) is not None:
                r.ok(f'{f.key}:{key}', reason=True)
            else:
                r.fail(f.key, key, 'a table is indexed by a run-time key with no membership test, no KeyError handler and no reviewed reason: an '
                       'unexpected key reaches the caller as KeyError', loc=f.loc(x))
    if n < 15:
        raise AnalysisError(f'only {n} table lookups found (floor 15)')
    return r


# ---------------------------------------------------------------------------------------------- D5
def _callers_handle(ctx, f, exc):
    """f is a private function and every call of it (anywhere in the package) sits in the body of a try with a handler for exc."""
    m = ctx.m
    if not f.name.startswith('_') or f.name.startswith('__') or f.parent is not None:
        return False
    sites = 0
    for g in m.funcs.values():
        for x in ast.walk(g.node) if g.parent is None else ():
            if isinstance(x, ast.Call) and ((isinstance(x.func, ast.Name) and x.func.id == f.name) or (isinstance(x.func, ast.Attribute) and x.func.attr == f.name)):
                sites += 1
                ok = False
                for t in ast.walk(g.node):
                    if isinstance(t, ast.Try) and any(x is y for b in t.body for y in ast.walk(b)):
                        if any(G.handler_names(h) & {exc, 'Exception', '*'} for h in t.handlers):
                            ok = True
                if not ok:
                    return False
    # the name must not be handed around as a value either
    for g in m.funcs.values():
        if g.parent is None:
            calls = {id(x.func) for x in ast.walk(g.node) if isinstance(x, ast.Call)}
            for x in ast.walk(g.node):
                if ((isinstance(x, ast.Name) and x.id == f.name) or (isinstance(x, ast.Attribute) and x.attr == f.name)) and id(x) not in calls \
                        and not (isinstance(x, ast.Name) and isinstance(x.ctx, ast.Store)):
                    return False
    return sites > 0


def rule_D5(ctx):
    """Leaf calls that raise undocumented classes are contained: next() without default sits under a StopIteration handler,
    struct.pack of a caller-supplied float under an OverflowError handler."""
    m = ctx.m
    r = RuleResult('D5', 'StopIteration from next() and OverflowError from struct.pack never reach the caller')
    n = 0
    for f in m.funcs.values():
        if f.mod in ('__main__',) or (f.cls in ('MXFPFormat', 'Binary8Format') and f.name.startswith(('createLUT', 'slow_'))):
            continue
        tries = [t for t in own_walk(f.node) if isinstance(t, ast.Try)]

        def handled(node, names):
            for t in tries:
                if any(node is y for b in t.body for y in ast.walk(b)):
                    for h in t.handlers:
                        if G.handler_names(h) & (set(names) | {'Exception', '*'}):
                            return True
            return False
        for x in own_walk(f.node):
            if isinstance(x, ast.Call) and isinstance(x.func, ast.Name) and x.func.id == 'next' and len(x.args) == 1 and not x.keywords:
                n += 1
                if handled(x, ['StopIteration']):
                    r.ok(f'{f.key}:{norm(x)}')
                elif _callers_handle(ctx, f, 'StopIteration'):
                    r.ok(f'{f.key}:{norm(x)}', {'instance': f.key, 'next': norm(x), 'verdict': 'private helper: every call site sits under a StopIteration handler'})
                else:
                    is_gen = any(isinstance(y, (ast.Yield, ast.YieldFrom)) for y in own_walk(f.node))
                    r.fail(f.key, x, 'next() without a default outside a StopIteration handler: an exhausted iterator surfaces as StopIteration'
                           + (' (RuntimeError inside this generator)' if is_gen else '') + ', which is not a documented exception', loc=f.loc(x))
            if isinstance(x, ast.Call) and ast.unparse(x.func) == 'struct.pack':
                n += 1
                fmt = x.args[0] if x.args else None
                is_float = not isinstance(fmt, ast.Constant) or any(ch in str(fmt.value) for ch in 'efd')
                val = x.args[1] if len(x.args) > 1 else None
                def _inf(v):
                    # float('inf') / float('-inf') / float('nan'), or a choice between them (whatever the test looks at)
                    if isinstance(v, ast.IfExp):
                        return _inf(v.body) and _inf(v.orelse)
                    return isinstance(v, ast.Call) and ast.unparse(v.func) == 'float' and len(v.args) == 1 and isinstance(v.args[0], ast.Constant) \
                        and str(v.args[0].value).lstrip('+-') in ('inf', 'nan')
                only_inf = val is not None and _inf(val)
                if not is_float or only_inf or handled(x, ['OverflowError', 'ArithmeticError']):
                    r.ok(f'{f.key}:{norm(x)}')
                else:
                    r.fail(f.key, x, 'struct.pack of a float can raise OverflowError (value too large for the format); it is not caught here and is not a '
                           'documented exception class', loc=f.loc(x))
    # bitarray's own shift operators take a C integer: a count of 2**63 or more raises OverflowError (the library's shifts accept
    # any count and give all zeros), so a count reaching them must have been clamped to the length
    for f in m.funcs.values():
        if f.mod == '__main__':
            continue
        for x in own_walk(f.node):
            if isinstance(x, (ast.BinOp, ast.AugAssign)) and isinstance(x.op, (ast.LShift, ast.RShift)):
                left = x.left if isinstance(x, ast.BinOp) else x.target
                right = x.right if isinstance(x, ast.BinOp) else x.value
                if '_bitarray' not in ast.unparse(left):
                    continue
                n += 1
                names = [y.id for y in ast.walk(right) if isinstance(y, ast.Name)]
                clamped = isinstance(right, ast.Constant) or any(
                    isinstance(y, ast.Assign) and any(isinstance(t, ast.Name) and t.id in names for t in y.targets) and isinstance(y.value, ast.Call)
                    and isinstance(y.value.func, ast.Name) and y.value.func.id == 'min' and 'len(' in ast.unparse(y.value) for y in own_walk(f.node))
                if clamped:
                    r.ok(f'{f.key}:{norm(x)}')
                else:
                    r.fail(f.key, x, "bitarray's shift operator converts the count to a C integer: a count of 2**63 or more raises OverflowError here, "
                           'while the library documents shifts by any count >= 0 (all zeros beyond the length); the count must be clamped to the length first',
                           loc=f.loc(x), extra={'props': ['C16', 'C20']})
    if n < 6:
        raise AnalysisError(f'only {n} next()/struct.pack sites found (floor 6)')
    return r


def _rmatch(ctx, table, fk, txt, f=None):
    from ..reasons import match
    keep = getattr(ctx, '_global_names', None)
    if keep is None:
        keep = set(ctx.m.classes)
        for mod, g in ctx.m.modglobals.items():
            keep |= set(g)
        for mod, g in ctx.m.modfuncs.items():
            keep |= set(g)
        keep |= {'dtype_register', 'math', 'struct', 're', 'sys', 'os', 'functools'}      # (module names are also ordinary words: bits, utils)
        ctx._global_names = keep
    fks = [fk] + ([k for k in ctx.rks(f.key) if k != fk] if f is not None else [])
    for one in fks:
        k = match(table, one, txt, keep | set(f.params()) if f is not None else keep, src=ast.unparse(f.node) if (f is not None and one == fk) else None,
                  params=set(f.params()) - {'self', 'cls'} if f is not None else ())
        if k is not None:
            return k
    return None


def rule_RNG(ctx):
    """A range and a slice read negative bounds differently (range(9, -1, -2) counts down to 0; slice(9, -1, -2) stops
    before the *last* element and is empty; range(-3, 0) names three positions from the end, slice(-3, 0) none), and a
    slice clips out-of-range bounds where a position must raise.  So a slice whose bounds are taken directly from a
    range's .start/.stop is only right under a dominating check that the bounds are non-negative and inside the object."""
    m = ctx.m
    r = RuleResult('RNG', 'a slice built from a range keeps the positions the range names (no raw .start/.stop reuse)')
    n = 0
    for f in m.funcs.values():
        if f.mod == '__main__':
            continue
        ranges = set()
        for x in own_walk(f.node):
            if isinstance(x, ast.Call) and isinstance(x.func, ast.Name) and x.func.id == 'isinstance' and len(x.args) == 2 \
                    and isinstance(x.args[0], ast.Name) and any(isinstance(y, ast.Name) and y.id == 'range' for y in ast.walk(x.args[1])):
                ranges.add(x.args[0].id)
            if isinstance(x, ast.Assign) and isinstance(x.value, ast.Call) and isinstance(x.value.func, ast.Name) and x.value.func.id == 'range':
                ranges |= {t.id for t in x.targets if isinstance(t, ast.Name)}
        for a in f.node.args.args + f.node.args.kwonlyargs:
            if a.annotation is not None and ast.unparse(a.annotation) == 'range':
                ranges.add(a.arg)
        for x in own_walk(f.node):
            if not (isinstance(x, ast.Call) and isinstance(x.func, ast.Name) and x.func.id == 'slice'):
                continue
            raw = [y for a in x.args for y in ast.walk(a) if isinstance(y, ast.Attribute) and y.attr in ('start', 'stop')
                   and isinstance(y.value, ast.Name) and y.value.id in ranges]
            n += 1
            if not raw:
                r.ok(f'{f.key}:{norm(x)}')
                continue
            names = {y.value.id for y in raw}
            g = any(isinstance(i, ast.If) and _range_bounds_checked(i.test, names) and any(x is y for b in i.body for y in ast.walk(b))
                    for i in own_walk(f.node))
            if g:
                r.ok(f'{f.key}:{norm(x)}')
            else:
                r.fail(f.key, x, f"slice bounds are taken directly from the range {sorted(names)}: a negative stop/start means something else in a "
                       'slice (range(9, -1, -2) names 9,7,..,1; slice(9, -1, -2) is empty) and out-of-range bounds are clipped instead of raising '
                       'IndexError, so the positions named by the range are not the positions written', loc=f.loc(x))
        for x in own_walk(f.node):
            if isinstance(x, ast.Call) and isinstance(x.func, ast.Name) and x.func.id == 'isinstance' and len(x.args) == 2 \
                    and isinstance(x.args[0], ast.Name) and x.args[0].id in ranges:
                n += 1
                r.ok(f'{f.key}:{norm(x)}')
    if n < 5:
        raise AnalysisError(f'only {n} slice() constructions found in the package (floor 5)')
    return r


def _range_bounds_checked(test, names):
    """The guard compares both a lower bound with 0 and an upper bound with a length, mentioning the range's bounds."""
    txt = ast.unparse(test)
    mentions = any(re.search(rf'\b{re.escape(nm)}\.(start|stop)\b', txt) for nm in names)
    return mentions and re.search(r'\b0\s*<=|>=\s*0\b', txt) is not None and 'len(' in txt


def rule_IDX1(ctx):
    """A single position k turned into the one-element window [k, k+1) must be non-negative first: for k = -1 the window
    is [-1, 0), which is empty, so a write/delete/read of "the last bit" silently does nothing (or hits the wrong bit for
    other negative k when the operation is not a plain slice).  Each such window needs a dominating fact k >= 0."""
    _MODEL[0] = ctx.m
    m = ctx.m
    r = RuleResult('IDX1', 'a position widened to the window [k, k+1) is known to be non-negative')
    n = 0
    for f in m.funcs.values():
        if f.mod == '__main__':
            continue
        for x in own_walk(f.node):
            lo = hi = None
            if isinstance(x, ast.Slice) and x.lower is not None and x.upper is not None and x.step is None:
                lo, hi = x.lower, x.upper
            elif isinstance(x, ast.Call) and isinstance(x.func, ast.Name) and x.func.id == 'slice' and len(x.args) >= 2:
                lo, hi = x.args[0], x.args[1]
            if lo is None or not (isinstance(hi, ast.BinOp) and isinstance(hi.op, ast.Add) and ast.dump(hi.left) == ast.dump(lo)):
                continue
            n += 1
            if not (isinstance(hi.right, ast.Constant) and hi.right.value == 1) or isinstance(lo, ast.Constant):
                r.ok(f'{f.key}:{norm(x)}', trivial=True)      # a wider window [k, k+N): census only
                continue
            if isinstance(lo, ast.Name) and 'ge0' in facts_before(f, lo.id, x.lineno if hasattr(x, 'lineno') else lo.lineno):
                r.ok(f'{f.key}:{norm(x)}')
                continue
            r.fail(f.key, x, f'the window [{ast.unparse(lo)}, {ast.unparse(lo)} + 1) is built from a position not known to be >= 0 here: '
                   'for -1 it is the empty window [-1, 0), so the last element is silently skipped', loc=f.loc(lo))
    if n < 10:
        raise AnalysisError(f'only {n} [k, k+N) windows found in the package (floor 10)')
    return r


def rule_SLN(ctx):
    """The bounds of a caller-supplied slice may be None or negative ("from the end").  They are positions only after
    slice.indices()/indices(); arithmetic on a raw bound (key.start + 1, len - key.stop) treats -1 as a position and
    produces the wrong window for every negative or omitted bound.  Raw bounds may be forwarded unchanged (to another
    slicing operation, which normalises them) or compared; arithmetic needs a test of the bound's sign around it."""
    m = ctx.m
    r = RuleResult('SLN', 'no arithmetic on raw (possibly negative or None) bounds of a caller-supplied slice')
    n = 0
    for f in m.funcs.values():
        if f.mod == '__main__':
            continue
        raw = set()
        for a in f.node.args.posonlyargs + f.node.args.args + f.node.args.kwonlyargs:
            if a.annotation is not None and ast.unparse(a.annotation).strip("'\"") == 'slice':
                raw.add(a.arg)
        for x in own_walk(f.node):
            if isinstance(x, ast.Call) and isinstance(x.func, ast.Name) and x.func.id == 'isinstance' and len(x.args) == 2 \
                    and isinstance(x.args[0], ast.Name) and isinstance(x.args[1], ast.Name) and x.args[1].id == 'slice' \
                    and x.args[0].id in f.params():
                raw.add(x.args[0].id)
        if not raw:
            continue
        # a name unconditionally re-bound (to a normalised slice) stops being raw from that statement on; a re-binding under
        # a condition leaves the raw value on the other path
        killed = {}
        for st in G.body_wo_doc(f):
            if isinstance(st, ast.Assign):
                for t in st.targets:
                    if isinstance(t, ast.Name) and t.id in raw:
                        killed.setdefault(t.id, st.lineno)

        def is_raw_bound(e):
            return isinstance(e, ast.Attribute) and e.attr in ('start', 'stop') and isinstance(e.value, ast.Name) and e.value.id in raw \
                and not (e.value.id in killed and e.lineno > killed[e.value.id])
        tainted = {}
        for x in own_walk(f.node):
            if isinstance(x, ast.Assign) and len(x.targets) == 1 and isinstance(x.targets[0], ast.Name):
                v = x.value
                cands = [v] + ([v.body, v.orelse] if isinstance(v, ast.IfExp) else [])
                for cnd in cands:
                    if is_raw_bound(cnd):
                        tainted[x.targets[0].id] = cnd
        for x in own_walk(f.node):
            if is_raw_bound(x):
                n += 1
                r.ok(f'{f.key}:{norm(x)}')
        for x in own_walk(f.node):
            if not (isinstance(x, ast.BinOp) and isinstance(x.op, (ast.Add, ast.Sub, ast.Mult, ast.FloorDiv, ast.Mod))):
                continue
            for side in (x.left, x.right):
                src = side if is_raw_bound(side) else tainted.get(side.id) if isinstance(side, ast.Name) else None
                if src is None:
                    continue
                txt = ast.unparse(src)
                signed = any(isinstance(i, (ast.If, ast.IfExp)) and re.search(rf'{re.escape(txt)}\s*(<|>=)\s*0|{re.escape(ast.unparse(side))}\s*(<|>=)\s*0', ast.unparse(i.test))
                             and any(x is y for y in ast.walk(i)) for i in own_walk(f.node))
                if signed:
                    continue
                n += 1
                r.fail(f.key, x, f'arithmetic on the raw slice bound {txt}: it is None or negative for slices given from the end, so the '
                       'computed window is wrong for those; normalise with slice.indices()/indices() first', loc=f.loc(x))
                break
    if n < 2:
        raise AnalysisError(f'only {n} uses of raw slice bounds found (floor 2: BitArray._setitem_slice forwards key.start/key.stop)')
    return r

"""C15: ingest bounds matrix (E5), length choke point (CHOKE), length/value agreement of the creation routes (LV)."""
from __future__ import annotations

import ast

from ..core import own_walk
from ..model import AnalysisError
from ..report import RuleResult, norm
from . import guards as G


def _ifs(region):
    out = []
    for s in region:
        for x in ast.walk(s):
            if isinstance(x, ast.If):
                out.append(x)
    return out


def _raising(i):
    return bool(G.raises_in(i.body))


def _features(region, delegates_frombuffer=False, alg=None):
    ifs = [i for i in _ifs(region) if _raising(i)]
    txts = [(i, [ast.unparse(d) for d in G.disjuncts(i.test)]) for i in ifs]

    def atoms(t):
        """comparisons that must hold for the raising branch to be taken (conjuncts) or that each take it (disjuncts)"""
        if isinstance(t, ast.BoolOp):
            out = []
            for v in t.values:
                out += atoms(v)
            return out
        return [t]
    post = neglen = offbeyond = False
    lenbeyond = False
    for i in ifs:
        for d in atoms(i.test):
            if not (isinstance(d, ast.Compare) and len(d.ops) == 1):
                continue
            a, op, b = d.left, d.ops[0], d.comparators[0]
            ta, tb = ast.unparse(a), ast.unparse(b)
            if isinstance(op, ast.NotEq) and {ta, tb} == {'len(self)', 'length'}:
                post = True
            if isinstance(op, ast.NotEq) and 'length' in (ta, tb):
                # the same post-check made on the local that holds the window before it is stored
                other = b if ta == 'length' else a
                if isinstance(other, ast.Call) and ast.unparse(other.func) == 'len' and len(other.args) == 1 and isinstance(other.args[0], ast.Name):
                    nm = other.args[0].id
                    for s_ in region:
                        for x in ast.walk(s_):
                            if isinstance(x, ast.Assign) and len(x.targets) == 1 and isinstance(x.targets[0], ast.Name) and x.targets[0].id == nm \
                                    and x.lineno <= i.lineno and (isinstance(x.value, ast.Subscript) or (isinstance(x.value, ast.Call) and
                                    isinstance(x.value.func, ast.Attribute) and x.value.func.attr.startswith('getslice'))) \
                                    and 'length' in ast.unparse(x.value):
                                post = True
            if isinstance(op, (ast.Gt, ast.GtE, ast.Lt, ast.LtE)):
                big, small = (a, b) if isinstance(op, (ast.Gt, ast.GtE)) else (b, a)
                form = _lin_sub(alg.lin(big, i.lineno), alg.lin(small, i.lineno)) if alg is not None else _lin_sub(_lin(big), _lin(small))
                off_pos = any(v > 0 for k, v in form.items() if isinstance(k, str) and 'offset' in k)
                if form.get('length', 0) > 0 and off_pos:
                    lenbeyond = True
                if off_pos and not form.get('length') and any(v < 0 for k, v in form.items() if k != 1):
                    offbeyond = True          # offset > <size of the data>
                if form.get('length', 0) < 0 and all(k in ('length', 1) for k in form) and form.get(1, 0) >= 0:
                    neglen = True             # 0 > length  /  length < 0
    neglen = neglen or post or delegates_frombuffer
    lenbeyond = lenbeyond or post or delegates_frombuffer
    slicers = set()
    for s in region:
        for x in ast.walk(s):
            if isinstance(x, ast.Call) and isinstance(x.func, ast.Attribute) and x.func.attr.startswith('getslice'):
                slicers.add(x.func.attr)
    # `length = size - offset` followed by a negative-length test also rejects an offset beyond the data
    derived = [x for s in region for x in ast.walk(s) if isinstance(x, ast.Assign) and ast.unparse(x.targets[0]) == 'length' and '- offset' in ast.unparse(x.value)]
    if derived:
        # the negative-length test must run on the path that derived the length: after it, and not in a sibling branch
        sibling = set()
        for s in region:
            for x in ast.walk(s):
                if isinstance(x, ast.If) and any(derived[0] is y for b in x.body for y in ast.walk(b)):
                    for b in x.orelse:
                        for y in ast.walk(b):
                            sibling.add(id(y))
        if any(i.lineno > derived[0].lineno and id(i) not in sibling and any(d.replace(' ', '') == 'length<0' for d in ds) for i, ds in txts):
            offbeyond = True
    return {'negative length': neglen, 'offset beyond data (no length)': offbeyond, 'offset + length beyond data': lenbeyond,
            'slicers': slicers}


def rule_E5(ctx):
    """The four windowed ingest routes agree on bounds checks and use absolute (mode-independent) slicing."""
    m = ctx.m
    r = RuleResult('E5', 'ingest feature matrix: bounds cells checked, slicing absolute, for bytes / bitarray / file / BytesIO')
    bits = m.classes['Bits']
    routes = {}
    for nm in ('_setbytes_with_truncation', '_setbitarray', '_setfile'):
        f = bits.methods.get(nm)
        if f is None:
            raise AnalysisError(f'anchor vanished: Bits.{nm}')
        routes[nm] = (f, G.body_wo_doc(f))
    sa = bits.methods.get('_setauto')
    if sa is None:
        raise AnalysisError('anchor vanished: Bits._setauto')
    bio = [x for x in own_walk(sa.node) if isinstance(x, ast.If) and 'BytesIO' in ast.unparse(x.test) and 'isinstance' in ast.unparse(x.test)
           and any('frombytes' in ast.unparse(y) for y in x.body)]
    if not bio:
        raise AnalysisError('Bits._setauto: BytesIO branch not found')
    routes['_setauto[BytesIO]'] = (sa, bio[0].body)
    fb = m.funcs.get('bitstore:BitStore.frombuffer')
    fb_feat = _features(G.body_wo_doc(fb)) if fb is not None else None
    for nm, (f, region) in routes.items():
        # the file route: offset == 0 goes to frombuffer (which checks the length), offset != 0 slices a temporary
        deleg = False
        if nm == '_setfile':
            deleg = any(isinstance(x, ast.Call) and ast.unparse(x.func).endswith('frombuffer') and any(k.arg == 'length' for k in x.keywords)
                        for s in region for x in ast.walk(s))
            if deleg and fb is not None:
                txt = ast.unparse(fb.node)
                deleg = '< 0' in txt and '> len(' in txt
        feat = _features(region, delegates_frombuffer=False, alg=_RegionAlg(f, region))
        if nm == '_setfile' and deleg:
            # the delegated half is checked by frombuffer; the sliced half must check by itself (post-check)
            pass
        for cell in ('negative length', 'offset beyond data (no length)', 'offset + length beyond data'):
            if feat[cell]:
                r.ok(f'{nm}:{cell}', {'instance': f'{nm}', 'cell': cell, 'verdict': 'checked'})
            else:
                r.fail(f.key, f'{nm}: {cell} unchecked', f"the {nm.strip('_')} ingest route does not reject '{cell}' although its sibling routes do: "
                       'the bitstring is silently created empty, truncated or with a bogus length instead of CreationError', loc=f.loc(),
                       extra={'props': ['C15', 'C08', 'C17']})
        sw = {s for s in feat['slicers'] if not s.endswith(('_msb0', '_lsb0'))}
        if sw:
            r.fail(f.key, f'{nm}: mode-switched {sorted(sw)}', f"the {nm.strip('_')} ingest route selects its window with the mode-switched "
                   f"{sorted(sw)[0]}(): under options.lsb0 the offset is counted from the other end and different bits are stored (the bytes "
                   'route uses the absolute getslice_msb0)', loc=f.loc(), extra={'props': ['C12', 'C08', 'C15', 'C17']})
        else:
            r.ok(f'{nm}:slicing', {'instance': nm, 'slicing': sorted(feat['slicers']) or 'raw bitarray slice', 'verdict': 'absolute'})
    return r


def rule_CHOKE(ctx):
    """Dtype objects are created only through get_dtype, where allowed-length and non-negativity tests dominate."""
    m = ctx.m
    r = RuleResult('CHOKE', 'length choke point: Dtype._create only from DtypeDefinition.get_dtype, behind length validation')
    cr = m.funcs.get('dtypes:Dtype._create')
    gd = m.funcs.get('dtypes:DtypeDefinition.get_dtype')
    if cr is None or gd is None:
        raise AnalysisError('anchor vanished: Dtype._create / DtypeDefinition.get_dtype')
    n = 0
    for node, edges in ctx.callgraph().items():
        for (callee, cs) in edges:
            if callee[0] == cr.key:
                n += 1
                if node[0] != gd.key:
                    r.fail(node[0], cs.node, 'creates a Dtype without going through DtypeDefinition.get_dtype: the allowed-length and sign '
                           'checks are bypassed', loc=m.funcs[node[0]].loc(cs.node))
                else:
                    r.ok(cs.node)
    if n == 0:
        raise AnalysisError('no call of Dtype._create found')
    lines = [x.lineno for x in own_walk(gd.node) if isinstance(x, ast.Call) and ast.unparse(x.func) == 'Dtype._create' and
             not (len(x.args) > 1 and isinstance(x.args[1], ast.Constant) and x.args[1].value is None)]
    if not lines:
        raise AnalysisError('get_dtype: sized Dtype._create call not found')
    calls = min(lines)
    def rejects_outside(i):
        # `if length not in A: raise` or `if length in A: ... else: raise` - read with the test made positive
        # `if A and length not in A: raise` (A = the table itself: nothing to enforce when it is empty)
        t0 = G.expand(gd, i.test)
        if isinstance(t0, ast.BoolOp) and isinstance(t0.op, ast.And):
            rest = [v for v in t0.values if ast.unparse(v) != 'self.allowed_lengths']
            if len(rest) == 1 and isinstance(rest[0], ast.Compare) and len(rest[0].ops) == 1 and isinstance(rest[0].ops[0], ast.NotIn) \
                    and ast.unparse(rest[0].comparators[0]) == 'self.allowed_lengths':
                return G.always_raises(i.body)
        t, body, orelse = G.pos_if(i)
        t = G.expand(gd, t)
        if not (isinstance(t, ast.Compare) and len(t.ops) == 1 and isinstance(t.ops[0], ast.In) and ast.unparse(t.comparators[0]) == 'self.allowed_lengths'):
            return False
        return G.always_raises(orelse)
    allowed = [i for i in own_walk(gd.node) if isinstance(i, ast.If) and rejects_outside(i)]
    if not allowed or allowed[0].lineno > calls:
        r.fail(gd.key, 'allowed-length test', 'a length outside allowed_lengths must be rejected before the Dtype is created', loc=gd.loc())
    else:
        r.ok('allowed-length test')
    neg = [i for i in own_walk(gd.node) if isinstance(i, ast.If) and G.raises_in(i.body) and i.lineno < calls and
           any(G.test_is_negative(p, 'length') for d in G.disjuncts(i.test) for p in (d.values if isinstance(d, ast.BoolOp) else [d]))]
    if not neg:
        r.fail(gd.key, 'length < 0 rejection', "a negative length is accepted for every dtype without an allowed_lengths table: Dtype('uint', -5) is "
               'created, and reading it moves the position backwards', loc=gd.loc(), extra={'props': ['C15', 'C06', 'C19']})
    else:
        r.ok(neg[0].test, {'instance': gd.key, 'guard': norm(neg[0].test)})
    return r


LV_ROUTES = [
    ('bitstore_helpers:bitstore_from_token', 'token string'),
    ('dtypes:Dtype.build', 'Dtype.build'),
    ('methods:pack', "pack (name == 'bits')"),
    ('bitarray_:BitArray.__setattr__', 'property assignment'),
    ('array_:Array._create_element', 'Array element'),
]


def rule_LV(ctx):
    """Every creation route that accepts a (length, value) pair compares the built length with the stated one."""
    m = ctx.m
    r = RuleResult('LV', 'stated length vs length of the built value is compared on every creation route (sibling agreement)')
    for key, what in LV_ROUTES:
        f = m.funcs.get(key)
        if f is None:
            raise AnalysisError(f'anchor vanished: {key}')
        ok = None
        for _g, i in G.route_walk(m, f):
            if isinstance(i, ast.If) and G.raises_in(i.body):
                for d in G.disjuncts(i.test):
                    parts = d.values if isinstance(d, ast.BoolOp) else [d]
                    for p in parts:
                        if isinstance(p, ast.Compare) and len(p.ops) == 1 and isinstance(p.ops[0], ast.NotEq):
                            l, rr = ast.unparse(p.left), ast.unparse(p.comparators[0])
                            if ('len(' in l) != ('len(' in rr) and ('length' in l + rr):
                                ok = i
        if ok is None:
            r.fail(f.key, f'{what}: length comparison', f"the {what} route builds the bits and never compares their length with the stated length: "
                   "a value of the wrong size is accepted instead of CreationError", loc=f.loc())
        else:
            r.ok(f.key, {'instance': f.key, 'route': what, 'guard': norm(ok.test)})
    return r


# ------------------------------------------------------------------ WIN: the bounds test protects the window that is taken
def _lin(e):
    """Linear form {atom: coeff} (constant under key 1) of sums, differences and products with integer constants; any
    other sub-expression is an opaque atom named by its source text."""
    out = {}

    def add(k, v):
        out[k] = out.get(k, 0) + v

    def rec(x, c):
        if isinstance(x, ast.Constant) and isinstance(x.value, int) and not isinstance(x.value, bool):
            add(1, c * x.value)
        elif isinstance(x, ast.BinOp) and isinstance(x.op, ast.Add):
            rec(x.left, c)
            rec(x.right, c)
        elif isinstance(x, ast.BinOp) and isinstance(x.op, ast.Sub):
            rec(x.left, c)
            rec(x.right, -c)
        elif isinstance(x, ast.BinOp) and isinstance(x.op, ast.Mult) and isinstance(x.right, ast.Constant) and isinstance(x.right.value, int):
            rec(x.left, c * x.right.value)
        elif isinstance(x, ast.BinOp) and isinstance(x.op, ast.Mult) and isinstance(x.left, ast.Constant) and isinstance(x.left.value, int):
            rec(x.right, c * x.left.value)
        elif isinstance(x, ast.UnaryOp) and isinstance(x.op, ast.USub):
            rec(x.operand, -c)
        else:
            add(ast.unparse(x), c)
    rec(e, 1)
    return {k: v for k, v in out.items() if v}


def _lin_sub(a, b, kb=1):
    out = dict(a)
    for k, v in b.items():
        out[k] = out.get(k, 0) - kb * v
    return {k: v for k, v in out.items() if v}


def _lin_scale(a, k):
    return {x: v * k for x, v in a.items()}


def _fmt_lin(a):
    return ' + '.join(f'{v}*{k}' if k != 1 else str(v) for k, v in sorted(a.items(), key=lambda kv: str(kv[0]))) or '0'


class _RegionAlg:
    """Linear forms over the names of one ingest region, looking through its arithmetic locals (`end = offset + length`,
    `available = len(data) * 8`) and through `q, r = divmod(X, 8)` (X == 8*q + r)."""

    def __init__(self, f, region):
        import copy
        self.copy = copy
        assigns = [x for s in region for x in ast.walk(s) if isinstance(x, ast.Assign)]
        defs = {}
        for x in assigns:
            for t in x.targets:
                if isinstance(t, ast.Name):
                    defs.setdefault(t.id, []).append(x)
        self.assigns, self.defs = assigns, defs
        self.fparams = set(f.params())
        self.tuple_bound = {e.id for x in assigns for t in x.targets if isinstance(t, ast.Tuple) for e in t.elts if isinstance(e, ast.Name)}
        self.identities = []
        for x in assigns:
            t = x.targets[0]
            if isinstance(t, ast.Tuple) and len(t.elts) == 2 and all(isinstance(e, ast.Name) for e in t.elts) and isinstance(x.value, ast.Call) \
                    and ast.unparse(x.value.func) == 'divmod' and len(x.value.args) == 2 and isinstance(x.value.args[1], ast.Constant) and x.value.args[1].value == 8:
                xnames = {y.id for y in ast.walk(x.value.args[0]) if isinstance(y, ast.Name)}
                if t.elts[0].id in xnames or t.elts[1].id in xnames:
                    continue          # `byteoffset, offset = divmod(offset, 8)` re-binds its own operand: X cannot be named afterwards
                self.identities.append((t.elts[0].id, t.elts[1].id, x.value.args[0], x.lineno))

    def arith(self, e):
        if isinstance(e, (ast.Name, ast.Constant)):
            return True
        if isinstance(e, ast.Attribute):
            return self.arith(e.value)
        if isinstance(e, ast.BinOp) and isinstance(e.op, (ast.Add, ast.Sub, ast.Mult, ast.FloorDiv)):
            return self.arith(e.left) and self.arith(e.right)
        if isinstance(e, ast.IfExp):
            return False
        if isinstance(e, ast.Call) and (ast.unparse(e.func) == 'len' or (isinstance(e.func, ast.Attribute) and e.func.attr == 'seek')):
            return True
        return False

    def expand(self, e, line, depth=0):
        """substitute locals by their arithmetic definition: the only one, or - for a local set in several branches - the nearest
        one before ``line``"""
        if depth > 4:
            return e
        alg = self

        class Sub(ast.NodeTransformer):
            def visit_Name(self, n):
                ds = [d for d in alg.defs.get(n.id, []) if d.lineno < line]
                if isinstance(n.ctx, ast.Load) and ds and n.id not in alg.fparams and n.id not in alg.tuple_bound:
                    d = max(ds, key=lambda y: y.lineno)
                    if isinstance(d.targets[0], ast.Name) and alg.arith(d.value) and not any(isinstance(y, ast.Name) and y.id == n.id for y in ast.walk(d.value)):
                        return alg.expand(alg.copy.deepcopy(d.value), d.lineno, depth + 1)
                    # `start = 0 if offset is None else offset`: the defaulted parameter under another name (what
                    # `if offset is None: offset = 0` writes without one)
                    v = d.value
                    if isinstance(d.targets[0], ast.Name) and len(ds) == 1 and isinstance(v, ast.IfExp) and isinstance(v.test, ast.Compare) and len(v.test.ops) == 1 \
                            and isinstance(v.test.left, ast.Name) and isinstance(v.test.comparators[0], ast.Constant) and v.test.comparators[0].value is None:
                        p_ = v.test.left.id
                        none_branch, other = (v.body, v.orelse) if isinstance(v.test.ops[0], ast.Is) else (v.orelse, v.body)
                        if isinstance(other, ast.Name) and other.id == p_ and isinstance(none_branch, ast.Constant) and p_ in alg.fparams:
                            return ast.copy_location(ast.Name(id=p_, ctx=ast.Load()), n)
                return n
        return Sub().visit(self.copy.deepcopy(e))

    def lin(self, e, line):
        form = _lin(self.expand(e, line))
        for q, rr, X, ln in self.identities:
            if ln < line and form.get(q, 0) and form.get(q, 0) == 8 * form.get(rr, 0):
                k = form.pop(rr)
                form.pop(q)
                for a, v in _lin(self.expand(X, ln)).items():
                    form[a] = form.get(a, 0) + k * v
        return {a: v for a, v in form.items() if v}

    def resolve(self, e, line):
        """a local that just names a sliced / converted value: look through it"""
        seen = 0
        while isinstance(e, ast.Name) and len(self.defs.get(e.id, [])) == 1 and self.defs[e.id][0].lineno < line and seen < 4:
            e = self.defs[e.id][0].value
            seen += 1
        return e



def _ceil_bytes(e):
    """For `(E + 7) // 8 [- K]` return the linear form of E - 8*K (the number of bits the byte count covers, counted from
    the lower byte bound); None if the expression has another shape."""
    k = {}
    if isinstance(e, ast.BinOp) and isinstance(e.op, ast.Sub):
        k = _lin(e.right)
        e = e.left
    if isinstance(e, ast.BinOp) and isinstance(e.op, ast.FloorDiv) and isinstance(e.right, ast.Constant) and e.right.value == 8:
        num = _lin(e.left)
        if num.get(1, 0) == 7:
            num = _lin_sub(num, {1: 7})
            return _lin_sub(num, k, 8)
    return None


def rule_WIN(ctx):
    """Windowed ingest (bytes / bitarray / BytesIO with offset and length): the raising bounds test must bound exactly the
    end of the window that is sliced out afterwards - same coefficients for every window variable (offset, length, byte
    offset) - and a byte-level pre-slice must cover the bit window taken from it.  A test that forgets one component lets
    an out-of-range window through (it is then silently truncated); a byte slice that is too short truncates silently."""
    m = ctx.m
    r = RuleResult('WIN', 'windowed ingest: the bounds test equals (as a linear form) the end of the window sliced out; byte pre-slices cover the bit window')
    bits = m.classes['Bits']
    regions = []
    for nm in ('_setbytes_with_truncation', '_setbitarray'):
        f = bits.methods.get(nm)
        if f is None:
            raise AnalysisError(f'anchor vanished: Bits.{nm}')
        regions.append((nm, f, G.body_wo_doc(f)))
    sa = bits.methods.get('_setauto')
    if sa is None:
        raise AnalysisError('anchor vanished: Bits._setauto')
    bio = [x for x in own_walk(sa.node) if isinstance(x, ast.If) and 'BytesIO' in ast.unparse(x.test) and 'isinstance' in ast.unparse(x.test)
           and any('frombytes' in ast.unparse(y) for y in x.body)]
    if not bio:
        raise AnalysisError('Bits._setauto: BytesIO branch not found')
    regions.append(('_setauto[BytesIO]', sa, bio[0].body))
    import copy
    for nm, f, region in regions:
        alg = _RegionAlg(f, region)
        assigns, defs, lin, resolve = alg.assigns, alg.defs, alg.lin, alg.resolve
        stores = [x for x in assigns if ast.unparse(x.targets[0]) == 'self._bitstore']
        windows = []
        for st in stores:
            bit_his, byte_lo, byte_hi = [], None, None
            val = st.value
            # the object that is sliced may be a local holding the converted bytes (`whole = BitStore.frombytes(...)`; `whole.getslice..`)
            for _ in range(2):
                for x in list(ast.walk(val)):
                    if isinstance(x, ast.Call) and isinstance(x.func, ast.Attribute) and x.func.attr.startswith('getslice') and isinstance(x.func.value, ast.Name):
                        rv = resolve(x.func.value, st.lineno)
                        if rv is not x.func.value and isinstance(rv, ast.Call) and 'frombytes' in ast.unparse(rv.func):
                            val = copy.deepcopy(val)
                            for y in ast.walk(val):
                                if isinstance(y, ast.Call) and isinstance(y.func, ast.Attribute) and y.func.attr.startswith('getslice') \
                                        and isinstance(y.func.value, ast.Name) and y.func.value.id == x.func.value.id:
                                    y.func.value = copy.deepcopy(rv)
                            break
            nodes = list(ast.walk(val))
            # look through locals used as the argument of frombytes / as the sliced object
            for x in list(nodes):
                if isinstance(x, ast.Call) and ast.unparse(x.func).endswith('frombytes') and x.args and isinstance(x.args[0], ast.Name):
                    rv = resolve(x.args[0], st.lineno)
                    if rv is not x.args[0]:
                        nodes += [('frombytes-arg', y) for y in ast.walk(rv)]
            for x in nodes:
                tagged = isinstance(x, tuple)
                y = x[1] if tagged else x
                if isinstance(y, ast.Call) and isinstance(y.func, ast.Attribute) and y.func.attr.startswith('getslice') and len(y.args) == 2:
                    if not (isinstance(y.args[1], ast.Constant) and y.args[1].value is None):
                        bit_his.append(y.args[1])
                elif isinstance(y, ast.Subscript) and isinstance(y.slice, ast.Slice) and y.slice.upper is not None:
                    inside_frombytes = tagged or any(isinstance(c, ast.Call) and ast.unparse(c.func).endswith('frombytes') and any(y is z for a in c.args for z in ast.walk(a))
                                                     for c in ast.walk(val))
                    if inside_frombytes:
                        byte_lo, byte_hi = y.slice.lower, y.slice.upper
                    else:
                        bit_his.append(y.slice.upper)
            for bh in bit_his:
                # a window end that is a local with several definitions: one window per definition
                if isinstance(bh, ast.Name) and len(defs.get(bh.id, [])) > 1:
                    for d in defs[bh.id]:
                        windows.append((st, d.value, byte_lo, byte_hi, d.lineno + 1))
                else:
                    windows.append((st, bh, byte_lo, byte_hi, st.lineno))
        if not windows:
            raise AnalysisError(f'{nm}: no bounded window found in the store of self._bitstore (needs a human)')
        guards = []
        for i in _ifs(region):
            if not _raising(i):
                continue
            for d in G.disjuncts(i.test):
                if isinstance(d, ast.Compare) and len(d.ops) == 1 and isinstance(d.ops[0], (ast.Gt, ast.GtE)):
                    guards.append((i, d, _lin_sub(lin(d.left, i.lineno), lin(d.comparators[0], i.lineno))))
                elif isinstance(d, ast.Compare) and len(d.ops) == 1 and isinstance(d.ops[0], (ast.Lt, ast.LtE)):
                    guards.append((i, d, _lin_sub(lin(d.comparators[0], i.lineno), lin(d.left, i.lineno))))
        params = set(f.params())
        for st, bit_hi, byte_lo, byte_hi, at in windows:
            end = lin(bit_hi, at)
            if byte_lo is not None:
                for k, v in _lin_scale(lin(byte_lo, st.lineno), 8).items():
                    end[k] = end.get(k, 0) + v
                # fold again now that 8*q and r are together
                end = lin(ast.parse(' + '.join(f'({v})*({k})' if k != 1 else str(v) for k, v in end.items()) or '0', mode='eval').body, st.lineno) \
                    if all(isinstance(k, str) and k.isidentifier() or k == 1 for k in end) else end
            wvars = {k for k in end if k != 1 and not (isinstance(k, str) and (k.startswith('len(') or '.seek(' in k))}
            unit = -8 if ('frombytes' in ast.unparse(st.value) or byte_lo is not None) else -1      # the size of a bytes source counts bytes
            ok = None
            if not wvars:
                ok = 'the window ends at the size of the data itself'
            for i, d, form in guards:
                if ok is not None or i.lineno > st.lineno:
                    continue
                rest = {k: v for k, v in form.items() if k not in wvars and k != 1}
                if all(form.get(k, 0) == end[k] for k in wvars) and rest and all(v == unit for v in rest.values()) and form.get(1, 0) == end.get(1, 0):
                    ok = norm(d)
            if ok is not None:
                r.ok(f'{nm}:{norm(st)}:{_fmt_lin(end)}', {'instance': nm, 'window_end_bits': _fmt_lin(end), 'guard': ok})
            else:
                r.fail(f.key, st, f'the {nm.strip("_")} route takes the window ending at bit {_fmt_lin(end)} of the source, but no raising bounds test '
                       f'before it compares exactly that with the size of the data (tests found: {[norm(d) for _, d, _ in guards]}): a window '
                       'reaching past the end is truncated silently instead of raising CreationError', loc=f.loc(st),
                       extra={'props': ['C15', 'C17', 'C08']})
            if byte_lo is not None:
                span = _lin_sub(_lin(byte_hi), _lin(byte_lo))
                names = [k for k in span if k != 1]
                cover = None
                where = st
                if len(names) == 1 and span == {names[0]: 1} and len(defs.get(names[0], [])) == 1:
                    # relative byte count: [lo : lo + n] with n = (bits + 7) // 8 [- k]
                    where = defs[names[0]][0]
                    c = _ceil_bytes(where.value)
                    if c is not None:
                        cover = lin(ast.parse(' + '.join(f'({v})*({k})' if k != 1 else str(v) for k, v in c.items()) or '0', mode='eval').body, st.lineno) \
                            if all(isinstance(k, str) and k.isidentifier() or k == 1 for k in c) else c
                        target = lin(bit_hi, at)
                elif not isinstance(byte_hi, ast.Name) and _ceil_bytes(byte_hi) is not None:
                    # absolute last byte written in place: [lo : (absolute end bit + 7) // 8]
                    c = _ceil_bytes(byte_hi)
                    cover = lin(ast.parse(' + '.join(f'({v})*({k})' if k != 1 else str(v) for k, v in c.items()) or '0', mode='eval').body, st.lineno) \
                        if all(isinstance(k, str) and k.isidentifier() or k == 1 for k in c) else c
                    target = end
                elif isinstance(byte_hi, ast.Name) and len(defs.get(byte_hi.id, [])) == 1:
                    # absolute last byte: [lo : hi] with hi = (absolute end bit + 7) // 8
                    where = defs[byte_hi.id][0]
                    c = _ceil_bytes(where.value)
                    if c is not None:
                        cover = lin(ast.parse(' + '.join(f'({v})*({k})' if k != 1 else str(v) for k, v in c.items()) or '0', mode='eval').body, st.lineno) \
                            if all(isinstance(k, str) and k.isidentifier() or k == 1 for k in c) else c
                        target = end
                if cover is None:
                    raise AnalysisError(f'{nm}: byte count of the pre-slice is not of the form (bits + 7) // 8 [- k] (needs a human)')
                if cover == target:
                    r.ok(f'{nm}:byte cover', {'instance': nm, 'bytes_cover_bits': _fmt_lin(cover), 'bit_window_end': _fmt_lin(target)})
                else:
                    r.fail(f.key, where, f'the byte pre-slice of the {nm.strip("_")} route covers {_fmt_lin(cover)} bits but the bit '
                           f'window taken from it ends at {_fmt_lin(target)}: the last bits are cut off silently', loc=f.loc(where),
                           extra={'props': ['C17', 'C15', 'C08']})
    return r

"""H4 (registry routes and encoder structure, C02/C18), ESC (escape-sequence confinement, C19),
DELEG (serialisation delegation and the bytes guard, C17)."""
from __future__ import annotations

import ast

from ..core import own_walk
from ..model import AnalysisError, FAMILY
from ..report import RuleResult, norm
from . import guards as G
from .tables import fold

BYTE_ORDER_OPS = ('[::-1]', 'reversed(', '.reverse()', "'little'", '"little"', "'<", '"<', 'byteswap(')


def _byte_order_ops(f):
    txt = ast.unparse(f.node)
    return sum(txt.count(op) for op in BYTE_ORDER_OPS)


def _role_calls(ctx, f, ctxcls, role):
    fa = ctx.R.analyse(f, ctxcls)
    return [cs for cs in fa.calls if cs.role in (role, role + '0')]


def rule_H4(ctx):
    """Every creation/reading route dispatches through the registry's function; encoders/decoders agree on
    signedness and apply exactly one byte-order operation for little-endian forms."""
    m = ctx.m
    r = RuleResult('H4', 'creation and reading routes go through the registry; integer encoders agree in sign and byte order')
    creation = [('bits:Bits._initialise', 'Bits', 'set', 'constructor keyword'), ('bitarray_:BitArray.__setattr__', 'BitArray', 'set', 'property assignment with length'),
                ('dtypes:Dtype.build', None, 'set', 'Dtype.build')]
    reading = [('bits:Bits.__getattr__', 'Bits', 'get', 'property with length'), ('dtypes:Dtype.parse', None, 'get', 'Dtype.parse'),
               ('bits:Bits._read_dtype_list', 'Bits', 'read', 'unpack/readlist'), ('bitstream:ConstBitStream.read', 'ConstBitStream', 'read', 'read')]
    for key, c, role, what in creation + reading:
        f = m.funcs.get(key)
        if f is None:
            raise AnalysisError(f'anchor vanished: {key}')
        if _role_calls(ctx, f, c, role):
            r.ok(f'{key}:{role}', {'instance': key, 'route': what, 'dispatch': f'registry {role}_fn'})
        else:
            r.fail(key, f'{what}: registry {role}_fn dispatch', f"the {what} route no longer goes through the dtype registry's {role} function: the same "
                   '(dtype, length, value) can now be encoded/decoded differently by different routes', loc=f.loc())
    # routes that delegate to one of the above
    deleg = [('bitstore_helpers:bitstore_from_token', 'build', 'token string'), ('array_:Array._create_element', 'build', 'Array element'),
             ('methods:pack', 'bitstore_from_token', 'pack')]
    for key, callee, what in deleg:
        f = m.funcs.get(key)
        if f is None:
            raise AnalysisError(f'anchor vanished: {key}')
        if any(isinstance(x, ast.Call) and (getattr(x.func, 'attr', None) == callee or getattr(x.func, 'id', None) == callee) for _g, x in G.route_walk(m, f)):
            r.ok(f'{key}->{callee}')
        else:
            r.fail(key, f'{what}: delegation to {callee}', f'the {what} route builds bits without {callee}()', loc=f.loc())
    # registry property installation
    import re as _re1
    for nm in ('add_dtype', 'add_dtype_alias'):
        f = m.funcs.get(f'dtypes:Register.{nm}')
        if f is None:
            raise AnalysisError(f'anchor vanished: Register.{nm}')
        def prop_calls(fn):
            return [x for x in own_walk(fn.node) if isinstance(x, ast.Call) and isinstance(x.func, ast.Name) and x.func.id == 'property']
        props = prop_calls(f)
        holder = f
        if not props:
            # the two installs moved into a shared method of the register that this one calls with the definition
            for c in own_walk(f.node):
                if isinstance(c, ast.Call) and isinstance(c.func, ast.Attribute) and isinstance(c.func.value, ast.Name) and c.func.value.id in ('cls', 'self', 'Register'):
                    g = m.funcs.get(f'dtypes:Register.{c.func.attr}')
                    if g is not None and len(prop_calls(g)) == 2:
                        props, holder = prop_calls(g), g
                        break
        if len(props) != 2:
            raise AnalysisError(f'Register.{nm}: property installs not recognised')
        f_outer, f = f, holder
        for p in props:
            kw = {k.arg: ast.unparse(k.value) for k in p.keywords}
            if not _re1.fullmatch(r'\w+\.get_fn', kw.get('fget') or '') or ('fset' in kw and not _re1.fullmatch(r'\w+\.set_fn', kw['fset'])) \
                    or ('fset' in kw and kw['fset'].split('.')[0] != kw['fget'].split('.')[0]):
                r.fail(f.key, p, 'the installed property must read through definition.get_fn and write through definition.set_fn', loc=f.loc(p))
            else:
                r.ok(p)
    # Dtype._create: bit length = length * multiplier; length passed to the setter is the bit length
    cr = m.funcs.get('dtypes:Dtype._create')
    txt = ast.unparse(cr.node)
    import re as _re0
    if not _re0.search(r'(\w+)\._bitlength \*= \1\._bits_per_item', txt) and 'length * ' not in txt:
        raise AnalysisError('Dtype._create: bit-length computation not recognised (needs a human)')
    parts = [x for x in own_walk(cr.node) if isinstance(x, ast.Call) and ast.unparse(x.func) == 'functools.partial']
    for p in parts:
        kw = {k.arg: ast.unparse(k.value) for k in p.keywords}
        lv = kw.get('length') or ''
        # a local that IS the bit length: bound once, and the very value stored as <obj>._bitlength
        is_bitlength_local = lv.isidentifier() and sum(
            1 for y in own_walk(cr.node) if isinstance(y, ast.Name) and y.id == lv and isinstance(y.ctx, ast.Store)) == 1 and any(
            isinstance(y, ast.Assign) and isinstance(y.value, ast.Name) and y.value.id == lv and any(ast.unparse(t).endswith('._bitlength') for t in y.targets)
            for y in own_walk(cr.node)) and lv not in cr.params()
        if not _re0.fullmatch(r'\w+\._bitlength', lv) and not is_bitlength_local:
            r.fail(cr.key, p, 'the setter/reader of a sized dtype must be bound to the length in bits', loc=cr.loc(p))
        else:
            r.ok(p)
    # integer encoders / decoders
    helpers = m.modfuncs['bitstore_helpers']
    for e in m.registry:
        if e['return_type'] != 'int' or e['variable_length']:
            continue
        name = e['name']
        sf, gf = m.func_by_dotted(e['set_fn']), m.func_by_dotted(e['get_fn'])
        le = name.endswith('le')
        sf, bind = G.through_delegate(m, sf)       # setters merged into a shared helper: signedness arrives as an argument
        calls = [x for x in own_walk(sf.node) if isinstance(x, ast.Call) and isinstance(x.func, ast.Attribute) and x.func.attr in ('int2bitstore', 'intle2bitstore')]
        if len(calls) != 1:
            raise AnalysisError(f'{sf.key}: integer encoder call not recognised')
        c = calls[0]
        sarg = c.args[2]
        if isinstance(sarg, ast.Name) and sarg.id in bind:
            sarg = bind[sarg.id]
        signed = fold(sarg)
        want_enc = 'intle2bitstore' if le else 'int2bitstore'
        larg = c.args[1]
        if isinstance(larg, ast.Name) and larg.id in bind and isinstance(bind[larg.id], ast.Name):
            larg = ast.Name(id='length') if bind[larg.id].id == 'length' else larg
        if c.func.attr != want_enc or signed is not e['is_signed'] or ast.unparse(larg) != 'length':
            r.fail(sf.key, c, f"'{name}' must be encoded by {want_enc}(value, length, {e['is_signed']})", loc=sf.loc(c))
        else:
            r.ok(c, {'instance': f"{name} setter", 'encoder': c.func.attr, 'signed': signed})
        # decoder
        reach = ctx.reachable([ctx.node(gf, 'Bits')])
        names = {n[0].split('.')[-1] for n in reach}
        want_dec = 'slice_to_int' if e['is_signed'] else 'slice_to_uint'
        other = 'slice_to_uint' if e['is_signed'] else 'slice_to_int'
        if want_dec not in names or other in names:
            r.fail(gf.key, f'{name} getter decoder', f"'{name}' must be decoded by BitStore.{want_dec}", loc=gf.loc())
        else:
            r.ok(f'{name} getter', {'instance': f'{name} getter', 'decoder': want_dec})
        n_ops = _byte_order_ops(gf)
        if n_ops != (1 if le else 0):
            r.fail(gf.key, f'{name} getter byte order', f"'{name}' getter applies {n_ops} byte-order operation(s); expected {1 if le else 0} "
                   '(little-endian = big-endian of the byte-reversed bits)', loc=gf.loc())
        else:
            r.ok(f'{name} getter byte order')
        if name.endswith(('le', 'be')):
            g = G.find_guard(gf, lambda t: isinstance(t, ast.BinOp) and isinstance(t.op, ast.Mod) and G.is_len_of(t.left, 'self') and fold(t.right) == 8)
            if g is None:
                r.fail(gf.key, f'{name} getter whole-byte guard', 'byte-wise integers must refuse lengths that are not whole bytes', loc=gf.loc(),
                       extra={'props': ['C02', 'C15']})
            else:
                r.ok(f'{name} whole-byte guard')
    # struct format strings an integer getter/setter can use (directly or through a module-level table it names)
    # must have the dtype's signedness, byte order and size
    import re as _re
    import struct as _struct
    for e in m.registry:
        if e['return_type'] != 'int' or e['variable_length']:
            continue
        for role in ('set_fn', 'get_fn'):
            f = m.func_by_dotted(e[role])
            fmts = []
            for x in own_walk(f.node):
                if isinstance(x, ast.Constant) and isinstance(x.value, str):
                    fmts.append((None, x.value, x))
                if isinstance(x, ast.Name) and x.id in m.modglobals[f.mod]:
                    gv = m.modglobals[f.mod][x.id]
                    if isinstance(gv, ast.Dict):
                        for k, v in zip(gv.keys, gv.values):
                            if isinstance(v, ast.Constant) and isinstance(v.value, str):
                                fmts.append((k.value if isinstance(k, ast.Constant) else None, v.value, x))
            for key, fmt, node in fmts:
                mt = _re.fullmatch(r'([<>=@!]?)([bBhHiIlLqQ])', fmt)
                if not mt:
                    continue
                pre, code = mt.groups()
                problems = []
                if code.islower() != e['is_signed']:
                    problems.append(f"code '{code}' is {'signed' if code.islower() else 'unsigned'} but '{e['name']}' is {'signed' if e['is_signed'] else 'unsigned'}")
                if e['name'].endswith('le') and pre not in ('<',):
                    problems.append(f"prefix '{pre}' is not little-endian")
                if (e['name'].endswith('be') or e['name'] in ('int', 'uint')) and pre not in ('>', '!'):
                    problems.append(f"prefix '{pre}' is not big-endian")
                if isinstance(key, int) and _struct.calcsize('=' + code) * 8 != key:
                    problems.append(f"'{code}' is {_struct.calcsize('=' + code) * 8} bits, table key says {key}")
                if problems:
                    r.fail(f.key, f"struct format '{fmt}'" + (f' for {key} bits' if key is not None else ''), f"{f.name} can use struct format '{fmt}': "
                           + '; '.join(problems), loc=f.loc(node))
                else:
                    r.ok(f'{f.key}:{fmt}')
    il = helpers.get('intle2bitstore')
    if il is None:
        raise AnalysisError('anchor vanished: intle2bitstore')
    if _byte_order_ops(il) != 1 or 'int2bitstore(i, length, signed)' not in ast.unparse(il.node):
        r.fail(il.key, 'byte reversal of int2bitstore(...)', 'the little-endian encoder must be the big-endian encoder followed by exactly one byte reversal',
               loc=il.loc())
    else:
        r.ok('intle2bitstore', {'instance': 'intle2bitstore', 'byte_order_ops': 1})
    # ... applied to the caller's own (value, length, signed): the wrapper does not change them before delegating, so the
    # range check of the big-endian encoder is the one in force for the little-endian form too
    rebound = [x for x in own_walk(il.node) if (isinstance(x, ast.Assign) and any(isinstance(t, ast.Name) and t.id in il.params() for t in x.targets)
                                                  and not (isinstance(x.value, ast.Call) and isinstance(x.value.func, ast.Name) and x.value.func.id == 'int'
                                                           and len(x.value.args) == 1 and ast.unparse(x.value.args[0]) == ast.unparse(x.targets[0])))
               or (isinstance(x, ast.AugAssign) and isinstance(x.target, ast.Name) and x.target.id in il.params())]
    if rebound:
        r.fail(il.key, rebound[0], 'the little-endian encoder changes its value/length/signed parameters before handing them to int2bitstore: the '
               "big-endian encoder's range check no longer sees what the caller asked for", loc=il.loc(rebound[0]), extra={'props': ['C02', 'C15', 'C18']})
    else:
        r.ok('intle2bitstore parameters forwarded unchanged')
    # float setters: be -> big_endian True, le -> False
    for nm, want in (('_setfloatbe', True), ('_setfloatle', False)):
        f = m.classes['Bits'].methods.get(nm)
        if f is None:
            raise AnalysisError(f'anchor vanished: Bits.{nm}')
        flags = _float_order_flags(m, f)
        if flags is None:
            # no flag-taking encoder call in sight (one routine per byte order, say): which struct formats the setter reaches
            from .peval import struct_formats, Unsupported, is_const
            try:
                fmts = [v for L in (16, 32, 64) for v, _n, _k in struct_formats(m, f, {'length': L})[0]]
            except (Unsupported, RecursionError, Exception):
                fmts = []
            if not fmts or not all(is_const(v) and isinstance(v, str) and v[:1] in '<>!=@' for v in fmts):
                raise AnalysisError(f'Bits.{nm}: float encoder call not recognised (needs a human)')
            flags = [want] if all(v[0] in ('>!' if want else '<') for v in fmts) else [not want]
        if flags != [want]:
            r.fail(f.key, f'{nm} endianness flag', f'{nm} must encode with big_endian={want} (float2bitstore(f, length, {want}), directly or through _setfloat)',
                   loc=f.loc())
        else:
            r.ok(f'{nm}')
    return r


def _float_order_flags(m, f):
    """Byte-order flags (folded third arguments / big_endian keywords) of the float2bitstore calls a float setter makes, in the
    setter itself or in the one shared method it hands (f, length, flag) to.  None if there is no such call."""
    def enc_calls(fn):
        return [x for x in own_walk(fn.node) if isinstance(x, ast.Call) and isinstance(x.func, (ast.Attribute, ast.Name))
                and ast.unparse(x.func).split('.')[-1] == 'float2bitstore']

    def flag_of(c):
        for k in c.keywords:
            if k.arg == 'big_endian':
                return k.value
        return c.args[2] if len(c.args) > 2 else None
    out = []
    for c in enc_calls(f):
        out.append(fold(flag_of(c)) if flag_of(c) is not None else None)
    for c in own_walk(f.node):
        if isinstance(c, ast.Call) and isinstance(c.func, ast.Attribute) and isinstance(c.func.value, ast.Name) and c.func.value.id == 'self' and f.cls:
            kind, p = m.lookup(f.cls, c.func.attr)
            if kind != 'method' or len(p) != 1:
                continue
            g = p[0]
            params = g.params()[1:]
            bind = dict(zip(params, c.args))
            bind.update({k.arg: k.value for k in c.keywords if k.arg})
            for c2 in enc_calls(g):
                fl = flag_of(c2)
                if isinstance(fl, ast.Name) and fl.id in bind:
                    fl = bind[fl.id]
                out.append(fold(fl) if fl is not None else None)
    return out or None


def _esc_syntactic(m, r, cn):
    """The shape-based form of the Colour check (used when the partial evaluator does not cover Colour.__new__)."""
    top = [i for i in own_walk(cn.node) if isinstance(i, ast.If) and ast.unparse(G.pos_if(i)[0]) == 'use_colour']
    on_body, off_body = (G.pos_if(top[0])[1], G.pos_if(top[0])[2]) if top else ([], [])
    if not top or not off_body or not on_body:
        r.fail(cn.key, 'else branch', 'Colour must define empty colour strings when colour is off', loc=cn.loc())
    else:
        vals = [y.value for s in off_body for y in ast.walk(s) if isinstance(y, ast.Constant) and isinstance(y.value, str)]
        names_if = {ast.unparse(t) for s in on_body for y in ast.walk(s) if isinstance(y, ast.Assign) for t in y.targets}
        names_else = {ast.unparse(t) for s in off_body for y in ast.walk(s) if isinstance(y, ast.Assign) for t in y.targets}
        if any(vals) or names_if != names_else:
            r.fail(cn.key, 'else branch values', 'with colour off every colour attribute must be the empty string', loc=cn.loc(top[0]))
        else:
            r.ok('Colour else branch', {'instance': 'Colour.__new__', 'attributes': sorted(names_else)})
        if any(t.startswith('cls.') or t.startswith('Colour.') for t in names_if):
            early = [x for x in own_walk(cn.node) if isinstance(x, ast.Return) and x.lineno < top[0].lineno]
            nested = not any(top[0] is s for s in G.body_wo_doc(cn))
            if early or nested:
                r.fail(cn.key, early[0] if early else top[0], 'Colour keeps its strings in class attributes, which every construction must re-assign; this '
                       'path returns without passing the `if use_colour` / else assignment, so the strings of an earlier construction (with colour on) '
                       'stay in force after options.no_color is set', loc=cn.loc(early[0] if early else top[0]))
            else:
                r.ok('Colour assignment dominates every return')


def rule_ESC(ctx):
    """Terminal escape sequences exist only in Colour.__new__ under `if use_colour`, and every Colour is built from no_color."""
    m = ctx.m
    r = RuleResult('ESC', 'escape-sequence confinement: no colour codes can be emitted when options.no_color is set')
    cn = m.funcs.get('bitstring_options:Colour.__new__')
    if cn is None:
        raise AnalysisError('anchor vanished: Colour.__new__')
    # what Colour.__new__ assigns with colour off and with colour on, by partial evaluation of its body for both flag values:
    # {attribute: value} at every return
    from .peval import PEval, Unsupported, is_const
    import re as _re2
    _re_attr = _re2.compile(r'\w+\.\w+')

    def attrs_at_returns(flag):
        pe = PEval(m, cn, {'use_colour': flag})
        pe.run()
        out = []
        for env in pe.return_envs:
            out.append({k: v for k, v in env.items() if _re_attr.fullmatch(k) and is_const(v) and isinstance(v, str)})
        return out
    try:
        off_paths, on_paths = attrs_at_returns(False), attrs_at_returns(True)
        evaluated = bool(off_paths) and bool(on_paths)
    except (Unsupported, RecursionError):
        evaluated = False
    n_lit = 0
    for mod, tree in m.mods.items():
        if mod == 'luts':
            continue
        for x in ast.walk(tree):
            if isinstance(x, ast.Constant) and isinstance(x.value, str) and '\x1b' in x.value:
                n_lit += 1
                # locate enclosing function
                owner = None
                for f in m.funcs.values():
                    if f.mod == mod and f.node.lineno <= x.lineno <= (f.node.end_lineno or 10 ** 9):
                        if owner is None or f.node.lineno > owner.node.lineno:
                            owner = f
                ok = False
                if owner is None and evaluated and mod == 'bitstring_options':
                    # a table of codes in the body of class Colour that nothing but Colour.__new__ reads
                    cdef = m.classes.get('Colour')
                    if cdef is not None and cdef.node.lineno <= x.lineno <= (cdef.node.end_lineno or 10 ** 9):
                        holders = [t.id for st in cdef.node.body if isinstance(st, (ast.Assign, ast.AnnAssign)) and any(x is y for y in ast.walk(st))
                                   for t in (st.targets if isinstance(st, ast.Assign) else [st.target]) if isinstance(t, ast.Name)]
                        elsewhere = False
                        for g in m.funcs.values():
                            if g.key == 'bitstring_options:Colour.__new__':
                                continue
                            if any((isinstance(y, ast.Attribute) and y.attr in holders) or (isinstance(y, ast.Name) and y.id in holders) for y in ast.walk(g.node)):
                                elsewhere = True
                        ok = bool(holders) and not elsewhere
                if owner is not None and owner.key == 'bitstring_options:Colour.__new__':
                    if evaluated:
                        ok = True          # judged below by what the attributes hold with colour off
                    for i in own_walk(owner.node):
                        if isinstance(i, ast.If):
                            pt, pbody, _pelse = G.pos_if(i)
                            if ast.unparse(pt) == 'use_colour' and any(x is y for b in pbody for y in ast.walk(b)):
                                ok = True
                if ok:
                    r.ok(None)
                else:
                    r.fail(owner.key if owner else f'{mod}:<module>', f'escape literal {x.value!r}', 'a terminal escape sequence outside Colour.__new__\'s '
                           '`if use_colour` branch can reach the output although options.no_color is set', loc=f'bitstring/{mod}.py:{x.lineno}')
    if n_lit == 0:
        raise AnalysisError('no escape literal found at all (Colour vanished?)')
    if evaluated:
        names_on = set().union(*[set(p_) for p_ in on_paths])
        bad_off = [(k, v) for p_ in off_paths for k, v in p_.items() if v != '']
        if not names_on or any(not (is_const(v) and isinstance(v, str) and v) for p_ in on_paths for v in p_.values()):
            raise AnalysisError('Colour.__new__: colour attributes not recognised (needs a human)')
        if bad_off:
            r.fail(cn.key, 'else branch values', f'with colour off every colour attribute must be the empty string ({bad_off[0][0]} is {bad_off[0][1]!r})', loc=cn.loc())
        else:
            r.ok('Colour with colour off', {'instance': 'Colour.__new__', 'attributes': sorted(names_on), 'verdict': 'all empty with use_colour=False'})
        # the strings live on the class (shared by every Colour object): every path to a return must assign all of them
        shared = any(k.startswith(('cls.', 'Colour.')) for k in names_on)
        incomplete = [p_ for p_ in off_paths + on_paths if set(p_) != names_on]
        if incomplete and shared:
            r.fail(cn.key, 'a return that skips the colour assignment', 'Colour keeps its strings in class attributes, which every construction must re-assign; '
                   'one path returns without assigning ' + ', '.join(sorted(names_on - set(incomplete[0]))) + ', so the strings of an earlier construction '
                   '(with colour on) stay in force after options.no_color is set', loc=cn.loc())
        elif incomplete:
            r.fail(cn.key, 'else branch', 'Colour must define empty colour strings when colour is off', loc=cn.loc())
        else:
            r.ok('Colour assignment dominates every return')
    else:
        _esc_syntactic(m, r, cn)
    # constructions
    n_c = 0
    for f in m.funcs.values():
        for x in own_walk(f.node):
            if isinstance(x, ast.Call) and ast.unparse(x.func) == 'Colour':
                n_c += 1
                a = ast.unparse(x.args[0]) if x.args else ''
                if a in ('not bitstring.options.no_color', 'not options.no_color'):
                    r.ok(x, {'instance': f.key, 'construct': norm(x)})
                else:
                    r.fail(f.key, x, 'Colour must be constructed from `not options.no_color`', loc=f.loc(x))
    if n_c < 3:
        raise AnalysisError(f'only {n_c} Colour constructions found (floor 3)')
    # colour strings used in pp/_pp/_format_bits come from the Colour object or parameters fed from it
    for key in ('bits:Bits._format_bits', 'bits:Bits._pp', 'bits:Bits.pp', 'array_:Array.pp'):
        f = m.funcs.get(key)
        if f is None:
            raise AnalysisError(f'anchor vanished: {key}')
        r.ok(key, trivial=True)
    return r


def rule_LOOPX(ctx):
    """A loop that walks a cursor towards a bound in clamped steps (`pos = max(lo, pos - step)`) and works on the window at the
    cursor at the top of each round must test for the end BEFORE it moves the cursor: `pos = max(lo, pos - step); if pos == lo:
    return` leaves the loop on arrival at lo, so the window at lo itself is never processed (the matches of the last chunk are
    lost).  Where another path of the same loop tests first and moves afterwards, the two paths contradict each other."""
    m = ctx.m
    r = RuleResult('LOOPX', 'clamped-step loops test for the bound before moving the cursor (the window at the bound is processed)')
    n = 0
    for f in m.funcs.values():
        if f.mod == '__main__':
            continue
        for lp in own_walk(f.node):
            if not isinstance(lp, ast.While):
                continue

            def lists(node):
                for fld in ('body', 'orelse'):
                    lst = getattr(node, fld, None)
                    if isinstance(lst, list) and lst and isinstance(lst[0], ast.stmt):
                        yield lst
                        for c in lst:
                            if not isinstance(c, (ast.FunctionDef, ast.While, ast.For)) or c is lp:
                                yield from lists(c)
            for lst in lists(lp):
                for i, st in enumerate(lst):
                    # P = max(LO, P - E)   /   P = min(HI, P + E)
                    if not (isinstance(st, ast.Assign) and len(st.targets) == 1 and isinstance(st.targets[0], ast.Name) and isinstance(st.value, ast.Call)
                            and isinstance(st.value.func, ast.Name) and st.value.func.id in ('max', 'min') and len(st.value.args) == 2):
                        continue
                    P = st.targets[0].id
                    args = st.value.args
                    step = [a for a in args if isinstance(a, ast.BinOp) and isinstance(a.op, (ast.Sub, ast.Add)) and isinstance(a.left, ast.Name) and a.left.id == P]
                    bound = [a for a in args if a not in step]
                    if len(step) != 1 or len(bound) != 1:
                        continue
                    n += 1
                    lo = ast.unparse(bound[0])
                    nxt = lst[i + 1] if i + 1 < len(lst) else None
                    arrives = isinstance(nxt, ast.If) and isinstance(nxt.test, ast.Compare) and len(nxt.test.ops) == 1 and isinstance(nxt.test.ops[0], ast.Eq) \
                        and {ast.unparse(nxt.test.left), ast.unparse(nxt.test.comparators[0])} == {P, lo} and nxt.body and isinstance(nxt.body[-1], (ast.Return, ast.Break))
                    # the window at the cursor is used at the top of the loop body
                    uses_top = any(isinstance(y, ast.Name) and y.id == P for y in ast.walk(lp.body[0])) if lp.body else False
                    if arrives and uses_top:
                        r.fail(f.key, nxt, f"{f.name} moves its cursor ({norm(st)}) and leaves the loop as soon as it ARRIVES at {lo} ({norm(nxt.test)}): the "
                               f"window at {lo} is never processed, so whatever lies in the last chunk is lost", loc=f.loc(nxt))
                    else:
                        r.ok(f'{f.key}:{norm(st)}', {'instance': f.key, 'cursor': norm(st), 'verdict': 'bound tested before the move (or window not cursor-based)'})
    if n < 1:
        r.notes.append('no clamped-step cursor loop in the package')
        r.ok('no clamped-step loops', trivial=True)
    # a generator that stops after `count` results must count what it yields: an increment of the counter that is not next to
    # the yield (e.g. before a filter that decides whether the value is yielded at all) counts results nobody receives, so the
    # two variants of one search return different numbers of matches for the same count
    n_c = 0
    for f in m.funcs.values():
        if f.mod == '__main__' or 'count' not in f.params():
            continue
        yields = [x for x in own_walk(f.node) if isinstance(x, ast.Expr) and isinstance(x.value, ast.Yield)]
        if not yields:
            continue
        # the counter: a local compared with count in an exit test
        counters = set()
        for x in own_walk(f.node):
            if isinstance(x, ast.If) and x.body and isinstance(x.body[-1], (ast.Return, ast.Break)):
                for d in ast.walk(x.test):
                    if isinstance(d, ast.Compare) and len(d.ops) == 1 and isinstance(d.ops[0], (ast.GtE, ast.Gt, ast.Eq)) and isinstance(d.left, ast.Name) \
                            and ast.unparse(d.comparators[0]) == 'count':
                        counters.add(d.left.id)
                    if isinstance(d, ast.Compare) and len(d.ops) == 1 and isinstance(d.ops[0], (ast.LtE, ast.Lt, ast.Eq)) and isinstance(d.comparators[0], ast.Name) \
                            and ast.unparse(d.left) == 'count':
                        counters.add(d.comparators[0].id)          # written the other way round: count <= c
        if not counters:
            continue

        def blocks(node):
            for fld in ('body', 'orelse', 'finalbody'):
                lst = getattr(node, fld, None)
                if isinstance(lst, list) and lst and isinstance(lst[0], ast.stmt):
                    yield lst
                    for c in lst:
                        if not isinstance(c, ast.FunctionDef):
                            yield from blocks(c)
        # the counter is the index of `for c, x in enumerate(..)`: it counts rounds, so every round must yield (no filter in between)
        enum_loops = [l for l in own_walk(f.node) if isinstance(l, ast.For) and isinstance(l.iter, ast.Call) and ast.unparse(l.iter.func) == 'enumerate'
                      and isinstance(l.target, ast.Tuple) and l.target.elts and isinstance(l.target.elts[0], ast.Name) and l.target.elts[0].id in counters
                      and not (len(l.iter.args) > 1 or l.iter.keywords)]
        if enum_loops:
            for l in enum_loops:
                n_c += 1
                direct = [st for st in l.body if st in yields]
                filtered = [y for y in yields if y not in direct and any(y is z for b in l.body for z in ast.walk(b))]
                skips = [z for b in l.body for z in ast.walk(b) if isinstance(z, ast.Continue)]
                if direct and not filtered and not skips:
                    r.ok(f'{f.key}:{norm(l.target)}', {'instance': f.key, 'verdict': 'enumerate index counts the rounds, and every round yields'})
                else:
                    r.fail(f.key, (filtered or skips or [l])[0], f"{f.name} counts the rounds of its loop (enumerate) but not every round yields: `count` limits "
                           'something other than the number of results returned', loc=f.loc((filtered or skips or [l])[0]))
            continue
        for lst in blocks(f.node):
            incs = [st for st in lst if isinstance(st, ast.AugAssign) and isinstance(st.op, ast.Add) and isinstance(st.target, ast.Name) and st.target.id in counters]
            ys = [st for st in lst if st in yields]
            if not incs and not ys:
                continue
            n_c += 1
            if incs and not ys:
                r.fail(f.key, incs[0], f"{f.name} counts a result ({norm(incs[0])}) in a place where nothing is yielded: the value may still be filtered out "
                       "afterwards, so `count` limits something other than the number of results returned (the sibling variant counts yielded "
                       'results only)', loc=f.loc(incs[0]))
            elif ys and not incs:
                r.fail(f.key, ys[0], f'{f.name} yields a result without counting it although it stops at `count`', loc=f.loc(ys[0]))
            else:
                r.ok(f'{f.key}:{norm(incs[0])}', {'instance': f.key, 'verdict': 'counter incremented next to the yield'})
    if n_c < 2:
        raise AnalysisError(f'only {n_c} counted generators found (floor 2: the two findall variants)')
    return r


def rule_DELEG(ctx):
    """Array serialisation delegates to its data; __bytes__ is tobytes; the bytes property refuses partial bytes."""
    m = ctx.m
    r = RuleResult('DELEG', 'serialisation delegation and the whole-byte guard of the bytes interpretation')
    arr = m.classes.get('Array')
    for nm in ('tobytes', 'tofile'):
        f = arr.methods.get(nm)
        if f is None:
            raise AnalysisError(f'anchor vanished: Array.{nm}')
        body = G.body_wo_doc(f)
        calls = [x for s in body for x in ast.walk(s) if isinstance(x, ast.Call) and isinstance(x.func, ast.Attribute) and x.func.attr == nm
                 and ast.unparse(x.func.value) == 'self.data']
        if len(body) != 1 or not calls:
            r.fail(f.key, f'Array.{nm} -> self.data.{nm}', f'Array.{nm} must be exactly its data\'s {nm}', loc=f.loc())
        else:
            r.ok(f'Array.{nm}')
    # ... and nothing else in Array looks at the padded serialisation: with trailing bits (a partial item at the end) tobytes() has
    # zero-filled bits that are not item data, so items, counts and comparisons taken from it see an extra item
    for nm, f in sorted(arr.methods.items()):
        if nm in ('tobytes', 'tofile', '__bytes__'):
            continue
        for x in own_walk(f.node):
            padded = (isinstance(x, ast.Call) and isinstance(x.func, ast.Attribute) and x.func.attr == 'tobytes' and ast.unparse(x.func.value) == 'self.data') or \
                (isinstance(x, ast.Call) and isinstance(x.func, ast.Name) and x.func.id in ('bytes', 'bytearray') and x.args and ast.unparse(x.args[0]) == 'self.data') or \
                (isinstance(x, ast.Attribute) and x.attr == 'bytes' and ast.unparse(x.value) == 'self.data' and isinstance(x.ctx, ast.Load))
            if padded:
                r.fail(f.key, x, f'Array.{nm} reads the zero-padded serialisation of its data: with trailing bits the padding turns into item data '
                       '(an extra item, a wrong count)', loc=f.loc(x), extra={'props': ['C14', 'C17', 'C19']})
    r.ok('Array: padded serialisation only in tobytes/tofile')
    for c in FAMILY:
        for f in m.winner(c, '__bytes__'):
            if 'self.tobytes()' not in ast.unparse(f.node):
                r.fail(f.key, '__bytes__ -> tobytes', 'bytes(s) must equal s.tobytes()', loc=f.loc())
            else:
                r.ok(f'{c}.__bytes__')
        for f in m.winner(c, 'tobytes'):
            if 'self._bitstore.tobytes()' not in ast.unparse(f.node):
                r.fail(f.key, 'tobytes -> store', 'tobytes must serialise the store', loc=f.loc())
            else:
                r.ok(f'{c}.tobytes')
    gb = m.funcs.get('bits:Bits._getbytes')
    if gb is None:
        raise AnalysisError('anchor vanished: Bits._getbytes')
    def partial_bytes(t):
        return isinstance(t, ast.BinOp) and isinstance(t.op, ast.Mod) and G.is_len_of(t.left, 'self') and fold(t.right) == 8
    g = G.find_guard(gb, partial_bytes)
    if g is None:
        # the same thing the other way round: the value is returned only under `len(self) % 8 == 0`, everything else raises
        body = G.body_wo_doc(gb)
        cv = G.cond_values(body) or []
        whole = []
        for t, v in cv:
            t2 = G.expand(gb, t, G.simple_aliases(gb, with_tests=True)) if isinstance(t, ast.AST) else t
            ok_t = isinstance(t2, ast.Compare) and len(t2.ops) == 1 and isinstance(t2.ops[0], ast.Eq) and partial_bytes(t2.left) and fold(t2.comparators[0]) == 0
            whole.append(ok_t)
        if cv and all(whole) and body and isinstance(body[-1], ast.Raise):
            g = type('G', (), {'test': G.expand(gb, cv[0][0], G.simple_aliases(gb, with_tests=True))})()
    if g is None:
        r.fail(gb.key, 'len(self) % 8 guard', 'the bytes interpretation must refuse lengths that are not whole bytes', loc=gb.loc())
    else:
        r.ok('bytes guard', {'instance': gb.key, 'guard': norm(g.test)})
    tf = m.funcs.get('bits:Bits.tofile')
    writes = [x for x in own_walk(tf.node) if isinstance(x, ast.Call) and isinstance(x.func, ast.Attribute) and x.func.attr == 'write']
    def exact(w):
        a = w.args[0] if w.args else None
        if not (isinstance(a, ast.Call) and isinstance(a.func, ast.Attribute) and a.func.attr == 'tobytes' and not a.args):
            return False
        v = a.func.value          # a chunk: a local, or a slice of self taken right there
        return isinstance(v, ast.Name) or (isinstance(v, ast.Call) and isinstance(v.func, ast.Attribute) and ast.unparse(v.func.value) == 'self'
                                           and v.func.attr in ('_slice', '_absolute_slice', '__getitem__')) \
            or (isinstance(v, ast.Subscript) and ast.unparse(v.value) == 'self')
    if not writes:
        # the writing loop lives in a routine the file object is handed to
        fparam = [p for p in tf.params() if p != 'self'][:1]
        for c in own_walk(tf.node):
            if isinstance(c, ast.Call) and isinstance(c.func, ast.Attribute) and fparam and any(isinstance(a, ast.Name) and a.id == fparam[0] for a in c.args):
                gs = [g for g in m.funcs.values() if g.name == c.func.attr and g.cls is not None]
                if len(gs) == 1:
                    writes = [x for x in own_walk(gs[0].node) if isinstance(x, ast.Call) and isinstance(x.func, ast.Attribute) and x.func.attr == 'write']
                    break
    if not writes or not all(exact(w) for w in writes):
        r.fail(tf.key, 'tofile writes tobytes()', 'tofile must write exactly the tobytes() of each chunk', loc=tf.loc())
    else:
        r.ok('tofile writes tobytes')
    bs = m.funcs.get('bitstore:BitStore.tobytes')
    if bs is None:
        raise AnalysisError('anchor vanished: BitStore.tobytes')
    r.ok('BitStore.tobytes', trivial=True)
    return r


def rule_PK(ctx):
    """pack / token strings / unpack share one parser and one token builder; value-count mismatches raise CreationError."""
    m = ctx.m
    r = RuleResult('PK', 'pack, string construction and unpack share the token parser/builder; count mismatch and parse errors raise CreationError')
    pk = m.funcs.get('methods:pack')
    sa = m.funcs.get('bits:Bits._setauto_no_length_or_offset')
    rl = m.funcs.get('bits:Bits._readlist')
    tp = m.funcs.get('utils:tokenparser')
    if None in (pk, sa, rl, tp):
        raise AnalysisError('anchor vanished: pack / _setauto_no_length_or_offset / _readlist / tokenparser')
    # the string branch of the auto-initialiser
    str_call = None
    for x in own_walk(sa.node):
        if isinstance(x, ast.If) and ast.unparse(x.test) == 'isinstance(s, str)':
            for y in ast.walk(x.body[0]):
                if isinstance(y, ast.Call):
                    str_call = y
    if str_call is None:
        raise AnalysisError('string branch of the auto-initialiser not found')
    fa = ctx.R.analyse(sa, 'Bits')
    roots = [ctx.node(g, c) for cs in fa.calls if cs.node is str_call for (g, c) in cs.targets]
    if not roots:
        raise AnalysisError('string-route callee not resolved')
    reach_str = {n[0] for n in ctx.reachable(roots)}
    reach_pack = {n[0] for n in ctx.reachable([ctx.node(pk, None)])}
    reach_unpack = {n[0] for n in ctx.reachable([ctx.node(rl, 'Bits')])}
    for name, reach in (('string construction', reach_str), ('pack', reach_pack)):
        for need in ('utils:tokenparser', 'bitstore_helpers:bitstore_from_token'):
            if need not in reach:
                r.fail('methods:pack' if name == 'pack' else sa.key, f'{name}: {need}', f"{name} no longer goes through {need.split(':')[1]}: a token string with "
                       'embedded values and pack() with separate values can build different bits', loc='bitstring/')
            else:
                r.ok(f'{name}->{need}', {'instance': name, 'uses': need})
    def direct_callees(f, c, depth=2):
        # the routine and the private helpers (of any module of the package) it is cut into
        out = set()
        for cs in ctx.R.analyse(f, c).calls:
            for (g, c2) in cs.targets:
                out.add(g.key)
                if depth > 0 and g.name.startswith('_') and not g.name.startswith('__') and g.key != f.key:
                    out |= direct_callees(g, c2, depth - 1)
        return out
    for name, reach in (('tokenparser', direct_callees(tp, None)), ('unpack/readlist', direct_callees(rl, 'Bits'))):
        if 'utils:preprocess_tokens' not in reach and 'utils:tokenparser' not in reach:
            r.fail(tp.key if name == 'tokenparser' else rl.key, f'{name}: preprocess_tokens', f'{name} no longer uses preprocess_tokens: brackets, multipliers and '
                   'struct codes expand differently when packing and when unpacking', loc='bitstring/')
        else:
            r.ok(f'{name}->preprocess_tokens')
    # too few values
    nexts = G.sites_via_helpers(m, pk, lambda x: isinstance(x, ast.Call) and isinstance(x.func, ast.Name) and x.func.id == 'next')
    tries = [x for x in own_walk(pk.node) if isinstance(x, ast.Try)]

    def handler_for(call, exc):
        for t in tries:
            if any(call is y for b in t.body for y in ast.walk(b)):
                for h in t.handlers:
                    if exc in G.handler_names(h):
                        return t, h
        return None, None
    few = many = False
    for nx in nexts:
        t, h = handler_for(nx, 'StopIteration')
        if h is None:
            continue
        if 'CreationError' in G.raises_in(h.body) or 'ValueError' in G.raises_in(h.body):
            few = True
        elif any(isinstance(y, ast.Return) for y in ast.walk(h)):
            # "good, all values used": what follows the try must raise
            after = [s for s in pk.node.body if s.lineno > t.end_lineno]
            if any(isinstance(s, ast.Raise) for s in after) and set(G.raises_in(after)) <= {'CreationError', 'ValueError'}:
                many = True
    if not many:
        # the same check written with a default: `if next(values, SENTINEL) is not SENTINEL: raise CreationError(...)`
        for x in own_walk(pk.node):
            if isinstance(x, ast.If) and G.raises_in(x.body) and set(G.raises_in(x.body)) <= {'CreationError', 'ValueError'}:
                for d in ast.walk(x.test):
                    if isinstance(d, ast.Compare) and len(d.ops) == 1 and isinstance(d.ops[0], (ast.IsNot, ast.NotEq)):
                        a, b = d.left, d.comparators[0]
                        for u, v in ((a, b), (b, a)):
                            if isinstance(u, ast.Call) and isinstance(u.func, ast.Name) and u.func.id == 'next' and len(u.args) == 2 \
                                    and ast.unparse(u.args[1]) == ast.unparse(v):
                                many = True
    if not few:
        r.fail(pk.key, 'too few values -> CreationError', 'running out of values while packing must raise CreationError (StopIteration must not escape or be swallowed)',
               loc=pk.loc())
    else:
        r.ok('too few')
    if not many:
        r.fail(pk.key, 'too many values -> CreationError', 'values left over after the last token must raise CreationError', loc=pk.loc())
    else:
        r.ok('too many')
    conv = False
    for t in tries:
        if any(isinstance(y, ast.Call) and ast.unparse(y.func).endswith('tokenparser') for b in t.body for y in ast.walk(b)):
            for h in t.handlers:
                if 'ValueError' in G.handler_names(h) and 'CreationError' in G.raises_in(h.body):
                    conv = True
    if not conv:
        r.fail(pk.key, 'format errors -> CreationError', 'a malformed format string must surface as CreationError', loc=pk.loc())
    else:
        r.ok('parse errors converted')
    # concatenation in token order; reversed only under lsb0
    revs = [x for x in own_walk(pk.node) if isinstance(x, ast.Call) and isinstance(x.func, ast.Attribute) and x.func.attr == 'reverse']
    for x in revs:
        guarded = any(isinstance(i, ast.If) and 'lsb0' in ast.unparse(i.test) and any(x is y for b in i.body for y in ast.walk(b)) for i in own_walk(pk.node))
        if not guarded:
            r.fail(pk.key, x, 'the packed pieces are reversed unconditionally: the bits for "f1, f2" are no longer those of f1 followed by those of f2', loc=pk.loc(x))
        else:
            r.ok(x)
    loops = [x for x in own_walk(pk.node) if isinstance(x, ast.For) and any(isinstance(y, ast.AugAssign) and isinstance(y.op, ast.Add) for y in ast.walk(x))]
    folds = [x for _g, x in G.route_walk(m, pk) if isinstance(x, ast.Call) and ast.unparse(x.func) in ('functools.reduce', 'reduce') and x.args
             and ast.unparse(x.args[0]) in ('operator.iadd', 'operator.add', 'operator.concat', 'operator.iconcat')]
    if not loops and not folds:
        loops = [x for _g, x in G.route_walk(m, pk) if isinstance(x, ast.For) and any(isinstance(y, ast.AugAssign) and isinstance(y.op, ast.Add) for y in ast.walk(x))]
    if not loops and not folds:
        raise AnalysisError('pack: concatenation loop not recognised (needs a human)')
    r.ok('concatenation loop')
    return r


FLOAT_FUNCS = {'math.log2', 'math.log', 'math.log10', 'math.sqrt', 'math.pow', 'math.exp', 'math.floor', 'math.ceil',
               'math.frexp', 'math.ldexp', 'math.fmod', 'float', 'round'}


def rule_INTEX(ctx):
    """Integer interpretations are exact for arbitrarily large integers only while every step is integer arithmetic:
    a true division, a float() conversion or a math.* function on the value path rounds to 53 bits (int(math.log2(2**53))
    is already wrong by one bit position for 2**53 - 1).  Every function on the call graph below the set/get/read
    functions of the registry's integer-returning dtypes (uint, int, their byte orders, ue, se, uie, sie) is scanned."""
    m = ctx.m
    r = RuleResult('INTEX', 'integer codecs stay in exact integer arithmetic (no true division, float(), math.* on the value path)')
    roots = []
    names = []
    for e in m.registry:
        if e.get('return_type') != 'int':
            continue
        names.append(e['name'])
        for role in ('set_fn', 'get_fn', 'read_fn'):
            v = e.get(role)
            if not v:
                continue
            f = m.func_by_dotted(v)
            if f is None:
                raise AnalysisError(f'registry function {v} of dtype {e["name"]} not found')
            for cx in ctx.R.contexts(f):
                roots.append(ctx.node(f, cx))
    if len(names) < 10:
        raise AnalysisError(f'only {len(names)} integer dtypes in the registry (10 confirmed)')
    # the value path: stop at constructors and promotions of the bitstring classes (they lead into every other codec,
    # e.g. the scaled-dtype wrapper, which is not part of an integer interpretation)
    generic = {'__new__', '__init__', '_initialise', '_create_from_bitstype', '_setauto', '_setauto_no_length_or_offset', 'fromstring'}

    def value_edge(n, c, cs):
        g = m.funcs[c[0]]
        return not (g.name in generic and g.cls in FAMILY) and g.mod not in ('dtypes',)
    par = ctx.reachable(roots, edge_filter=value_edge)
    seen = set()
    for node in par:
        k = node[0]
        if k in seen:
            continue
        seen.add(k)
        f = m.funcs[k]
        if f.mod in ('exceptions', 'bitstring_options'):
            continue
        bad = None
        for x in own_walk(f.node):
            if isinstance(x, ast.BinOp) and isinstance(x.op, ast.Div):
                bad = (x, 'true division yields a float')
            elif isinstance(x, ast.AugAssign) and isinstance(x.op, ast.Div):
                bad = (x, 'true division yields a float')
            elif isinstance(x, ast.Call) and ast.unparse(x.func) in FLOAT_FUNCS:
                bad = (x, f'{ast.unparse(x.func)}() goes through a 53-bit float')
            elif isinstance(x, ast.BinOp) and isinstance(x.op, ast.Pow) and isinstance(x.right, ast.Constant) and \
                    (isinstance(x.right.value, float) or (isinstance(x.right.value, int) and x.right.value < 0)):
                bad = (x, 'power with a float/negative exponent yields a float')
            elif isinstance(x, ast.Constant) and isinstance(x.value, float) and not _in_message(f, x):
                bad = (x, 'float literal in integer arithmetic')
            if bad:
                break
        if bad:
            path = ctx.fmt_path(ctx.path_to(par, node))
            r.fail(k, bad[0], f'{bad[1]}: integers beyond 2**53 are no longer converted exactly (reached from the integer dtypes: {path})',
                   loc=f.loc(bad[0]))
        else:
            r.ok(k)
    return r


def _in_message(f, node):
    for x in own_walk(f.node):
        if isinstance(x, (ast.Raise, ast.JoinedStr)) and any(y is node for y in ast.walk(x)):
            return True
    return False


def rule_LZ(ctx):
    """Text forms show every digit, including leading zeros.  An integer rendered with bin()/hex()/oct(), format(x, 'b') or
    an f-string spec of just b/x/o/X has no leading zeros, so a rendering path that goes through an integer needs an
    explicit zero-padded width.  Scans every function below str/repr/pp and the str-returning interpretations (bin, hex, oct)."""
    m = ctx.m
    r = RuleResult('LZ', 'text renderings never pass bit content through a width-less integer format (leading zeros kept)')
    roots = []
    for cls in list(FAMILY) + ['Array']:
        for name in ('__str__', '__repr__', 'pp', '_str', '_repr'):
            kind, p = m.lookup(cls, name)
            if kind == 'method':
                for f in p:
                    for cx in ctx.R.contexts(f):
                        roots.append(ctx.node(f, cx))
    nstr = 0
    for e in m.registry:
        if e.get('return_type') == 'str':
            nstr += 1
            for role in ('get_fn', 'read_fn'):
                v = e.get(role)
                f = m.func_by_dotted(v) if v else None
                if f is not None:
                    for cx in ctx.R.contexts(f):
                        roots.append(ctx.node(f, cx))
    if nstr < 3 or len(roots) < 10:
        raise AnalysisError(f'{nstr} str-returning dtypes / {len(roots)} rendering roots found (3 / 10 confirmed)')
    par = ctx.reachable(roots)
    seen = set()
    for node in par:
        k = node[0]
        if k in seen:
            continue
        seen.add(k)
        f = m.funcs[k]
        bad = None
        ret = ast.unparse(f.node.returns).strip("'\"") if getattr(f.node, 'returns', None) is not None else ''
        if ret and not any(t in ret for t in ('str', 'None', 'Any', 'Iterator', 'Iterable', 'List', 'Tuple', 'list', 'tuple')):
            r.ok(k, trivial=True)      # builds bits or numbers, not text (e.g. an encoder reached through a constructor)
            continue
        for x in own_walk(f.node):
            if isinstance(x, ast.Call) and isinstance(x.func, ast.Name) and x.func.id in ('bin', 'hex', 'oct') and len(x.args) == 1:
                bad = (x, f'{x.func.id}() drops leading zeros')
            elif isinstance(x, ast.Call) and isinstance(x.func, ast.Name) and x.func.id == 'format' and len(x.args) == 2 and \
                    isinstance(x.args[1], ast.Constant) and str(x.args[1].value) in ('b', 'x', 'o', 'X', '#b', '#x', '#o'):
                bad = (x, f"format(.., {x.args[1].value!r}) has no zero-padded width")
            elif isinstance(x, ast.FormattedValue) and x.format_spec is not None and ast.unparse(x.format_spec).strip("f'\"") in ('b', 'x', 'o', 'X'):
                bad = (x, 'f-string integer format without a zero-padded width')
            if bad:
                break
        if bad:
            r.fail(k, bad[0], f'{bad[1]}: a value with leading zero bits is rendered too short (reached from '
                   f'{ctx.fmt_path(ctx.path_to(par, node))})', loc=f.loc(bad[0]))
        else:
            r.ok(k)
    return r


def rule_REP(ctx):
    """'n*token' means the token written n times.  For a struct token that expands to several codes ('2*<hB') the GROUP is
    repeated (h,B,h,B), as written-out '<hB,<hB' and the bracket form '2*(<hB)' give; repeating each code (h,h,B,B) pairs the
    values with the wrong codes.  The way preprocess_tokens grows its result is classified: whole-list repetition or
    element-wise repetition."""
    m = ctx.m
    r = RuleResult('REP', "a multiplier in front of a multi-code struct token repeats the whole group, in order")
    f = m.funcs.get('utils:preprocess_tokens')
    if f is None:
        raise AnalysisError('anchor vanished: utils.preprocess_tokens')
    # the list being built = the returned name
    rets = [x.value.id for x in own_walk(f.node) if isinstance(x, ast.Return) and isinstance(x.value, ast.Name)]
    if len(set(rets)) != 1:
        raise AnalysisError('preprocess_tokens: returned list not recognised')
    out = rets[0]
    # the factor and the per-token list: `factor = int(m.group('factor'))`, `tokens = structparser(m) if ... else [..]`
    factor = [x.targets[0].id for x in own_walk(f.node) if isinstance(x, ast.Assign) and isinstance(x.targets[0], ast.Name) and 'factor' in ast.unparse(x.value)
              and 'group' in ast.unparse(x.value)]
    group = [x.targets[0].id for x in own_walk(f.node) if isinstance(x, ast.Assign) and isinstance(x.targets[0], ast.Name) and 'structparser' in ast.unparse(x.value)]
    # the multiplier handed to the struct expansion itself: there it must repeat the finished code list, not the count of each code
    sp = m.funcs.get('utils:structparser')
    if len(set(factor)) == 1 and sp is not None:
        handed = False
        for c in own_walk(f.node):
            if isinstance(c, ast.Call) and ast.unparse(c.func).split('.')[-1] == 'structparser':
                ps = sp.params()
                for i, a in enumerate(c.args):
                    if isinstance(a, ast.Name) and a.id == factor[0] and i < len(ps):
                        handed = ps[i]
                for kw in c.keywords:
                    if isinstance(kw.value, ast.Name) and kw.value.id == factor[0] and kw.arg:
                        handed = kw.arg
                if handed:
                    per_code = [x for x in own_walk(sp.node) if isinstance(x, (ast.ListComp, ast.GeneratorExp, ast.For))
                                and any(isinstance(y, ast.Name) and y.id == handed for y in ast.walk(x.elt if not isinstance(x, ast.For) else ast.Module(body=x.body, type_ignores=[])))]
                    if per_code:
                        r.fail(f.key, c, f"the multiplier is handed to structparser ({handed}), which multiplies the count of EACH code: '2*<hB' becomes h,h,B,B, but "
                               "the multiplier repeats the token as written (h,B,h,B - what '<hB,<hB' and '2*(<hB)' give), so packed values meet the wrong codes",
                               loc=f.loc(c))
                        return r
                    raise AnalysisError(f'preprocess_tokens: the multiplier is handed to structparser ({handed}); how it is used there is not recognised (needs a human)')
    if len(set(factor)) != 1 or len(set(group)) != 1:
        raise AnalysisError('preprocess_tokens: factor / token-group variables not recognised')
    fac, grp = factor[0], group[0]

    def enclosing_fors(node):
        return [l for l in own_walk(f.node) if isinstance(l, ast.For) and any(node is y for b in l.body for y in ast.walk(b))]

    def classify(e, node):
        """'group' | 'element' | 'plain' (no repetition here) | None"""
        fors = enclosing_fors(node)
        over_group = [l for l in fors if isinstance(l.iter, ast.Name) and l.iter.id == grp]
        over_factor = [l for l in fors if isinstance(l.iter, ast.Call) and ast.unparse(l.iter.func) == 'range' and fac in ast.unparse(l.iter)]
        txt = ast.unparse(e)
        if isinstance(e, ast.BinOp) and isinstance(e.op, ast.Mult):
            a, b = ast.unparse(e.left), ast.unparse(e.right)
            if {a, b} == {grp, fac}:
                return 'group'
            other = e.left if b == fac else e.right if a == fac else None
            if other is not None and isinstance(other, ast.List) and len(other.elts) == 1 and over_group and ast.unparse(other.elts[0]) == ast.unparse(over_group[0].target):
                return 'element'
        if txt == grp:
            if over_factor and not over_group:
                return 'group'
            aug = [x for x in own_walk(f.node) if isinstance(x, ast.AugAssign) and isinstance(x.op, ast.Mult) and ast.unparse(x.target) == grp and ast.unparse(x.value) == fac]
            if aug:
                return 'group'
            return 'plain'
        if isinstance(e, (ast.ListComp, ast.GeneratorExp)) and len(e.generators) == 2:
            g0, g1 = e.generators
            it0, it1 = ast.unparse(g0.iter), ast.unparse(g1.iter)
            if it0 == grp and fac in it1:
                return 'element'
            if fac in it0 and it1 == grp:
                return 'group'
        return None
    grows = []
    for x in own_walk(f.node):
        if isinstance(x, ast.Call) and isinstance(x.func, ast.Attribute) and ast.unparse(x.func.value) == out and x.func.attr in ('extend', 'append') and x.args:
            grows.append((x, x.args[0]))
        if isinstance(x, ast.AugAssign) and ast.unparse(x.target) == out and isinstance(x.op, ast.Add):
            grows.append((x, x.value))
    if not grows:
        raise AnalysisError('preprocess_tokens: no statement growing the result found')
    for node, e in grows:
        k = classify(e, node)
        if k == 'group':
            r.ok(f'{f.key}:{norm(node)}', {'instance': f.key, 'grows_by': norm(e), 'verdict': 'whole group repeated'})
        elif k == 'element':
            r.fail(f.key, node, f"the result grows by {norm(e)} for each code of the group: '2*<hB' becomes h,h,B,B, but the multiplier repeats the token as "
                   "written (h,B,h,B - what '<hB,<hB' and '2*(<hB)' give), so packed values meet the wrong codes", loc=f.loc(node))
        else:
            raise AnalysisError(f'preprocess_tokens: cannot classify how the result grows ({norm(node)}) (needs a human)')
    # the bracket form: n copies for every n the grammar admits, including 0 ('0*(f)' is f written zero times, as '0*f' is).
    # A repetition written (n - 1) * (x + sep) + x always leaves one copy.
    g = m.funcs.get('utils:expand_brackets')
    if g is None:
        raise AnalysisError('anchor vanished: utils.expand_brackets')
    facs = {x.targets[0].id for x in own_walk(g.node) if isinstance(x, ast.Assign) and isinstance(x.targets[0], ast.Name) and 'group' in ast.unparse(x.value)
            and 'int(' in ast.unparse(x.value)}
    if not facs:
        raise AnalysisError('expand_brackets: factor variable not recognised')
    reps = [x for x in own_walk(g.node) if isinstance(x, ast.BinOp) and isinstance(x.op, ast.Mult)
            and any(isinstance(y, ast.Name) and y.id in facs for y in ast.walk(x))]
    if not reps:
        raise AnalysisError('expand_brackets: repetition by the factor not recognised')
    for x in reps:
        side = x.left if any(isinstance(y, ast.Name) and y.id in facs for y in ast.walk(x.left)) else x.right
        if isinstance(side, ast.BinOp) and isinstance(side.op, ast.Sub) and isinstance(side.right, ast.Constant) and side.right.value == 1:
            r.fail(g.key, x, f"the bracket group is repeated {ast.unparse(side)} times and then written once more: for a factor of 0 one copy remains, "
                   "although '0*(f)' is f written zero times (and '0*f' without brackets gives none)", loc=g.loc(x))
        else:
            r.ok(f'{g.key}:{norm(x)}', {'instance': g.key, 'repetition': norm(x), 'verdict': 'n copies for every n >= 0'})
    return r


def rule_STALE(ctx):
    """A "bits remaining" quantity (len(self) - pos ...) is only right for the position it was computed from.  Computed once
    before a loop that advances that position and used inside the loop, it ignores everything the loop has consumed so far
    (e.g. a variable-length token in front of a length-less one)."""
    m = ctx.m
    r = RuleResult('STALE', 'remaining-bits quantities are computed from the current position, not from the position before the loop')
    n = 0
    for f in m.funcs.values():
        if f.mod == '__main__':
            continue
        loops = [l for l in own_walk(f.node) if isinstance(l, (ast.For, ast.While))]
        for l in loops:
            carried = set()
            for b in l.body:
                for y in ast.walk(b):
                    if isinstance(y, (ast.Assign, ast.AugAssign)):
                        for t in (y.targets if isinstance(y, ast.Assign) else [y.target]):
                            for z in ast.walk(t):
                                if isinstance(z, ast.Name) and isinstance(z.ctx, ast.Store):
                                    carried.add(z.id)
            carried &= {'pos', 'p', 'position', 'bitpos', 'start', 'offset'} | {v for v in carried if 'pos' in v}
            if not carried:
                continue
            n += 1
            bad = None
            for x in own_walk(f.node):
                if isinstance(x, ast.Assign) and x.lineno < l.lineno and not any(x is y for b in l.body for y in ast.walk(b)) and \
                        len(x.targets) == 1 and isinstance(x.targets[0], ast.Name):
                    w = x.targets[0].id
                    if w in carried:
                        continue
                    for v in carried:
                        rem = any(isinstance(y, ast.BinOp) and isinstance(y.op, ast.Sub) and 'len(self)' in ast.unparse(y.left) and
                                  any(isinstance(z, ast.Name) and z.id == v for z in ast.walk(y.right)) for y in ast.walk(x.value))
                        if rem and any(isinstance(y, ast.Name) and y.id == w and isinstance(y.ctx, ast.Load) for b in l.body for y in ast.walk(b)) \
                                and not any(isinstance(y, ast.Assign) and any(isinstance(t, ast.Name) and t.id == w for t in y.targets) for b in l.body for y in ast.walk(b)):
                            bad = (x, w, v)
            if bad:
                x, w, v = bad
                r.fail(f.key, x, f"'{w}' is computed from len(self) - {v} before the loop at line {l.lineno}, which advances '{v}', and is used inside it: bits the "
                       'loop has already consumed (e.g. by a variable-length token) are not subtracted', loc=f.loc(x))
            else:
                r.ok(f'{f.key}:loop@{norm(l.target) if isinstance(l, ast.For) else "while"}')
    if n < 3:
        raise AnalysisError(f'only {n} loops advancing a position found (floor 3)')
    return r

"""J (who reads which field), M (member resolution), D1/D3 (exception census), N3 (names),
hashability and ordering operators."""
from __future__ import annotations

import ast
import builtins
import symtable

from ..core import own_walk
from ..model import AnalysisError, FAMILY, MUTABLE, IMMUTABLE
from ..report import RuleResult, norm

EXPECTED_SLOTS = {
    'Bits': ('_bitstore', '_filename'), 'ConstBitStream': ('_pos',), 'BitArray': (), 'BitStream': (),
    'BitStore': ('_bitarray', 'modified_length', 'immutable'),
}

# field -> (classes whose methods may read it, {function key: reason} for readers outside those classes)
READERS_BASE = {
    '_pos': ({'ConstBitStream', 'BitStream'}, {}),
    '_filename': (set(), {'bits:Bits._repr': 'repr of a file-backed object names the file (documented)'}),
    'immutable': ({'BitStore'}, {
        'bits:Bits._addleft': 'sharing logic: copies a flagged store before concatenation',
        'bitarray_:BitArray.__init__': 'claim: copy-if-flagged',
        'bitstream:BitStream.__init__': 'claim: copy-if-flagged',
        'bitarray_:BitArray.__copy__': 'assert on a fresh store',
    }),
    'modified_length': ({'BitStore'}, {
        'bits:Bits.tobitarray': 'selects the windowed copy for a length-limited file store',
    }),
    '_bitarray': ({'BitStore'}, {
        'bits:Bits.tobitarray': 'hands out a copy of the bitarray (A6 checks that it is a copy)',
    }),
}

# operations whose result must depend on bit content only (J2): never on _pos / _filename
CONTENT_OPS = ['__eq__', '__ne__', '__hash__', '__len__', '__iter__', '__bool__', '__getitem__', '__add__', '__radd__',
               '__mul__', '__rmul__', '__invert__', '__and__', '__or__', '__xor__', '__rand__', '__ror__', '__rxor__',
               '__lshift__', '__rshift__', '__contains__', '__bytes__', '__str__', 'tobytes', 'tobitarray', 'count',
               'all', 'any', 'startswith', 'endswith', 'cut', 'split', 'join', 'findall', 'unpack', 'copy', '__copy__',
               'tofile']


def field_reads(ctx, node, field):
    f = ctx.m.funcs[node[0]]
    out = []
    for x in own_walk(f.node):
        if isinstance(x, ast.Attribute) and x.attr == field and isinstance(x.ctx, ast.Load):
            out.append(x)
        # hasattr/getattr by literal name count as reads
        if isinstance(x, ast.Call) and isinstance(x.func, ast.Name) and x.func.id in ('getattr', 'hasattr') and len(x.args) >= 2 \
                and isinstance(x.args[1], ast.Constant) and x.args[1].value == field:
            out.append(x)
    return out


def _sharing_logic_read(f, x):
    """The flag is only consulted to decide whether to copy: it is the test of an if/conditional whose true branch makes a
    fresh copy (`._copy()`), or it sits in an assert."""
    for n in own_walk(f.node):
        if isinstance(n, ast.Assert) and any(x is y for y in ast.walk(n.test)):
            return True
        if isinstance(n, (ast.If, ast.IfExp)) and any(x is y for y in ast.walk(n.test)):
            body = n.body if isinstance(n.body, list) else [n.body]
            if any(isinstance(y, ast.Call) and isinstance(y.func, ast.Attribute) and y.func.attr in ('_copy',) for b in body for y in ast.walk(b)):
                return True
    return False


def rule_J1(ctx):
    """Per-object state is closed (slots), and each field is read only where its role allows."""
    m = ctx.m
    r = RuleResult('J1', 'per-object fields are read only by the code whose role needs them')
    READERS = {k: (set(v[0]), dict(v[1])) for k, v in READERS_BASE.items()}
    for c, want in EXPECTED_SLOTS.items():
        ci = m.classes.get(c)
        if ci is None:
            raise AnalysisError(f'anchor vanished: class {c}')
        if ci.slots is None:
            r.fail(f'{ci.mod}:{c}', '__slots__', f'{c} no longer declares __slots__: objects can carry arbitrary extra state', loc=f'bitstring/{ci.mod}.py')
            continue
        extra = set(ci.slots) - set(want)
        for s in sorted(extra):
            # a new field is fine as long as nothing content-related reads it: handled by treating it like _pos below
            READERS.setdefault(s, ({c} - set(FAMILY), {}))
        r.ok(f'{c}.__slots__', {'instance': f'{c}.__slots__', 'value': list(ci.slots)})
    for field, (classes, table) in sorted(READERS.items()):
        seen_any = False
        for f in m.funcs.values():
            root = f
            while root.parent is not None:
                root = root.parent
            reads = field_reads(ctx, (f.key, None), field)
            if not reads:
                continue
            seen_any = True
            for x in reads:
                if field in ('immutable', 'modified_length'):
                    # only reads on BitStore-like receivers matter; MXFPFormat.mxfp_overflow etc. are other fields
                    pass
                if root.cls in classes or ctx.reason_key(table, root.key) is not None:
                    r.ok(f'{f.key}:{field}', reason=ctx.reason_key(table, root.key) is not None)
                elif field == 'immutable' and _sharing_logic_read(f, x):
                    r.ok(f'{f.key}:{field}', {'instance': f.key, 'read': norm(x), 'verdict': 'test of a copy-if-flagged / assert (sharing logic)'})
                else:
                    r.fail(f.key, x, f"reads '{field}', which only {sorted(classes) or sorted(table)} may consult: the result of this "
                           f"code now depends on {'the stream position' if field == '_pos' else 'the raw buffer (pad bits, endianness, bits beyond the logical length)' if field == '_bitarray' else 'how the object was built or shared'}",
                           loc=f.loc(x), extra={'field': field})
        if not seen_any and field in ('_pos', 'immutable', 'modified_length'):
            raise AnalysisError(f"no read of '{field}' found anywhere (typing broke?)")
    return r


def rule_J2(ctx):
    """Content operations reach no read of the stream position or the file name, for any of the four classes."""
    m = ctx.m
    r = RuleResult('J2', 'content operations (==, hash, len, slicing, operators, interpretations...) never read _pos/_filename')
    getters = [m.func_by_dotted(e['get_fn']) for e in m.registry if e['get_fn']]
    rcache = {}
    for c in FAMILY:
        ops = []
        for name in CONTENT_OPS:
            for f in m.winner(c, name):
                ops.append((name, f))
        for g in getters:
            if g is not None:
                ops.append((g.name, g))
        for name, f in ops:
            roots = [ctx.node(f, c)]
            parent = ctx.reachable(roots)
            bad = None
            for n in parent:
                for field in ('_pos', '_filename'):
                    if (n[0], field) not in rcache:
                        rcache[(n[0], field)] = field_reads(ctx, n, field)
                    rd = rcache[(n[0], field)]
                    # writes are fine (new objects start at 0); the repr helper is the documented reader
                    if rd and not (field == '_filename' and 'bits:Bits._repr' in ctx.rks(n[0])):
                        bad = (n, field, rd[0])
                        break
                if bad:
                    break
            if bad:
                n, field, node = bad
                g = m.funcs[n[0]]
                # __str__/__repr__ legitimately reach _repr; only __repr__ may carry pos
                r.fail(f.key, f'{c}.{name} reads {field} in {g.key}',
                       f"{c}.{name} reaches a read of {field} ({ctx.fmt_path(ctx.path_to(parent, n))}): its result is no longer "
                       'a function of the bit content alone', loc=g.loc(node), extra={'field': field})
            else:
                r.ok(f'{c}.{name}', {'instance': f'{c}.{name}', 'reachable_functions': len(parent), 'reads_pos_or_filename': False})
    return r


def class_fields(ctx, cname):
    """Names that may legitimately be loaded from an instance of a non-slot class."""
    m = ctx.m
    names = set()
    for c in m.mro.get(cname, [cname]):
        ci = m.classes.get(c)
        if ci is None:
            continue
        names |= set(ci.methods) | set(ci.attrs) | set(ci.props)
        if ci.slots:
            names |= set(ci.slots)
        for n in ci.node.body:
            if isinstance(n, ast.AnnAssign) and isinstance(n.target, ast.Name):
                names.add(n.target.id)
    # attribute stores on expressions typed as this class, anywhere
    for fa in ctx.R.all_analyses():
        for x in own_walk(fa.func.node):
            if isinstance(x, ast.Attribute) and isinstance(x.ctx, ast.Store):
                t = fa.expr_type.get(id(x.value), frozenset())
                if cname in t or ('cls:' + cname) in t:
                    names.add(x.attr)
    return names


def rule_M(ctx):
    """Every self.<x> load in every method resolves in every concrete class that can execute it."""
    m = ctx.m
    r = RuleResult('M', 'member resolution of self.<attr> for every method x concrete class')
    base_ok = {'__class__', '__doc__', '__dict__', '__name__', '__module__'}
    aug_targets = {}
    for cname, ci0 in m.classes.items():
        ctxs = [cname]
        fields = None
        for c in ctxs:
            for dc in m.mro[c]:
                for f in m.classes[dc].methods.values():
                    if f.is_staticmethod() or f.is_classmethod() or f.name == '__new__':
                        continue
                    # (c, f): f executes with self: c if c inherits it
                    if not f.node.args.args and not f.node.args.posonlyargs:
                        continue
                    selfname = (f.node.args.posonlyargs + f.node.args.args)[0].arg
                    for x in ast.walk(f.node):
                        if not (isinstance(x, ast.Attribute) and isinstance(x.value, ast.Name) and x.value.id == selfname
                                and (isinstance(x.ctx, ast.Load) or id(x) in aug_targets.setdefault(f.key, {id(a.target) for a in ast.walk(f.node) if isinstance(a, ast.AugAssign)}))):
                            continue
                        kind, _ = m.lookup(c, x.attr)
                        if kind is not None or x.attr in base_ok:
                            r.ok(None)
                            continue
                        if c not in EXPECTED_SLOTS or m.classes[c].slots is None:
                            if fields is None:
                                fields = class_fields(ctx, c)
                            if x.attr in fields:
                                r.ok(None)
                                continue
                        r.fail(f.key, f'self.{x.attr} [self: {c}]',
                               f"'{x.attr}' does not resolve on {c} (MRO {' > '.join(m.mro[c])}): calling {f.name} on a {c} raises AttributeError",
                               loc=f.loc(x), extra={'ctx': c})
        r.constructs.add(cname)
    # method calls on other typed receivers (locals, parameters): the attribute must exist on every class the receiver can have
    for fa in ctx.R.all_analyses():
        for cs in fa.unresolved:
            if cs.kind != 'call' or cs.recv is None or not cs.recv_type:
                continue
            libs = [t for t in cs.recv_type if t in m.classes]
            if not libs or len(libs) != len([t for t in cs.recv_type if t != 'none']):
                continue
            missing = [t for t in libs if m.lookup(t, cs.name)[0] is None and cs.name not in class_fields(ctx, t)]
            if isinstance(cs.recv, ast.Name) and cs.recv.id == 'self':
                continue      # reported above
            if missing:
                r.fail(fa.func.key, f'{norm(cs.recv)}.{cs.name} [{"/".join(sorted(missing))}]', f"'{cs.name}' is called on an object that can be a "
                       f"{'/'.join(sorted(missing))}, which has no such attribute: AttributeError", loc=fa.func.loc(cs.node))
            else:
                r.ok(None)
    # slot fields not assigned by every constructor must be read under a hasattr guard
    bits = m.classes['Bits']
    for f in bits.methods.values():
        for x in own_walk(f.node):
            if isinstance(x, ast.Attribute) and x.attr == '_filename' and isinstance(x.ctx, ast.Load):
                guarded = any(isinstance(t, ast.Call) and isinstance(t.func, ast.Name) and t.func.id == 'hasattr'
                              and len(t.args) == 2 and isinstance(t.args[1], ast.Constant) and t.args[1].value == '_filename'
                              for t in ast.walk(f.node) if getattr(t, 'lineno', 10 ** 9) <= x.lineno)
                if not guarded:
                    r.fail(f.key, x, "'_filename' is assigned only by the file route; reading it without hasattr raises AttributeError "
                           'for every other object', loc=f.loc(x))
                else:
                    r.ok(x)
    return r


DOCUMENTED = {'ValueError', 'CreationError', 'InterpretError', 'IndexError', 'ReadError', 'TypeError', 'Error',
              'ByteAlignError', 'OSError', 'FileNotFoundError'}
RAISE_REASONS = {
    ('bits:Bits.__getattr__', 'AttributeError'): 'required by the __getattr__ protocol (hasattr, copy, pickle rely on it)',
    ('bitarray_:BitArray.__setattr__', 'AttributeError'): 'required by the __setattr__ protocol for unknown attributes',
    ('array_:Array.fromfile', 'EOFError'): 'mirrors array.array.fromfile (documented)',
    ('bitstore:<module>', 'ImportError'): 'import-time version check of the bitarray dependency',
    ('bitstore:BitStore.__getitem__', 'NotImplementedError'): 'internal class; no Load-context subscript of a BitStore exists (checked below)',
    ('bitstore_helpers:int2bitstore', 're-raise e'): 'bitarray OverflowError re-raised only if neither range diagnosis applies (arithmetic, recorded not judged)',
}


def rule_D1(ctx):
    """Every explicit raise names a documented exception class (or carries a reviewed reason)."""
    m = ctx.m
    r = RuleResult('D1', 'raise-site census: only documented exception classes are raised')
    sites = []
    for f in m.funcs.values():
        for x in own_walk(f.node):
            if isinstance(x, ast.Raise):
                sites.append((f.key, f, x))
    for mod, tree in m.mods.items():
        if mod == 'luts':
            continue
        for n in tree.body:
            if isinstance(n, (ast.FunctionDef, ast.ClassDef)):
                continue
            for x in ast.walk(n):
                if isinstance(x, ast.Raise):
                    sites.append((f'{mod}:<module>', None, x))
    used_reasons = set()
    for key, f, x in sites:
        loc = (f.loc(x) if f else f'bitstring/{key.split(":")[0]}.py:{x.lineno}')
        if x.exc is None:
            r.ok(f'{key}:bare', trivial=True)    # bare re-raise inside a handler keeps the class
            continue
        e = x.exc.func if isinstance(x.exc, ast.Call) else x.exc
        name = e.attr if isinstance(e, ast.Attribute) else (e.id if isinstance(e, ast.Name) else ast.unparse(e))
        if isinstance(x.exc, ast.Name) and name not in DOCUMENTED and not name[0].isupper() and f is not None:
            # `error = CreationError(...)` ... `raise error`: the classes the name was built from (None assignments aside)
            defs = [y.value for y in own_walk(f.node) if isinstance(y, ast.Assign) and any(isinstance(t, ast.Name) and t.id == name for t in y.targets)]
            handler_bound = any(isinstance(y, ast.ExceptHandler) and y.name == name for y in own_walk(f.node))
            built = []
            for v in defs:
                for w in ([v.body, v.orelse] if isinstance(v, ast.IfExp) else [v]):
                    if isinstance(w, ast.Constant) and w.value is None:
                        continue
                    c = w.func if isinstance(w, ast.Call) else None
                    cn = c.attr if isinstance(c, ast.Attribute) else (c.id if isinstance(c, ast.Name) else None)
                    built.append(cn)
            if defs and not handler_bound and built and all(cn in DOCUMENTED for cn in built):
                r.ok(f'{key}:{name}', {'instance': key, 'raises': f'{name} = ' + ' | '.join(sorted(set(built)))})
                continue
        if isinstance(x.exc, ast.Name) and name not in DOCUMENTED and not name[0].isupper():
            name = 're-raise ' + name
        if name in DOCUMENTED:
            r.ok(f'{key}:{name}')
        elif ctx.reason_key(RAISE_REASONS, key, name) is not None:
            key = ctx.reason_key(RAISE_REASONS, key, name)[0]
            used_reasons.add((key, name))
            r.ok(f'{key}:{name}', reason=True, sample={'instance': key, 'raises': name, 'reason': RAISE_REASONS[(key, name)]})
        else:
            r.fail(key, f'raise {name}', f'{name} is not one of the documented exception classes '
                   '(ValueError family, IndexError/ReadError, TypeError, Error/ByteAlignError, OSError)', loc=loc)
    # side rule for NotImplementedError in BitStore.__getitem__: nobody subscripts a BitStore in Load context
    for fa in ctx.R.all_analyses():
        for x in own_walk(fa.func.node):
            if isinstance(x, ast.Subscript) and isinstance(x.ctx, ast.Load):
                t = fa.expr_type.get(id(x.value), frozenset())
                if t and t <= {'BitStore'}:
                    r.fail(fa.func.key, x, 'Load-context subscript of a BitStore raises NotImplementedError', loc=fa.func.loc(x))
    if len(sites) < 150:
        raise AnalysisError(f'only {len(sites)} raise sites found (floor 150)')
    return r


def rule_D3(ctx):
    """== with a non-promotable type is False: __eq__ catches the TypeError of auto-promotion; != goes through ==."""
    m = ctx.m
    r = RuleResult('D3', '__eq__ converts the promotion TypeError to False; __ne__ is its negation')
    for c in FAMILY:
        eqs = m.winner(c, '__eq__')
        if len(eqs) != 1:
            raise AnalysisError(f'{c}.__eq__ does not resolve to one function')
        eq = eqs[0]
        tries = [n for n in own_walk(eq.node) if isinstance(n, ast.Try)]
        conv = [n for n in own_walk(eq.node) if isinstance(n, ast.Call) and isinstance(n.func, ast.Attribute) and n.func.attr in m.promoters]
        ok = False
        for t in tries:
            inside = any(cv is x for cv in conv for b in t.body for x in ast.walk(b))
            for h in t.handlers:
                names = {x.id for x in ast.walk(h.type) if isinstance(x, ast.Name)} | {x.attr for x in ast.walk(h.type) if isinstance(x, ast.Attribute)} if h.type is not None else {'*'}
                rets = [x for x in ast.walk(h) if isinstance(x, ast.Return)]
                if inside and names & {'TypeError', 'Exception', '*'} and rets and all(
                        isinstance(x.value, ast.Constant) and x.value.value is False for x in rets):
                    ok = True
                # the same through a result variable: `except TypeError: same = False` ... `return same` right after the try
                if inside and names & {'TypeError', 'Exception', '*'} and not rets and len(h.body) == 1 and isinstance(h.body[0], ast.Assign) \
                        and len(h.body[0].targets) == 1 and isinstance(h.body[0].targets[0], ast.Name) \
                        and isinstance(h.body[0].value, ast.Constant) and h.body[0].value.value is False:
                    v = h.body[0].targets[0].id
                    body = eq.node.body
                    if t in body and body.index(t) + 1 < len(body):
                        nxt = body[body.index(t) + 1]
                        if isinstance(nxt, ast.Return) and isinstance(nxt.value, ast.Name) and nxt.value.id == v and not t.finalbody and not t.orelse:
                            ok = True
        if not conv:
            deleg = [n for n in own_walk(eq.node) if isinstance(n, ast.Call) and isinstance(n.func, ast.Attribute) and n.func.attr == '__eq__']
            if deleg:
                r.ok(f'{c}.__eq__ delegates', reason=True)
                continue
            raise AnalysisError(f'{eq.key}: promotion call not recognised')
        if not ok:
            r.fail(eq.key, f'{c}.__eq__ promotion', "comparison with a non-promotable type (int, float, None, object()) lets the "
                   'TypeError of auto-promotion escape instead of returning False', loc=eq.loc())
        else:
            r.ok(f'{c}.__eq__')
        nes = m.winner(c, '__ne__')
        for ne in nes:
            body = [s for s in ne.node.body if not (isinstance(s, ast.Expr) and isinstance(s.value, ast.Constant))]
            txt = ast.unparse(body[0]) if len(body) == 1 else ''
            pn = ne.params()[1] if len(ne.params()) > 1 else 'bs'
            eq_forms = (f'self.__eq__({pn})', f'self == {pn}')
            negation = txt in tuple(f'return not {e}' for e in eq_forms)
            if not negation and body:
                # the same thing spelled with a branch: `if <eq>: return False` ... `return True` (either polarity)
                from . import guards as G
                first = body[0]
                if isinstance(first, ast.If):
                    pt, tb, fb = G.pos_if(first)
                    fb = list(fb) + list(body[1:])
                elif len(body) == 1 and isinstance(first, ast.Return) and isinstance(first.value, ast.IfExp):
                    pt, tv, fv = G.pos_if(first.value)
                    tb, fb = [ast.Return(value=tv)], [ast.Return(value=fv)]
                else:
                    pt, tb, fb = None, [], []
                if pt is not None and ast.unparse(pt) in eq_forms:
                    rt = [x for s0 in tb for x in ast.walk(s0) if isinstance(x, ast.Return)]
                    rf = [x for s0 in fb for x in ast.walk(s0) if isinstance(x, ast.Return)]
                    negation = bool(rt) and bool(rf) and all(isinstance(x.value, ast.Constant) and x.value.value is False for x in rt) \
                        and all(isinstance(x.value, ast.Constant) and x.value.value is True for x in rf)
            if not negation:
                code = '\n'.join(ast.unparse(x) for x in body)
                if '__eq__' in code or '==' in code:
                    raise AnalysisError(f'{ne.key}: negation form not recognised (needs a human)')
                r.fail(ne.key, f'{c}.__ne__', '!= must be the negation of ==', loc=ne.loc())
            else:
                r.ok(f'{c}.__ne__')
    # the promotion routine raises TypeError (not something else) for unsupported types
    f = m.funcs.get('bits:Bits._setauto_no_length_or_offset')
    if f is None:
        raise AnalysisError('anchor vanished: Bits._setauto_no_length_or_offset')
    last = f.node.body[-1]
    chain = last
    while isinstance(chain, ast.If) and len(chain.orelse) == 1 and isinstance(chain.orelse[0], ast.If):
        chain = chain.orelse[0]
    final = chain.orelse if isinstance(chain, ast.If) else []
    if isinstance(last, ast.Raise):
        final = [last]            # guard-clause style: every branch returns, what is left falls through to the raise
    rs = [x for s in final for x in ast.walk(s) if isinstance(x, ast.Raise)]
    if not rs:
        raise AnalysisError(f'{f.key}: fall-through branch not recognised')
    for x in rs:
        nm = ast.unparse(x.exc.func if isinstance(x.exc, ast.Call) else x.exc)
        if nm != 'TypeError':
            r.fail(f.key, x, 'non-promotable types must raise TypeError (the class __eq__ converts to False)', loc=f.loc(x))
        else:
            r.ok(x)
    return r


def rule_HASH(ctx):
    """Mutable classes are unhashable, immutable ones hash; ordering operators are unsupported."""
    m = ctx.m
    r = RuleResult('HASH', 'hashability by class (MRO incl. implicit __hash__ = None) and NotImplemented ordering')
    for c in FAMILY:
        kind, p = m.lookup(c, '__hash__')
        hashable = kind == 'method' or (kind == 'attr' and not (isinstance(p, ast.Constant) and p.value is None))
        if kind == 'attr' and hashable:
            p = [type('F', (), {'key': ast.unparse(p)})()]
        if c in MUTABLE and hashable:
            r.fail(f'{m.classes[c].mod}:{c}', f'{c}.__hash__', f'{c} is mutable but resolves __hash__ to {p[0].key}: usable as a dict key while it can change',
                   loc=f'bitstring/{m.classes[c].mod}.py')
        elif c in IMMUTABLE and not hashable:
            r.fail(f'{m.classes[c].mod}:{c}', f'{c}.__hash__', f'{c} is immutable but unhashable (__hash__ resolves to None: a class that defines __eq__ must define __hash__ too)',
                   loc=f'bitstring/{m.classes[c].mod}.py')
        else:
            r.ok(f'{c}.__hash__', {'instance': f'{c}.__hash__', 'resolves_to': p[0].key if hashable else 'None'})
        for op in ('__lt__', '__gt__', '__le__', '__ge__'):
            for f in m.winner(c, op):
                rets = [x for x in own_walk(f.node) if isinstance(x, ast.Return)]
                if not rets or not all(isinstance(x.value, ast.Name) and x.value.id == 'NotImplemented' for x in rets):
                    r.fail(f.key, f'{c}.{op}', 'ordering operators are documented as unsupported (must return NotImplemented)', loc=f.loc())
                else:
                    r.ok(f'{c}.{op}', trivial=True)
    # equality and hash have one implementation each for all four classes
    for op in ('__eq__', '__ne__'):
        impls = {f.key for c in FAMILY for f in m.winner(c, op)}
        if len(impls) != 1:
            r.fail('bits:Bits.' + op, f'{op} implementations {sorted(impls)}', f'{op} is overridden in a subclass: == may now differ by class', loc='bitstring/')
        else:
            r.ok(op)
    hs = {f.key for c in IMMUTABLE for f in m.winner(c, '__hash__')}
    if len(hs) != 1:
        r.fail('bits:Bits.__hash__', f'__hash__ implementations {sorted(hs)}', 'equal Bits/ConstBitStream objects may hash differently', loc='bitstring/')
    else:
        r.ok('__hash__ single')
    return r


def rule_N3(ctx):
    """Every global name load resolves (module binding, import or builtin)."""
    m = ctx.m
    r = RuleResult('N3', 'no unresolved global name (NameError at run time)')
    bnames = set(dir(builtins))
    for mod, src in m.src.items():
        if mod == 'luts':
            continue
        top = symtable.symtable(src, f'{mod}.py', 'exec')
        module_names = {s.get_name() for s in top.get_symbols() if s.is_assigned() or s.is_imported() or s.is_namespace()}
        module_names |= {'__name__', '__file__', '__doc__', '__builtins__'}

        def rec(tab, qual):
            for s in tab.get_symbols():
                if not s.is_referenced():
                    continue
                if tab is top:
                    if not (s.is_assigned() or s.is_imported() or s.is_namespace()) and s.get_name() not in bnames | module_names:
                        r.fail(f'{mod}:{qual}', s.get_name(), f"name '{s.get_name()}' is never bound: NameError", loc=f'bitstring/{mod}.py')
                    else:
                        r.ok(None)
                    continue
                if s.is_global() or (tab.get_type() == 'class' and not s.is_local() and not s.is_free()):
                    if s.get_name() not in module_names and s.get_name() not in bnames:
                        r.fail(f'{mod}:{qual}', s.get_name(), f"global name '{s.get_name()}' is not bound in module {mod} nor a builtin: NameError when this code runs",
                               loc=f'bitstring/{mod}.py:{tab.get_lineno()}')
                    else:
                        r.ok(None)
            for ch in tab.get_children():
                rec(ch, f'{qual}.{ch.get_name()}' if qual else ch.get_name())
        rec(top, '')
        r.constructs.add(mod)
    return r


# ---------------------------------------------------------------------------------------------- MEMO
# The state each mutable container is made of (confirmed by the store census of the tree: every attribute store on an
# object of these classes goes to one of these).  Anything else stored on such an object is extra state; if its value is
# computed from one of these fields it is a memo, and a memo is right only while every writer of its source refreshes it.
CONTAINER_STATE = {
    'BitStore': {'_bitarray', 'modified_length', 'immutable'},
    'Bits': {'_bitstore', '_filename'}, 'BitArray': {'_bitstore', '_filename'},
    'ConstBitStream': {'_bitstore', '_filename', '_pos', 'pos'}, 'BitStream': {'_bitstore', '_filename', '_pos', 'pos'},
    'Array': {'_dtype', 'data'},
}
MEMO_SOURCES = {'BitStore': {'_bitarray'}, 'Bits': {'_bitstore'}, 'BitArray': {'_bitstore'}, 'ConstBitStream': {'_bitstore'},
                'BitStream': {'_bitstore'}, 'Array': {'_dtype', 'data'}}


def _writers_of(ctx, cls, field):
    """Functions that change ``field`` of an object of class ``cls``: stores of the field and in-place changes of it."""
    from ..resolve import BITARRAY_MUTATORS
    from ..effects import bitstore_mutators
    m = ctx.m
    out = {}
    store_mut = set(bitstore_mutators(ctx)) if field in ('_bitstore', 'data') else set()
    classes = [c for c in m.classes if c == cls or (cls in FAMILY and c in FAMILY)]
    for c in classes:
        for name, f in m.classes[c].methods.items():
            if name in ('__init__', '__new__'):
                continue
            for x in own_walk(f.node):
                tgt = None
                if isinstance(x, ast.Attribute) and isinstance(x.ctx, (ast.Store, ast.Del)) and x.attr == field and ast.unparse(x.value) == 'self':
                    tgt = x
                elif isinstance(x, ast.AugAssign) and ast.unparse(x.target) == f'self.{field}':
                    tgt = x
                elif isinstance(x, ast.Subscript) and isinstance(x.ctx, (ast.Store, ast.Del)) and ast.unparse(x.value) == f'self.{field}':
                    tgt = x
                elif isinstance(x, ast.Call) and isinstance(x.func, ast.Attribute) and ast.unparse(x.func.value) == f'self.{field}' and \
                        (x.func.attr in BITARRAY_MUTATORS or x.func.attr in store_mut or
                         (field == 'data' and x.func.attr in ('append', 'prepend', 'insert', 'overwrite', 'reverse', 'byteswap', 'clear', 'set', 'invert'))):
                    tgt = x
                if tgt is not None:
                    out.setdefault(f.key, (f, tgt))
    return out


def rule_MEMO(ctx):
    """No stale memo: a value computed from a container's content (its bitarray, store, dtype or data) and kept on the
    container is refreshed by every function that changes that content."""
    m = ctx.m
    r = RuleResult('MEMO', 'state kept on a mutable container besides its defining fields is refreshed by every writer of what it was computed from')
    n = 0
    for f in m.funcs.values():
        if f.mod == '__main__':
            continue
        ctxs = ctx.R.contexts(f) or [None]
        stores = [x for x in own_walk(f.node) if isinstance(x, ast.Attribute) and isinstance(x.ctx, ast.Store)]
        if not stores:
            continue
        # locals computed from a field of some object: name -> set of 'obj.field' it was computed from
        local_src = {}
        for x in own_walk(f.node):
            if isinstance(x, ast.Assign):
                srcs = {ast.unparse(y) for y in ast.walk(x.value) if isinstance(y, ast.Attribute) and isinstance(y.value, ast.Name)}
                for t in x.targets:
                    for nm in ast.walk(t):
                        if isinstance(nm, ast.Name) and isinstance(nm.ctx, ast.Store) and srcs:
                            local_src.setdefault(nm.id, set()).update(srcs)
        for st in stores:
            recv = st.value
            types = set()
            for cx in ctxs:
                t = ctx.R.analyse(f, cx).expr_type.get(id(recv))
                if t:
                    types |= set(t)
            classes = [c for c in types if c in CONTAINER_STATE]
            if not classes:
                continue
            n += 1
            if all(st.attr in CONTAINER_STATE[c] for c in classes):
                r.ok(f'{f.key}:{norm(st)}')
                continue
            cls = sorted(classes)[0]
            # the value stored
            holder = None
            for x in own_walk(f.node):
                if isinstance(x, (ast.Assign, ast.AnnAssign, ast.AugAssign)) and any(st is y for t in (x.targets if isinstance(x, ast.Assign) else [x.target]) for y in ast.walk(t)):
                    holder = x
            value = getattr(holder, 'value', None)
            rtxt = ast.unparse(recv)
            deps = set()
            if value is not None:
                for y in ast.walk(value):
                    if isinstance(y, ast.Attribute) and ast.unparse(y.value) == rtxt and y.attr in MEMO_SOURCES[cls]:
                        deps.add(y.attr)
                    if isinstance(y, ast.Call) and isinstance(y.func, ast.Attribute) and ast.unparse(y.func.value) == rtxt:
                        deps |= MEMO_SOURCES[cls] if cls != 'Array' else set()      # a method of the object: reads its content
                    if isinstance(y, ast.Name) and y.id in local_src:
                        for s in local_src[y.id]:
                            o, _, a = s.rpartition('.')
                            if o == rtxt and a in MEMO_SOURCES[cls]:
                                deps.add(a)
            if not deps:
                r.ok(f'{f.key}:{norm(st)}', {'instance': f.key, 'store': norm(holder or st), 'verdict': 'extra state, not computed from the content'})
                continue
            missing = []
            for src in sorted(deps):
                for wk, (wf, wnode) in sorted(_writers_of(ctx, cls, src).items()):
                    if wk == f.key:
                        continue
                    refreshed = any(isinstance(y, ast.Attribute) and isinstance(y.ctx, (ast.Store, ast.Del)) and y.attr == st.attr for y in own_walk(wf.node))
                    if not refreshed:
                        missing.append((src, wf, wnode))
            if missing:
                src, wf, wnode = missing[0]
                r.fail(f.key, holder or st, f"{cls}.{st.attr} is computed from the object's {'/'.join(sorted(deps))} and kept on it, but {len(missing)} function(s) "
                       f"that change {'/'.join(sorted(deps))} never refresh it (first: {wf.key.split(':')[1]} at {norm(wnode)[:50]}): after such a change the "
                       'kept value is stale and later operations use it', loc=f.loc(st),
                       extra={'props': ['C14', 'C18', 'C09'] if cls == 'Array' else ['C07', 'C08', 'C09']})
            else:
                r.ok(f'{f.key}:{norm(st)}', {'instance': f.key, 'memo': st.attr, 'verdict': 'every writer of its source refreshes it'})
    if n < 50:
        raise AnalysisError(f'only {n} attribute stores on container objects found (floor 50)')
    return r

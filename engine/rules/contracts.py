"""L, K, E*: representation invariant of BitStore, result-class provenance, sibling guard agreement, D2."""
from __future__ import annotations

import ast

from ..core import own_walk
from ..model import AnalysisError, FAMILY, MUTABLE, IMMUTABLE
from ..report import RuleResult, norm
from ..resolve import ANY
from . import guards as G


# ---------------------------------------------------------------------------------------------- L
def _ml_state_at_exit(f):
    """Abstract value of <obj>.modified_length at the exits of f: 'NONE' if it is None on every path, else 'MAYBE'."""
    def run(stmts, st):
        for s in stmts:
            if st is None:
                return None
            if isinstance(s, ast.Assign):
                for t in s.targets:
                    if isinstance(t, ast.Attribute) and t.attr == 'modified_length':
                        st = 'NONE' if (isinstance(s.value, ast.Constant) and s.value.value is None) else 'MAYBE'
            elif isinstance(s, ast.If):
                txt = ast.unparse(s.test)
                t_st = e_st = st
                if txt.endswith('.modified_length is not None'):
                    e_st = 'NONE'
                elif txt.endswith('.modified_length is None'):
                    t_st = 'NONE'
                a = run(s.body, t_st)
                b = run(s.orelse, e_st)
                alive = [x for x in (a, b) if x is not None]
                st = None if not alive else ('NONE' if all(x == 'NONE' for x in alive) else 'MAYBE')
            elif isinstance(s, (ast.Return,)):
                exits.append(st)
                return None
            elif isinstance(s, ast.Raise):
                return None
            elif isinstance(s, (ast.For, ast.While, ast.With, ast.Try)):
                for x in ast.walk(s):
                    if isinstance(x, ast.Attribute) and x.attr == 'modified_length' and isinstance(x.ctx, ast.Store):
                        st = 'MAYBE'
        return st
    exits = []
    end = run(G.body_wo_doc(f), 'UNSET')
    if end is not None:
        exits.append(end)
    return exits


def rule_L(ctx):
    """Every raw reader of a store's bitarray honours the logical length (or the length limit never outlives construction)."""
    m = ctx.m
    r = RuleResult('L', "BitStore's logical length (modified_length) is honoured by every operation")
    bs = m.classes.get('BitStore')
    if bs is None or bs.slots is None:
        raise AnalysisError('anchor vanished: BitStore.__slots__')
    if 'modified_length' not in bs.slots:
        # representation no longer has a separate logical length: nothing to honour
        r.ok('no modified_length slot', {'instance': 'BitStore.__slots__', 'verdict': 'no separate logical length'})
        return r
    writers = []
    for f in m.funcs.values():
        for x in own_walk(f.node):
            if isinstance(x, ast.Attribute) and x.attr == 'modified_length' and isinstance(x.ctx, ast.Store):
                writers.append(f)
                break
    if not writers:
        raise AnalysisError('no writer of modified_length found')
    limited = []
    for f in writers:
        ex = _ml_state_at_exit(f)
        if any(e == 'MAYBE' for e in ex):
            limited.append(f)
        else:
            r.ok(f'{f.key} exit state', {'instance': f.key, 'modified_length_at_exit': 'None on every path'})
    if not limited:
        # invariant: modified_length is None for every store that reaches a caller; raw readers are exact
        for name, f in bs.methods.items():
            r.ok(f'BitStore.{name}', trivial=True)
        return r
    # a store may carry a shorter logical length: every raw read must consult it
    for name, f in sorted(bs.methods.items()):
        if name in ('__init__', 'frombytes', 'frombuffer'):
            continue
        params = [p for p in f.params() if p != 'self']
        operands = {'self'}
        for a in f.node.args.posonlyargs + f.node.args.args:
            if a.annotation is not None and 'BitStore' in ast.unparse(a.annotation):
                operands.add(a.arg)
        txt_nodes = list(own_walk(f.node))
        for op in sorted(operands):
            raw = [x for x in txt_nodes if isinstance(x, ast.Attribute) and x.attr == '_bitarray' and isinstance(x.value, ast.Name)
                   and x.value.id == op and isinstance(x.ctx, ast.Load)]
            if not raw:
                continue
            consults = any((isinstance(x, ast.Attribute) and x.attr == 'modified_length' and isinstance(x.value, ast.Name) and x.value.id == op)
                           or G.is_len_of(x, op) for x in txt_nodes)
            mutating = op == 'self' and any(isinstance(x, ast.AugAssign) and ast.unparse(x.target) == 'self._bitarray' for x in txt_nodes)
            if consults:
                r.ok(f'BitStore.{name}({op})')
            elif mutating:
                r.ok(f'BitStore.{name}({op})', reason=True)     # mutators never run on buffer-backed stores (A5/A7)
            else:
                r.fail(f.key, f'{name}: {op}._bitarray', f"BitStore.{name} reads {op}'s whole bitarray without consulting its logical length, "
                       f"which {limited[0].key} can set below the buffer size (file opened with length=): the operation sees bits "
                       'beyond the requested length', loc=f.loc(raw[0]))
    return r


# ---------------------------------------------------------------------------------------------- K
RESULT_OPS = ['__add__', '__radd__', '__mul__', '__rmul__', '__getitem__', '__invert__', '__lshift__', '__rshift__',
              '__and__', '__or__', '__xor__', '__rand__', '__ror__', '__rxor__', 'copy', '__copy__', '_copy', '_slice',
              '_absolute_slice']


def rule_K(ctx):
    """Operators and slicing return an object of exactly the receiver's class."""
    m = ctx.m
    r = RuleResult('K', 'result-class provenance of operators/slicing: EXACT(type(self))')
    for c in FAMILY:
        for op in RESULT_OPS:
            for f in m.winner(c, op):
                fa = ctx.R.analyse(f, c)
                if not fa.returns:
                    raise AnalysisError(f'{f.key}: no return found')
                for (ret, tags) in fa.returns:
                    fam = {t for t in tags if t in FAMILY}
                    other = {t for t in tags if t not in FAMILY and t not in ('bool', 'none', 'int')}
                    if not tags or other:
                        raise AnalysisError(f'{f.key} [self: {c}]: cannot type returned value {norm(ret)} ({sorted(tags)})')
                    if op == '__radd__':
                        # the reflected form runs only when the left operand is not a bitstring, so the promoted
                        # operand is created as exactly cls (reason); its __add__ is checked on its own
                        fam -= (ctx.R.family(c) - {c})
                    if fam - {c}:
                        r.fail(f.key, f'{op}: {norm(ret.value)}', f"{c}.{op} can return an object of class {sorted(fam - {c})} instead of {c} "
                               "(the value comes from a promoted operand that may be an instance of a subclass): the result's class "
                               'must be the class of the left/bitstring operand', loc=f.loc(ret), extra={'ctx': c})
                    else:
                        r.ok(f'{c}.{op}:{norm(ret)}', {'instance': f'{c}.{op}', 'returns': sorted(tags)})
    # Python runs the RIGHT operand's reflected method first when its class is a proper subclass of the left operand's class
    # and provides a different implementation of it.  The reflected methods build their result from type(self), so such an
    # override makes Base + Sub an instance of Sub.  (The __radd__ reason above rests on this not happening.)
    for rop in ('__radd__', '__rmul__', '__rand__', '__ror__', '__rxor__', '__rlshift__', '__rrshift__', '__rsub__'):
        for L in FAMILY:
            wl = m.winner(L, rop)
            for R in FAMILY:
                if R == L or L not in m.mro[R]:
                    continue
                wr = m.winner(R, rop)
                if not wr:
                    continue
                if [g.key for g in wr] != [g.key for g in wl]:
                    g = wr[0]
                    r.fail(g.key, f'{L} {rop[3:-2]} {R}: {R}.{rop} differs from {L}.{rop}',
                           f"{g.cls}.{rop} overrides the reflected operator of its base class {L}: for `{L} instance {rop[3:-2]} {R} instance` Python calls "
                           f"{R}.{rop} before {L}.__{rop[3:]} (subclass priority), and it builds the result from type(self) = {R}: the result no longer "
                           f"has the class of the left operand", loc=g.loc(), extra={'ctx': R})
                else:
                    r.ok(f'{L}/{R}.{rop}', {'instance': f'{L} op {R}', 'reflected': rop, 'verdict': 'same implementation: left operand goes first'})
    return r


# ---------------------------------------------------------------------------------------------- E1
PATTERN_FUNCS = ['find', 'rfind', 'findall', 'split', 'replace']


def rule_E1(ctx):
    """Empty-pattern guard: find, rfind, findall, split, replace (all classes) raise ValueError before searching."""
    m = ctx.m
    r = RuleResult('E1', 'empty pattern is rejected by every search entry point (sibling agreement)')
    seen = set()
    for c in FAMILY:
        for name in PATTERN_FUNCS + ['__contains__', 'readto']:
            for f in m.winner(c, name):
                if f.key in seen:
                    continue
                seen.add(f.key)
                params = f.params()
                if len(params) < 2:
                    raise AnalysisError(f'{f.key}: no pattern parameter')
                pat = params[1]
                names = G.rebound_names(f, pat)
                g = G.find_guard(f, lambda t: any(G.test_is_empty(t, v) for v in names), exc={'ValueError', 'CreationError', 'InterpretError'}, dominate_returns=True)
                if g is not None:
                    r.ok(f'{f.key} guard', {'instance': f.key, 'guard': norm(g.test)})
                    continue
                # delegation of the raw pattern to a sibling that guards (ConstBitStream.find -> super().find, in -> Bits.find)
                fa = ctx.R.analyse(f, c)
                deleg = False
                for cs in fa.calls:
                    if cs.kind == 'call' and cs.name in PATTERN_FUNCS and cs.targets and isinstance(cs.node, ast.Call):
                        args = [a for a in cs.node.args if isinstance(a, ast.Name) and a.id in names]
                        if args:
                            deleg = True
                if deleg:
                    r.ok(f'{f.key} delegates', reason=True)
                else:
                    r.fail(f.key, f'{name}({pat}) empty-pattern guard', f"{f.cls}.{name} searches without rejecting an empty pattern; its siblings "
                           f"({', '.join(PATTERN_FUNCS)}) raise ValueError('Cannot find an empty bitstring')", loc=f.loc())
    if len(seen) < 8:
        raise AnalysisError(f'only {len(seen)} search entry points found (floor 8)')
    return r


# ---------------------------------------------------------------------------------------------- E2
def rule_E2(ctx):
    """Public functions with (start, end) validate them through _validate_slice (or forward them to one that does)."""
    m = ctx.m
    r = RuleResult('E2', 'start/end pass through _validate_slice before any other use')
    memo = {}

    def ok_func(f, c, stack=()):
        k = (f.key, c)
        if k in memo:
            return memo[k]
        if k in stack:
            return (True, 'recursive')
        params = f.params()
        sn = [p for p in params if p in ('start', 'end')]
        if len(sn) < 2:
            return (True, 'n/a')
        fa = ctx.R.analyse(f, c)
        vcalls = [x for x in own_walk(f.node) if isinstance(x, ast.Call) and isinstance(x.func, ast.Attribute)
                  and x.func.attr in m.validators]
        vline = min((x.lineno for x in vcalls), default=None)
        res = (True, 'validated' if vcalls else 'forwarded')
        # every normal exit must come after the validation (or after the forwarding call): no early `return` that skips it
        fwd_lines = [cs.node.lineno for cs in fa.calls if isinstance(cs.node, ast.Call) and cs.targets and
                     any(isinstance(a, ast.Name) and a.id in ('start', 'end') for a in list(cs.node.args) + [k.value for k in cs.node.keywords])]
        gate = vline if vline is not None else (min(fwd_lines) if fwd_lines else None)
        if gate is not None:
            for x in own_walk(f.node):
                if isinstance(x, ast.Return) and x.lineno < gate:
                    res = (False, x)
        # plain copies (`tmp = start`) are not uses; the copy is then watched like the original
        copies = {}
        for x in own_walk(f.node):
            if isinstance(x, ast.Assign) and len(x.targets) == 1 and isinstance(x.targets[0], ast.Name) and isinstance(x.value, ast.Name) \
                    and x.value.id in ('start', 'end'):
                copies[x.targets[0].id] = x
        for x in own_walk(f.node) if res[0] else ():
            if isinstance(x, ast.Name) and (x.id in ('start', 'end') or x.id in copies) and isinstance(x.ctx, ast.Load):
                if vline is not None and x.lineno >= vline:
                    continue          # at or after validation (the names are rebound to validated values)
                if any(x is c.value for c in copies.values()):
                    continue
                # before validation: only allowed as a plain argument forwarded to a callee that validates
                fwd = False
                for cs in fa.calls:
                    if isinstance(cs.node, ast.Call) and any(a is x for a in list(cs.node.args) + [k.value for k in cs.node.keywords]):
                        if not cs.targets:
                            continue
                        good = True
                        for (g, gc) in cs.targets:
                            if 'start' not in g.params() or 'end' not in g.params():
                                good = False
                            else:
                                good &= ok_func(g, gc, stack + (k,))[0]
                        fwd = good
                if not fwd:
                    res = (False, x)
                    break
        memo[k] = res
        return res

    n = 0
    for c in FAMILY:
        for name in sorted(m.public_names(c)):
            for f in m.winner(c, name):
                if 'start' in f.params() and 'end' in f.params():
                    n += 1
                    ok, info = ok_func(f, c)
                    if ok:
                        r.ok(f'{c}.{name}', {'instance': f'{c}.{name}', 'verdict': info})
                    elif isinstance(info, ast.Return):
                        r.fail(f.key, f'{name}: return before start/end validation', f"{c}.{name} can return ({norm(info)[:40]}) before start/end have been "
                               'validated or handed to the function that validates them: on that path an invalid range is silently accepted '
                               '(and a ranged operation may do nothing)', loc=f.loc(info))
                    else:
                        r.fail(f.key, f'{name}: {info.id} used before validation', f"{c}.{name} uses '{info.id}' before (or without) passing start/end "
                               'through _validate_slice: negative, reversed or out-of-range windows are not rejected with ValueError', loc=f.loc(info))
    if n < 30:
        raise AnalysisError(f'only {n} (class, function) pairs with start/end found (floor 30)')
    return r


# ---------------------------------------------------------------------------------------------- E3
SEARCH_SINKS = ('_find', '_rfind', '_findall', '_find_msb0', '_find_lsb0', '_rfind_msb0', '_rfind_lsb0', '_findall_msb0',
                '_findall_lsb0')


def _receiving_param(g, call, arg):
    """Name of the parameter of g that receives expression ``arg`` in ``call`` (None if it cannot be told)."""
    ps = g.params()
    if g.cls and not g.is_staticmethod():
        ps = ps[1:]
    for k in call.keywords:
        if k.value is arg:
            return k.arg if k.arg in g.params() else None
    for i, a in enumerate(call.args):
        if a is arg:
            # Class.method(self, ...) passes self explicitly
            off = 1 if (isinstance(call.func, ast.Attribute) and isinstance(call.func.value, ast.Name) and call.func.value.id[:1].isupper() and g.cls) else 0
            idx = i - off
            return ps[idx] if 0 <= idx < len(ps) else None
    return None


def rule_E3(ctx):
    """bytealigned=None is resolved through options.bytealigned before it reaches a store-level search."""
    m = ctx.m
    r = RuleResult('E3', 'bytealigned defaults from options.bytealigned in every public search function')
    n = 0
    seen = set()
    work = []
    for c in FAMILY:
        for name in sorted(m.public_names(c)):
            for f in m.winner(c, name):
                if 'bytealigned' in f.params():
                    work.append((f, c, 'bytealigned', name))
    while work:
        f, c, P, name = work.pop(0)
        if (f.key, P) in seen:
            continue
        seen.add((f.key, P))
        n += 1
        fa = ctx.R.analyse(f, c)
        # sanitised names
        clean = set()
        for x in own_walk(f.node):
            tgt = val = None
            if isinstance(x, ast.Assign) and len(x.targets) == 1 and isinstance(x.targets[0], ast.Name):
                tgt, val = x.targets[0].id, x.value
            elif isinstance(x, ast.AnnAssign) and isinstance(x.target, ast.Name) and x.value is not None:
                tgt, val = x.target.id, x.value
            if tgt and isinstance(val, ast.IfExp):
                pt, pbody, pelse = G.pos_if(val)
                if ast.unparse(pt) == f'{P} is None' and 'options.bytealigned' in ast.unparse(pbody) and ast.unparse(pelse) == P:
                    clean.add(tgt)
            if isinstance(x, ast.If):
                pt, pbody, pelse = G.pos_if(x)
                if ast.unparse(pt) == f'{P} is None':
                    for s in pbody:
                        if isinstance(s, ast.Assign) and ast.unparse(s.targets[0]) == P and 'options.bytealigned' in ast.unparse(s.value):
                            clean.add(f'{P}@' + str(x.lineno))
                    # statement form of the conditional expression: if P is None: t = options.bytealigned else: t = P
                    def tv(s_):
                        if isinstance(s_, ast.Assign) and len(s_.targets) == 1 and isinstance(s_.targets[0], ast.Name):
                            return s_.targets[0].id, s_.value
                        if isinstance(s_, ast.AnnAssign) and isinstance(s_.target, ast.Name) and s_.value is not None:
                            return s_.target.id, s_.value
                        return None, None
                    ta = [tv(s_)[0] for s_ in pbody if tv(s_)[0] and 'options.bytealigned' in ast.unparse(tv(s_)[1])]
                    tb = [tv(s_)[0] for s_ in pelse if tv(s_)[0] and ast.unparse(tv(s_)[1]) == P]
                    if ta and tb and ta[0] == tb[0]:
                        if ta[0] == P:
                            clean.add(f'{P}@' + str(x.lineno))
                        else:
                            clean.add(ta[0])
        resolved_in_place = [int(c2.split('@')[1]) for c2 in clean if c2.startswith(f'{P}@')]
        bad = None
        for cs in fa.calls:
            if not isinstance(cs.node, ast.Call):
                continue
            for a in list(cs.node.args) + [k.value for k in cs.node.keywords]:
                if isinstance(a, ast.Name) and a.id == P and P not in clean:
                    if any(a.lineno > ln for ln in resolved_in_place):
                        continue
                    sink = cs.name in SEARCH_SINKS or (cs.recv is not None and 'BitStore' in (cs.recv_type or ()))
                    forwards = bool(cs.targets)
                    for g, gc in (cs.targets or ()):
                        pg = _receiving_param(g, cs.node, a)
                        if pg is None or g.name.startswith(('_find', '_rfind')):
                            forwards = False
                        else:
                            work.append((g, gc if gc is not None else c, pg, g.name))     # the callee must resolve None itself
                    if sink or not forwards:
                        bad = (cs, a)
        if not bad:
            # values derived from the parameter in any other way (e.g. `bytealigned or options.bytealigned`)
            for x in own_walk(f.node):
                tgt = val = None
                if isinstance(x, ast.Assign) and len(x.targets) == 1 and isinstance(x.targets[0], ast.Name):
                    tgt, val = x.targets[0].id, x.value
                elif isinstance(x, ast.AnnAssign) and isinstance(x.target, ast.Name) and x.value is not None:
                    tgt, val = x.target.id, x.value
                if tgt and tgt not in clean and any(isinstance(y, ast.Name) and y.id == P for y in ast.walk(val)) \
                        and not (isinstance(x, ast.Assign) and tgt == P and any(x.lineno > ln for ln in resolved_in_place)):
                    if isinstance(val, ast.Call):
                        continue      # the parameter is forwarded (checked above when the callee is ours)
                    bad = (type('X', (), {'name': f'{tgt} = {norm(val)[:50]}'})(), val)
        if bad and not hasattr(bad[0], 'targets'):
            r.fail(f.key, f'{name}: bytealigned default form', f"{c}.{name} derives the alignment flag as `{bad[0].name}`: only None may be "
                   'replaced by options.bytealigned; any other form lets the option override an explicit False or lets None through',
                   loc=f.loc(bad[1]))
        elif bad:
            r.fail(f.key, f'{name}: raw bytealigned -> {bad[0].name}', f"{c}.{name} hands its bytealigned parameter (None by default) to "
                   f"{bad[0].name} without resolving None through options.bytealigned: the module-wide option is ignored",
                   loc=f.loc(bad[1]))
        else:
            r.ok(f'{f.key}', {'instance': f.key, 'resolved_as': sorted(clean) or 'forwarded to a sibling'})
    if n < 8:
        raise AnalysisError(f'only {n} functions with a bytealigned parameter found (floor 8)')
    return r


# ---------------------------------------------------------------------------------------------- E6
def rule_E6(ctx):
    """Shift / repeat / rotate / invert guards agree among siblings (negative count, empty bitstring)."""
    m = ctx.m
    r = RuleResult('E6', 'negative-count and empty-bitstring guards of shifts, repeats, rotations, invert')
    spec = [
        (['__lshift__', '__rshift__', '__ilshift__', '__irshift__'], 'neg', {'ValueError'}),
        (['__lshift__', '__rshift__', '__ilshift__', '__irshift__'], 'empty', {'ValueError'}),
        (['__mul__', '__imul__'], 'neg', {'ValueError'}),
        (['ror', 'rol'], 'neg', {'ValueError'}),
        (['ror', 'rol'], 'empty', {'Error'}),
        (['__invert__'], 'empty', {'Error'}),
    ]
    seen = set()
    for names, kind, exc in spec:
        for c in FAMILY:
            for name in names:
                for f in m.winner(c, name):
                    if (f.key, kind) in seen:
                        continue
                    seen.add((f.key, kind))
                    params = f.params()
                    if kind == 'neg':
                        if len(params) < 2:
                            raise AnalysisError(f'{f.key}: count parameter missing')
                        v = params[1]
                        g = G.find_guard(f, lambda t: G.test_is_negative(t, v), exc=exc, dominate_returns=True)
                        what = f"negative {v}"
                    else:
                        g = G.find_guard(f, lambda t: G.test_is_empty(t, 'self'), exc=exc, dominate_returns=True)
                        what = 'an empty bitstring'
                    if g is None:
                        # pure delegation (e.g. __rmul__ -> __mul__) is fine
                        body = G.body_wo_doc(f)
                        if len(body) == 1 and isinstance(body[0], ast.Return) and isinstance(body[0].value, ast.Call) and \
                                isinstance(body[0].value.func, ast.Attribute) and body[0].value.func.attr in names:
                            r.ok(f'{f.key}:{kind}', reason=True)
                            continue
                        r.fail(f.key, f'{name}: guard for {what}', f"{f.cls}.{name} does not raise {'/'.join(sorted(exc))} for {what} although its "
                               f"siblings {names} do", loc=f.loc())
                    else:
                        r.ok(f'{f.key}:{kind}', {'instance': f.key, 'guard': norm(g.test), 'raises': sorted(exc)})
    return r


# ---------------------------------------------------------------------------------------------- E7 / D2
def _dd_closures(m):
    dd = m.classes.get('DtypeDefinition')
    init = dd.methods.get('__init__') if dd else None
    if init is None:
        raise AnalysisError('anchor vanished: DtypeDefinition.__init__')
    return init, {c.key.split('.')[-1]: c for c in init.children}, init.children


def _reader_closures(m):
    """The closures DtypeDefinition.__init__ can install as self.read_fn (by role, whatever they are called), each with the
    closure that does its work when it only forwards to a sibling closure."""
    init, byname, children = _dd_closures(m)
    installed = []
    assigns = sorted([x for x in own_walk(init.node) if isinstance(x, ast.Assign) and any(ast.unparse(t) == 'self.read_fn' for t in x.targets)
                      and isinstance(x.value, ast.Name)], key=lambda x: x.lineno)
    # `self.read_fn = getattr(X, name, closure)`: the closure is still what is installed when the lookup misses
    for x in own_walk(init.node):
        if isinstance(x, ast.Assign) and any(ast.unparse(t) == 'self.read_fn' for t in x.targets) and isinstance(x.value, ast.Call) \
                and ast.unparse(x.value.func) == 'getattr' and len(x.value.args) == 3 and isinstance(x.value.args[2], ast.Name):
            y = ast.Assign(targets=x.targets, value=x.value.args[2])
            ast.copy_location(y, x)
            assigns.append(y)
    assigns.sort(key=lambda x: x.lineno)
    prev = 0
    for x in assigns:
        # every definition of that name since the previous installation may be the one installed (if/else alternatives)
        cands = [c for c in children if c.name == x.value.id and prev < c.node.lineno < x.lineno]
        if not cands:
            cands = [c for c in children if c.name == x.value.id and c.node.lineno < x.lineno][-1:]
        installed.extend(cands)
        prev = x.lineno
    out = []
    for c in installed:
        work = c
        body = G.body_wo_doc(c)
        if len(body) == 1 and isinstance(body[0], ast.Return) and isinstance(body[0].value, ast.Call) and isinstance(body[0].value.func, ast.Name):
            tgt = [k for k in children if k.name == body[0].value.func.id and k is not c]
            if tgt:
                work = max(tgt, key=lambda k: k.node.lineno if k.node.lineno < c.node.lineno else -1)
        if (c, work) not in out:
            out.append((c, work))
    return out


def rule_E7(ctx):
    """Every fixed-length read closure checks the remaining bits and raises ReadError."""
    m = ctx.m
    r = RuleResult('E7', 'fixed-length read_fn closures agree on the remaining-bits check (ReadError)')
    fixed = []
    seen = set()
    for c0, c in _reader_closures(m):
        # the variable-length reader unpacks a (value, length) pair; fixed-length readers slice bs[start:start + n]
        slices = [x for x in own_walk(c.node) if isinstance(x, ast.Subscript) and isinstance(x.slice, ast.Slice) and x.slice.upper is not None]
        if slices and c.key not in seen:
            seen.add(c.key)
            fixed.append((c, slices[0]))
    if len(fixed) < 1:
        raise AnalysisError(f'no fixed-length reader installed as self.read_fn found in DtypeDefinition.__init__')
    for c, sl in fixed:
        upper = ast.unparse(sl.slice.upper)
        good = None
        for x in own_walk(c.node):
            if isinstance(x, ast.If) and G.exits(x.body) and 'ReadError' in G.raises_in(x.body) and isinstance(x.test, ast.Compare):
                txt = ast.unparse(x.test)
                if f'len({c.params()[0]})' in txt and c.params()[1] in txt and x.lineno < sl.lineno:
                    good = x
        if good is None:
            r.fail(c.key, f'read {norm(sl)}', 'this fixed-length reader slices past the end silently (the getter then fails with ValueError/'
                   'InterpretError): a read needing more bits than remain must raise ReadError, as its sibling closure does',
                   loc=c.loc(sl), extra={'props': ['C06', 'C20']})
        else:
            r.ok(f'{c.key}', {'instance': c.key, 'guard': norm(good.test)})
    return r


def _linear(e):
    """(sorted tuple of (name, coeff), constant) for sums/differences of names and integer constants; None otherwise."""
    coeffs, const = {}, 0

    def rec(x, sign):
        nonlocal const
        if isinstance(x, ast.Constant) and isinstance(x.value, int):
            const += sign * x.value
            return True
        if isinstance(x, ast.Name):
            coeffs[x.id] = coeffs.get(x.id, 0) + sign
            return True
        if isinstance(x, ast.BinOp) and isinstance(x.op, ast.Add):
            return rec(x.left, sign) and rec(x.right, sign)
        if isinstance(x, ast.BinOp) and isinstance(x.op, ast.Sub):
            return rec(x.left, sign) and rec(x.right, -sign)
        return False
    if not rec(e, 1):
        return None
    return tuple(sorted((k, v) for k, v in coeffs.items() if v)), const


def rule_D2(ctx):
    """Exp-Golomb layers translate errors: decoders raise ReadError on truncation, getters InterpretError,
    the variable-length reader ReadError again; codewords with trailing bits are rejected; unsigned encoders reject negatives."""
    m = ctx.m
    r = RuleResult('D2', 'exp-Golomb error translation and self-delimitation checks')
    bits = m.classes['Bits']
    var = [e for e in m.registry if e['variable_length']]
    if len(var) < 4:
        raise AnalysisError(f'only {len(var)} variable-length dtypes registered')
    readers = set()
    for e in var:
        g = m.func_by_dotted(e['get_fn'])
        if g is None:
            raise AnalysisError(f"getter of '{e['name']}' not found")
        # getter: try: return self._readX(0) except ReadError: raise InterpretError
        tries = [x for x in own_walk(g.node) if isinstance(x, ast.Try)]
        ok = False
        for t in tries:
            calls = [x for b in t.body for x in ast.walk(b) if isinstance(x, ast.Call) and isinstance(x.func, ast.Attribute)
                     and ast.unparse(x.func.value) == 'self' and x.func.attr in bits.methods]
            for c in calls:
                readers.add(c.func.attr)
            for h in t.handlers:
                hn = G.handler_names(h)
                rs = G.raises_in(h.body)
                if calls and hn & {'ReadError', 'IndexError', 'Error'} and rs and set(rs) <= {'InterpretError', 'ValueError', 'CreationError'}:
                    ok = True
        if ok:
            r.ok(f'{g.key}', {'instance': g.key, 'translation': 'ReadError -> InterpretError'})
        else:
            r.fail(g.key, f"{e['name']} getter translation", f"interpreting a truncated '{e['name']}' code through the property must raise "
                   'InterpretError (ValueError); the decoder\'s ReadError (an IndexError) escapes or is mis-translated', loc=g.loc())
    # decoders: integer subscripts only inside try/except IndexError -> ReadError; readers reached transitively
    work = list(readers)
    seen = set()
    while work:
        nm = work.pop()
        if nm in seen or nm not in bits.methods:
            continue
        seen.add(nm)
        f = bits.methods[nm]
        for x in own_walk(f.node):
            if isinstance(x, ast.Call) and isinstance(x.func, ast.Attribute) and ast.unparse(x.func.value) == 'self' and x.func.attr in bits.methods \
                    and 'pos' in bits.methods[x.func.attr].params():
                work.append(x.func.attr)
        guarded_lines = set()
        for t in [x for x in own_walk(f.node) if isinstance(x, ast.Try)]:
            good = any(G.handler_names(h) & {'IndexError', 'LookupError', 'Exception', '*'} and set(G.raises_in(h.body)) == {'ReadError'} for h in t.handlers)
            if good:
                for b in t.body:
                    for y in ast.walk(b):
                        guarded_lines.add(id(y))
        for x in own_walk(f.node):
            if isinstance(x, ast.Subscript) and isinstance(x.ctx, ast.Load) and ast.unparse(x.value) == 'self' and not isinstance(x.slice, ast.Slice):
                if id(x) in guarded_lines:
                    r.ok(f'{f.key}:{norm(x)}')
                else:
                    r.fail(f.key, x, 'single-bit read outside try/except IndexError -> ReadError: a truncated codeword surfaces as IndexError '
                           'without the ReadError contract', loc=f.loc(x))
            if isinstance(x, ast.Call) and isinstance(x.func, ast.Attribute) and ast.unparse(x.func.value) == 'self' and \
                    x.func.attr in ('startswith', 'endswith', 'find', 'rfind', 'findall', 'count', 'any', 'all', 'cut', 'split', '_slice'):
                # these look at bits without ever raising for a position at or past the end
                pre = [y for y in own_walk(f.node) if isinstance(y, ast.If) and 'len(self)' in ast.unparse(y.test) and 'ReadError' in G.raises_in(y.body)
                       and y.lineno < x.lineno]
                if pre:
                    r.ok(f'{f.key}:{norm(x)}')
                else:
                    r.fail(f.key, x, f'the decoder examines bits with {x.func.attr}(), which never raises at the end of the data, and no remaining-bits '
                           'test precedes it: a codeword cut off here is decoded as if the missing bits were there (or absent), and the returned '
                           'position lies beyond the end, instead of ReadError', loc=f.loc(x), extra={'props': ['C10', 'C06']})
            if isinstance(x, ast.Call) and isinstance(x.func, ast.Attribute) and ast.unparse(x.func.value) == 'self._bitstore' and len(x.args) >= 2 \
                    and (x.func.attr.startswith('slice_to_') or x.func.attr.startswith('getslice')):
                # a store-level window read never raises for a window past the end (it is clipped): the window's end must be known to
                # lie inside the data - a raising test before it, or an enclosing test, that bounds exactly that end
                hi = x.args[1]
                want = _linear(hi)
                okc = None
                for y in own_walk(f.node):
                    if not isinstance(y, ast.If):
                        continue
                    t = y.test
                    if not (isinstance(t, ast.Compare) and len(t.ops) == 1):
                        continue
                    a, op, b = t.left, t.ops[0], t.comparators[0]
                    inside = any(x is z for bb in y.body for z in ast.walk(bb))
                    before = y.lineno < x.lineno and G.exits(y.body) and 'ReadError' in G.raises_in(y.body)
                    if inside:
                        # positive form: len(self) >= hi   /   hi <= len(self)
                        if isinstance(op, ast.GtE) and G.is_len_of(a, 'self') and _linear(b) == want and want is not None:
                            okc = y
                        if isinstance(op, ast.LtE) and G.is_len_of(b, 'self') and _linear(a) == want and want is not None:
                            okc = y
                    elif before:
                        if isinstance(op, ast.Gt) and G.is_len_of(b, 'self') and _linear(a) == want and want is not None:
                            okc = y
                        if isinstance(op, ast.Lt) and G.is_len_of(a, 'self') and _linear(b) == want and want is not None:
                            okc = y
                if okc is not None:
                    r.ok(f'{f.key}:{norm(x)}', {'instance': f.key, 'window_read': norm(x), 'bounded_by': norm(okc.test)})
                else:
                    r.fail(f.key, x, f'the decoder reads the window ending at {norm(hi)} straight from the store, which clips a window that runs past the end '
                           'instead of raising; no test bounds exactly that end by len(self) (a test that forgets the start position lets a truncated '
                           'codeword through as if zero bits followed)', loc=f.loc(x), extra={'props': ['C10', 'C06']})
            if isinstance(x, ast.Subscript) and isinstance(x.ctx, ast.Load) and ast.unparse(x.value) == 'self' and isinstance(x.slice, ast.Slice):
                # slices never raise: a length test must precede
                pre = [y for y in own_walk(f.node) if isinstance(y, ast.If) and 'len(self)' in ast.unparse(y.test) and 'ReadError' in G.raises_in(y.body)
                       and y.lineno < x.lineno]
                if pre:
                    # the test must be exactly `<slice end> > len(self)` (as linear forms), with no assignment in between
                    t = pre[-1].test
                    upper = x.slice.upper
                    diff = None
                    if isinstance(t, ast.Compare) and len(t.ops) == 1 and isinstance(t.ops[0], (ast.Gt, ast.GtE)) and G.is_len_of(t.comparators[0], 'self') and upper is not None:
                        a, b = _linear(t.left), _linear(upper)
                        if a is not None and b is not None and a[0] == b[0]:
                            diff = a[1] - b[1] + (1 if isinstance(t.ops[0], ast.GtE) else 0)
                    used_ = {z.id for e_ in (t, upper) if e_ is not None for z in ast.walk(e_) if isinstance(z, ast.Name)}
                    between = [y for y in own_walk(f.node) if isinstance(y, (ast.Assign, ast.AugAssign)) and pre[-1].lineno < y.lineno < x.lineno
                               and any(isinstance(z, ast.Name) and z.id in used_ for tg in (y.targets if isinstance(y, ast.Assign) else [y.target]) for z in ast.walk(tg))]
                    if diff is None or between:
                        raise AnalysisError(f'{f.key}: remaining-bits test before {norm(x)} not in a comparable form (needs a human)')
                    if diff != 0:
                        r.fail(f.key, f'{norm(t)} vs {norm(x)}', f"the remaining-bits test is off by {-diff} against the end of the slice it protects: "
                               + ('a codeword truncated by that many bits is decoded from fewer bits and the returned position lies beyond the end'
                                  if diff < 0 else 'a complete codeword at the very end of the data is rejected'), loc=f.loc(pre[-1]),
                               extra={'props': ['C10', 'C06']})
                    else:
                        r.ok(f'{f.key}:{norm(x)}', {'instance': f.key, 'slice': norm(x), 'guard': norm(t), 'verdict': 'guard bound == slice end'})
                else:
                    r.fail(f.key, x, 'slice read of the code suffix without a preceding remaining-bits test: a truncated codeword is decoded '
                           'from fewer bits instead of raising ReadError', loc=f.loc(x))
    if len(seen) < 3:
        raise AnalysisError(f'only {len(seen)} exp-Golomb decoders found')
    # closures
    init, byname, children = _dd_closures(m)
    # the getter installed for variable-length dtypes, by role: a closure assigned to self.get_fn that unpacks (value, length)
    # from the wrapped getter (whatever it is called)
    installed = {x.value.id for x in own_walk(init.node) if isinstance(x, ast.Assign) and isinstance(x.value, ast.Name)
                 and any(ast.unparse(t) == 'self.get_fn' for t in x.targets)}
    lc = [c for c in children if c.name in installed and any(
        isinstance(y, ast.Assign) and isinstance(y.targets[0], ast.Tuple) and len(y.targets[0].elts) == 2 and isinstance(y.value, ast.Call)
        for y in own_walk(c.node))]
    if len(lc) != 1:
        raise AnalysisError('the (value, length) getter closure installed as self.get_fn was not found')
    g = [x for x in own_walk(lc[0].node) if isinstance(x, ast.If) and isinstance(x.test, ast.Compare) and f'len({lc[0].params()[0]})' in ast.unparse(x.test)
         and isinstance(x.test.ops[0], ast.NotEq) and G.raises_in(x.body)]
    if not g:
        r.fail(lc[0].key, 'length != len(<bits>) check', 'a codeword followed by extra bits must not be accepted as a single value through the '
               'whole-bitstring property', loc=lc[0].loc())
    else:
        r.ok(lc[0].key, {'instance': lc[0].key, 'guard': norm(g[0].test)})
    vr = []
    for c0, c in _reader_closures(m):
        if not any(isinstance(x, ast.Subscript) and isinstance(x.slice, ast.Slice) and x.slice.upper is not None for x in own_walk(c.node)) and c not in vr:
            vr.append(c)
    if len(vr) != 1:
        r.defer('variable-length read_fn closure not found')
        vr = []
    ok = False
    for t in ([x for x in own_walk(vr[0].node) if isinstance(x, ast.Try)] if vr else []):
        for h in t.handlers:
            if G.handler_names(h) & {'InterpretError', 'ValueError'} and set(G.raises_in(h.body)) == {'ReadError'}:
                ok = True
    if not vr:
        pass
    elif not ok:
        r.fail(vr[0].key, 'InterpretError -> ReadError', 'reading a truncated code from a stream must raise ReadError; the getter\'s '
               'InterpretError is not translated back', loc=vr[0].loc())
    else:
        r.ok(vr[0].key)
    # unsigned encoders reject negatives before encoding
    for e in var:
        if e['is_signed']:
            continue
        sf = m.func_by_dotted(e['set_fn'])
        helpers = [x.func.attr for x in own_walk(sf.node) if isinstance(x, ast.Call) and isinstance(x.func, ast.Attribute) and x.func.attr.endswith('2bitstore')]
        if len(helpers) != 1 or helpers[0] not in m.modfuncs['bitstore_helpers']:
            raise AnalysisError(f'{sf.key}: encoder helper not recognised')
        h = m.modfuncs['bitstore_helpers'][helpers[0]]
        v = h.params()[0]
        names_v = G.rebound_names(h, v)          # the parameter, or the local holding its int() conversion
        gd = G.find_guard(h, lambda t: any(G.test_is_negative(t, nm_) for nm_ in names_v), exc={'CreationError', 'ValueError'})
        if gd is None:
            r.fail(h.key, f'{v} < 0 guard', f"the unsigned code '{e['name']}' must reject negative values", loc=h.loc(), extra={'props': ['C10', 'C15']})
        else:
            r.ok(h.key, {'instance': h.key, 'guard': norm(gd.test)})
    return r


def rule_E9(ctx):
    """The exp-Golomb setters and base decoders refuse lsb0 mode consistently."""
    m = ctx.m
    r = RuleResult('E9', 'exp-Golomb setters/decoders carry the lsb0 refusal (sibling agreement)')
    bits = m.classes['Bits']
    var = [e for e in m.registry if e['variable_length']]
    targets = []
    for e in var:
        sf = m.func_by_dotted(e['set_fn'])
        if sf is not None:
            targets.append((sf, {'CreationError', 'ValueError'}))
    # base decoders: the functions the getters decode with (and their callees taking a position) that index self
    # directly and do not delegate to another decoder
    dec = set()
    work = []
    for e in var:
        g = m.func_by_dotted(e['get_fn'])
        for t in [x for x in own_walk(g.node) if isinstance(x, ast.Try)]:
            for b in t.body:
                for x in ast.walk(b):
                    if isinstance(x, ast.Call) and isinstance(x.func, ast.Attribute) and ast.unparse(x.func.value) == 'self' and x.func.attr in bits.methods:
                        work.append(x.func.attr)
    while work:
        nm = work.pop()
        if nm in dec:
            continue
        dec.add(nm)
        for x in own_walk(bits.methods[nm].node):
            if isinstance(x, ast.Call) and isinstance(x.func, ast.Attribute) and ast.unparse(x.func.value) == 'self' and x.func.attr in bits.methods \
                    and 'pos' in bits.methods[x.func.attr].params():
                work.append(x.func.attr)
    for nm in sorted(dec):
        f = bits.methods[nm]
        if any(isinstance(x, ast.Subscript) and ast.unparse(x.value) == 'self' and not isinstance(x.slice, ast.Slice) for x in own_walk(f.node)) and not any(
                isinstance(x, ast.Call) and isinstance(x.func, ast.Attribute) and x.func.attr in dec and x.func.attr != nm for x in own_walk(f.node)):
            targets.append((f, {'ReadError'}))
    if len([t for t in targets if 'CreationError' in t[1]]) < 4 or len(targets) < 5:
        raise AnalysisError(f'only {len(targets)} exp-Golomb setters/decoders found (floor: 4 setters + 1 decoder)')
    for f, exc in targets:
        g = G.find_guard(f, lambda t: ast.unparse(t) in ('bitstring.options.lsb0', 'bitstring.options.lsb0 is True', 'options.lsb0'), exc=exc)
        if g is None:
            r.fail(f.key, 'lsb0 refusal', f'{f.name} does not refuse lsb0 mode although its siblings do: the code is produced/decoded in one '
                   'mode-dependent bit order while the others raise', loc=f.loc())
        else:
            r.ok(f.key)
    return r


def rule_E4(ctx):
    """Integer setters share the zero/None length rejection; bfloat setters reject lengths other than 16."""
    m = ctx.m
    r = RuleResult('E4', 'length guards of the integer, float and bfloat setters (sibling agreement)')
    ints = [e for e in m.registry if e['return_type'] == 'int' and not e['variable_length']]
    if len(ints) < 6:
        raise AnalysisError(f'only {len(ints)} fixed-length integer dtypes registered')
    for e in ints:
        f = m.func_by_dotted(e['set_fn'])
        f, _bind = G.through_delegate(m, f)
        if 'length' not in f.params():
            r.fail(f.key, 'length parameter', f"setter of '{e['name']}' takes no length", loc=f.loc())
            continue

        def pred(t):
            return (isinstance(t, ast.Compare) and ast.unparse(t.left) == 'length' and isinstance(t.ops[0], (ast.Eq, ast.LtE, ast.Lt))
                    and isinstance(t.comparators[0], ast.Constant) and t.comparators[0].value in (0, 1)) or ast.unparse(t) == 'not length'
        g = G.find_guard(f, pred, exc={'CreationError', 'ValueError'})
        none_ok = g is not None and any(ast.unparse(d) in ('length is None', 'not length') for d in G.disjuncts(g.test))
        if g is not None and not none_ok:
            # the two rejections as two guards: `if length is None: raise` and `if length == 0: raise`
            g2 = G.find_guard(f, lambda t: ast.unparse(t) in ('length is None', 'not length'), exc={'CreationError', 'ValueError'})
            none_ok = g2 is not None
        if g is None or not none_ok:
            r.fail(f.key, 'length is None or length == 0 guard', f"setter of '{e['name']}' does not reject a missing or zero length as its "
                   'siblings do', loc=f.loc(), extra={'props': ['C15']})
        else:
            r.ok(f.key, {'instance': f.key, 'guard': norm(g.test)})
    for e in m.registry:
        if e['name'].startswith('bfloat'):
            f = m.func_by_dotted(e['set_fn'])
            al = e['allowed_lengths']

            def pred(t):
                return isinstance(t, ast.Compare) and ast.unparse(t.left) == 'length' and isinstance(t.ops[0], ast.NotEq) \
                    and isinstance(t.comparators[0], ast.Constant) and (t.comparators[0].value,) == tuple(al)
            found = None
            for s in G.body_wo_doc(f):
                if isinstance(s, ast.If) and G.exits(s.body) and G.raises_in(s.body):
                    parts = s.test.values if isinstance(s.test, ast.BoolOp) and isinstance(s.test.op, ast.And) else [s.test]
                    if any(pred(p) for p in parts):
                        found = s
            if found is None:
                r.fail(f.key, f'length != {al[0] if al else "?"} guard', f"'{e['name']}' setter accepts lengths other than {al}", loc=f.loc(),
                       extra={'props': ['C15']})
            else:
                r.ok(f.key)
    return r


def rule_E10(ctx):
    """Array.extend(array.array) and Array.equals(array.array) consult the same attributes of the foreign array."""
    m = ctx.m
    r = RuleResult('E10', 'array.array interop: extend and equals agree on (typecode, itemsize)')
    arr = m.classes.get('Array')
    if arr is None:
        raise AnalysisError('anchor vanished: class Array')
    res = {}
    for nm in ('extend', 'equals'):
        f = arr.methods.get(nm)
        if f is None:
            raise AnalysisError(f'anchor vanished: Array.{nm}')
        p = f.params()[1]
        branch = None
        for x in own_walk(f.node):
            if isinstance(x, ast.If) and 'array.array' in ast.unparse(x.test) and 'isinstance' in ast.unparse(x.test):
                branch = x
        if branch is None:
            raise AnalysisError(f'Array.{nm}: array.array branch not found')
        _pt, pbody, _pe = G.pos_if(branch)
        attrs = {y.attr for s in pbody for y in ast.walk(s) if isinstance(y, ast.Attribute) and isinstance(y.value, ast.Name) and y.value.id == p}
        res[nm] = (f, branch, attrs, pbody)
    ext = res['extend']
    # nothing returns before the array.array branch is reached: an early "nothing to do" exit would let a mismatching (empty) array through
    early = [x for x in own_walk(ext[0].node) if isinstance(x, ast.Return) and x.lineno < ext[1].lineno
             and not any(isinstance(i, ast.If) and any(isinstance(c, ast.Call) and isinstance(c.func, ast.Name) and c.func.id == 'isinstance' and len(c.args) == 2
                                                       and ast.unparse(c.args[1]) in ('Array', 'str', 'bytes', 'bytearray', 'Bits', 'BitArray')
                                                       for c in ast.walk(G.pos_if(i)[0]))
                         and any(x is y for b in G.pos_if(i)[1] for y in ast.walk(b)) for i in own_walk(ext[0].node))]
    if early:
        r.fail(ext[0].key, early[0], 'Array.extend can return before the array.array branch checks the kind and width of the foreign array: a mismatching '
               'array.array is accepted on that path instead of raising ValueError', loc=ext[0].loc(early[0]))
    else:
        r.ok('extend: no exit before the array.array checks')
    # the byte width of the foreign items must be compared with this Array's item width before the bytes are appended
    if 'itemsize' not in ext[2]:
        r.fail(ext[0].key, 'extend(array.array): itemsize not consulted', "Array.extend trusts the typecode's nominal width from the struct table and never looks at "
               "array.itemsize (equals() does): on platforms where the two differ (typecode 'l' is 8 bytes on LP64) the raw bytes are "
               'appended and re-read with the wrong width', loc=ext[0].loc(ext[1]))
    else:
        r.ok('extend itemsize', {'instance': 'Array.extend(array.array)', 'consults': sorted(ext[2])})
    if 'typecode' not in ext[2]:
        r.fail(ext[0].key, 'extend(array.array): typecode not consulted', 'the item kind (signed/unsigned/float) of the foreign array is not checked', loc=ext[0].loc(ext[1]))
    else:
        r.ok('extend typecode')
    # the byte order and kind are in the dtype NAME: the acceptance test must compare the names (or the dtypes) too
    tests = [ast.unparse(x.test) for b in ext[3] for x in ast.walk(b) if isinstance(x, ast.If) and (G.raises_in(x.body) or G.raises_in(x.orelse))]
    import re as _re
    if not any(t.count('.name') >= 2 or _re.search(r'_dtype\s*(!=|==)\s*\w+\b(?!\.)|\b\w+\s*(!=|==)\s*self\._dtype\b(?!\.)', t) for t in tests):
        r.fail(ext[0].key, 'extend(array.array): dtype names not compared', 'the acceptance test no longer compares the dtype names: a native-endian '
               'array.array is accepted by an Array of the opposite byte order (same width and kind) and its bytes are re-read swapped',
               loc=ext[0].loc(ext[1]))
    else:
        r.ok('extend names')
    if 'itemsize' not in res['equals'][2]:
        r.fail(res['equals'][0].key, 'equals(array.array): itemsize not consulted', 'equality with an array.array must compare item widths', loc=res['equals'][0].loc())
    else:
        r.ok('equals itemsize')
    return r


def rule_E11(ctx):
    """replace() limits the number of NON-overlapping matches itself: its count never becomes findall's count."""
    m = ctx.m
    r = RuleResult('E11', "replace's count is applied after overlap filtering (never handed to findall, which counts overlapping matches)")
    n = 0
    work = []
    for c in sorted(MUTABLE):
        for f in m.winner(c, 'replace'):
            if 'count' in f.params():
                work.append((f, c, 'count'))
    seen = set()
    while work:
        f, c, P = work.pop(0)
        if (f.key, c) in seen:
            continue
        seen.add((f.key, c))
        if True:
            n += 1
            bad = None
            fa = ctx.R.analyse(f, c)
            for cs in fa.calls:
                # the limit handed on to an internal routine (whatever its parameter is called there) is followed
                if isinstance(cs.node, ast.Call) and cs.name and 'replace' in cs.name and cs.name != f.name:
                    for a in list(cs.node.args) + [k.value for k in cs.node.keywords]:
                        if any(isinstance(y, ast.Name) and y.id == P for y in ast.walk(a)):
                            for g, gc in (cs.targets or ()):
                                pg = _receiving_param(g, cs.node, a)
                                if pg:
                                    work.append((g, gc if gc is not None else c, pg))
            for x in own_walk(f.node):
                if isinstance(x, ast.Call) and isinstance(x.func, ast.Attribute) and x.func.attr in ('findall', '_findall', 'findall_msb0'):
                    for a in list(x.args[3:4]) + [k.value for k in x.keywords if k.arg == 'count']:
                        if any(isinstance(y, ast.Name) and y.id == P for y in ast.walk(a)):
                            bad = x
            if bad is not None:
                r.fail(f.key, bad, "findall's count limits ALL matches including overlapping ones, replace's count limits the non-overlapping "
                       'matches it actually replaces: with self-overlapping patterns too few replacements are made', loc=f.loc(bad))
            else:
                r.ok(f.key)
    if n < 2:
        raise AnalysisError('replace/_replace with a count parameter not found')
    return r


# ---------------------------------------------------------------------------------------------- OPT / OPTDEP / EQ1
def _truthy_uses(f, p):
    out = []
    for x in own_walk(f.node):
        tests = []
        if isinstance(x, (ast.If, ast.While, ast.IfExp)):
            tests.append(x.test)
        if isinstance(x, ast.BoolOp):
            tests += x.values
        if isinstance(x, ast.UnaryOp) and isinstance(x.op, ast.Not):
            tests.append(x.operand)
        for t in tests:
            if isinstance(t, ast.Name) and t.id == p:
                out.append(x)
    return out


def rule_OPT(ctx):
    """An Optional[int|bool|float] parameter is tested with `is None`, never by truthiness (0 / False are values)."""
    m = ctx.m
    r = RuleResult('OPT', 'Optional numeric/bool parameters are defaulted with `is None`, not truthiness')
    n = 0
    for f in m.funcs.values():
        a = f.node.args
        defaults = dict(zip([x.arg for x in (a.posonlyargs + a.args)][::-1], a.defaults[::-1]))
        defaults.update({k.arg: d for k, d in zip(a.kwonlyargs, a.kw_defaults) if d is not None})
        for arg in a.posonlyargs + a.args + a.kwonlyargs:
            if arg.annotation is None:
                continue
            ann = ast.unparse(arg.annotation)
            opt = 'Optional' in ann or 'None' in ann
            if not (opt and any(t in ann for t in ('int', 'bool', 'float'))):
                continue
            n += 1
            uses = _truthy_uses(f, arg.arg)
            # a re-binding `p = 0 if p is None else p` before the use makes it an ordinary number
            rebinds = [x.lineno for x in own_walk(f.node) if isinstance(x, ast.Assign) and any(isinstance(t, ast.Name) and t.id == arg.arg for t in x.targets)]
            uses = [u for u in uses if not any(ln < u.lineno for ln in rebinds)]
            if uses:
                r.fail(f.key, f'{arg.arg}: {norm(uses[0])[:60]}', f"'{arg.arg}' is {ann}: testing it by truthiness treats the legitimate value "
                       f"{'False' if 'bool' in ann else '0'} like None (an explicit {'False' if 'bool' in ann else '0'} is overridden by the default, or skips the "
                       'operation)', loc=f.loc(uses[0]))
            else:
                r.ok(f'{f.key}:{arg.arg}')
    if n < 60:
        raise AnalysisError(f'only {n} Optional numeric parameters found (floor 60)')
    return r


def rule_OPTDEP(ctx):
    """Interpretations depend on no module option except the documented ones (lsb0 refusal of exp-Golomb, mxfp_overflow of e4m3/e5m2)."""
    m = ctx.m
    r = RuleResult('OPTDEP', 'registry getters/setters read no option except lsb0 (refusal) and mxfp_overflow (e4m3/e5m2 encoders)')
    allowed = {'lsb0', 'mxfp_overflow'}
    seen = set()
    for e in m.registry:
        for role in ('get_fn', 'set_fn'):
            f = m.func_by_dotted(e[role]) if e[role] else None
            if f is None or f.key in seen:
                continue
            seen.add(f.key)

            def edge_ok(n, c, cs):
                g = m.funcs[c[0]]
                return not (g.name in ('__new__', '__init__', '_initialise') or g.name in m.promoters)
            parent = ctx.reachable([ctx.node(f, 'Bits')], edge_filter=edge_ok)
            bad = None
            for nn in parent:
                g = m.funcs[nn[0]]
                for opt, node in ctx.option_reads(g, nn[1]):
                    if opt not in allowed:
                        bad = (nn, opt, node)
                    elif opt == 'mxfp_overflow' and not e['name'].startswith(('e4m3', 'e5m2')):
                        bad = (nn, opt, node)
            if bad:
                g = m.funcs[bad[0][0]]
                r.fail(f.key, f"{e['name']}.{role[:3]}: options.{bad[1]}", f"the '{e['name']}' interpretation reaches a read of options.{bad[1]} in {g.key} "
                       f"({ctx.fmt_path(ctx.path_to(parent, bad[0]))}): the same bits/value are now interpreted differently depending on an unrelated "
                       'module option', loc=g.loc(bad[2]))
            else:
                r.ok(f"{e['name']}.{role[:3]}")
    if len(seen) < 50:
        raise AnalysisError(f'only {len(seen)} registry functions examined (floor 50)')
    return r


def rule_EQ1(ctx):
    """== decides on the stores (all bits and the length); a lossy serialisation is never what is compared."""
    m = ctx.m
    r = RuleResult('EQ1', '__eq__ compares stores, never padded/lossy serialisations (tobytes, hex, bytes) alone')
    lossy = {'tobytes', 'bytes', 'hex', 'tobitarray', '__bytes__'}
    n = 0
    for c in FAMILY:
        for f in m.winner(c, '__eq__'):
            n += 1
            bad = None
            for x in own_walk(f.node):
                if isinstance(x, ast.Compare) and any(isinstance(o, (ast.Eq, ast.NotEq)) for o in x.ops):
                    for side in [x.left] + x.comparators:
                        for y in ast.walk(side):
                            if isinstance(y, ast.Attribute) and y.attr in lossy and ast.unparse(y.value) in (['self'] + f.params()[1:2]):
                                bad = x
            # the operand compared as it came in (before promotion): its own type's == decides then - a memoryview compares unpacked
            # ITEMS and counts items in len(), an array.array compares values - not the bits a promotion would give
            raw = None
            op_name = f.params()[1] if len(f.params()) > 1 else None
            for x in own_walk(f.node):
                if isinstance(x, ast.Compare) and any(isinstance(o, (ast.Eq, ast.NotEq)) for o in x.ops) and op_name:
                    sides = [x.left] + x.comparators
                    if any(isinstance(sd, ast.Name) and sd.id == op_name for sd in sides) and any(
                            any(isinstance(y, ast.Name) and y.id == 'self' for y in ast.walk(sd)) for sd in sides):
                        raw = x
            if bad is not None and 'len(' not in ast.unparse(bad):
                r.fail(f.key, bad, 'equality is decided on a zero-padded serialisation without the length: bitstrings of different lengths '
                       '(and a bitstring and unequal bytes) compare equal', loc=f.loc(bad))
            elif raw is not None:
                r.fail(f.key, raw, f"== compares something of self with the operand '{op_name}' as it came in, before promotion: the operand's own type "
                       'then decides (a memoryview compares unpacked items and counts items, not bytes), so x == v and x == Bits(v) can differ',
                       loc=f.loc(raw))
            else:
                r.ok(f'{c}.__eq__')
    bs = m.classes['BitStore'].methods.get('__eq__')
    if bs is None:
        raise AnalysisError('anchor vanished: BitStore.__eq__')
    # the store-level comparison is between the two bitarrays (whatever the parameter and locals are called)
    other = bs.params()[1] if len(bs.params()) > 1 else 'other'
    cmps = [G.expand(bs, x) for x in own_walk(bs.node) if isinstance(x, ast.Compare) and len(x.ops) == 1 and isinstance(x.ops[0], ast.Eq)]
    whole = any({ast.unparse(x.left), ast.unparse(x.comparators[0])} == {'self._bitarray', f'{other}._bitarray'} for x in cmps)
    if not whole and 'modified_length' not in ast.unparse(bs.node):
        raise AnalysisError('BitStore.__eq__: comparison form not recognised (needs a human)')
    r.ok('BitStore.__eq__')
    return r


def rule_ITER1(ctx):
    """A caller-supplied iterable (possibly a one-shot iterator) is consumed at most once on every path."""
    m = ctx.m
    r = RuleResult('ITER1', 'possibly one-shot iterables are iterated at most once per path')
    consumers = ('list', 'tuple', 'set', 'sorted', 'sum', 'max', 'min', 'any', 'all', 'zip', 'enumerate', 'iter', 'frozenset', 'bytes', 'bytearray')
    n = 0
    for f in m.funcs.values():
        if f.cls not in FAMILY and f.cls != 'Array':
            continue
        cands = set()
        for a in f.node.args.posonlyargs + f.node.args.args:
            ann = ast.unparse(a.annotation) if a.annotation is not None else ''
            if 'Iterable' in ann or ann in ('BitsType', 'Any'):
                cands.add(a.arg)
        for x in own_walk(f.node):
            if isinstance(x, ast.Call) and isinstance(x.func, ast.Name) and x.func.id == 'isinstance' and len(x.args) == 2 and 'Iterable' in ast.unparse(x.args[1]) \
                    and isinstance(x.args[0], ast.Name):
                cands.add(x.args[0].id)
        for p in sorted(cands):
            def uses(stmts):
                out = []
                for s0 in stmts:
                    for y in ast.walk(s0):
                        if isinstance(y, (ast.For, ast.comprehension)) and isinstance(y.iter, ast.Name) and y.iter.id == p:
                            out.append(y.iter)
                        if isinstance(y, ast.Call) and any(isinstance(a, ast.Name) and a.id == p for a in y.args):
                            fn = ast.unparse(y.func)
                            if fn in consumers or fn.endswith('bitarray.bitarray') or fn.endswith('.join') or fn.endswith('.extend'):
                                out.append(y)
                return out
            for t in [x for x in own_walk(f.node) if isinstance(x, ast.Try)]:
                a, b = uses(t.body), [u for h in t.handlers for u in uses(h.body)]
                n += 1
                if a and b:
                    r.fail(f.key, f'{p}: {norm(a[0])[:40]} then {norm(b[0])[:40]}', f"'{p}' may be a one-shot iterator (generator, map, iter()): it is consumed in the "
                           'try body and again in the exception handler, where the items already taken are lost — the result differs from that of a list with '
                           'the same items', loc=f.loc(b[0]))
                else:
                    r.ok(None)
        r.constructs.add(f.key)
    r.ok('census', {'instance': 'iterable-consuming try blocks', 'count': n})
    return r


# ---------------------------------------------------------------------------------------------- BYTEWIN
def rule_BYTEWIN(ctx):
    """A byte-level search (bytes.find / rfind on the tobytes() of a bit window) sees only whole bytes, and tobytes() pads a
    partial last byte with zeros.  The window handed to it must therefore lie inside [start, end) on byte boundaries:
    lower bound = ceil(start / 8) * 8, upper bound = floor(end / 8) * 8.  Any other bound lets a match begin before start,
    reach past end, or match the zero padding."""
    m = ctx.m
    r = RuleResult('BYTEWIN', 'byte-level searches run on a window rounded inwards to byte boundaries (ceil for the start, floor for the end)')
    n = 0
    for f in m.funcs.values():
        if f.mod == '__main__':
            continue
        defs = {}
        for x in own_walk(f.node):
            if isinstance(x, ast.Assign) and len(x.targets) == 1 and isinstance(x.targets[0], ast.Name):
                defs.setdefault(x.targets[0].id, []).append(x.value)
        tb = [x for x in own_walk(f.node) if isinstance(x, ast.Call) and isinstance(x.func, ast.Attribute) and x.func.attr == 'tobytes'
              and isinstance(x.func.value, ast.Subscript) and isinstance(x.func.value.slice, ast.Slice)]
        for x in own_walk(f.node):
            if isinstance(x, ast.Call) and isinstance(x.func, ast.Attribute) and x.func.attr == 'tobytes':
                n += 1
        # the bytes of a WHOLE store that are then searched (inside store-level search code): there is no window at all, so a match
        # may start before start, reach past end or sit in the zero padding of a partial last byte
        if f.cls == 'BitStore' and set(f.params()) & {'start', 'end'}:
            for t in own_walk(f.node):
                if isinstance(t, ast.Call) and isinstance(t.func, ast.Attribute) and t.func.attr == 'tobytes' and not isinstance(t.func.value, ast.Subscript) \
                        and ast.unparse(t.func.value) in ('self._bitarray', 'self'):
                    holder = [k for k, vs in defs.items() if any(t is y for v in vs for y in ast.walk(v))]
                    searched = any(isinstance(y, ast.Call) and isinstance(y.func, ast.Attribute) and y.func.attr in ('find', 'rfind', 'index', 'rindex', 'count')
                                   and (any(t is z for z in ast.walk(y.func.value)) or (isinstance(y.func.value, ast.Name) and y.func.value.id in holder))
                                   for y in own_walk(f.node))
                    if searched:
                        r.fail(f.key, t, f'{f.name} searches the bytes of the whole store ({norm(t)}) although it is given a window [start, end): a match can '
                               'reach past the end of the window, and tobytes() pads a partial last byte with zeros that a pattern can match', loc=f.loc(t))
        if not tb:
            continue
        # is the byte string searched?  (directly, or through the local it is assigned to)
        for t in tb:
            holder = [k for k, vs in defs.items() if any(t is y for v in vs for y in ast.walk(v))]
            searched = any(isinstance(y, ast.Call) and isinstance(y.func, ast.Attribute) and y.func.attr in ('find', 'rfind', 'index', 'rindex', 'count')
                           and (any(t is z for z in ast.walk(y.func.value)) or (isinstance(y.func.value, ast.Name) and y.func.value.id in holder))
                           for y in own_walk(f.node))
            if not searched:
                r.ok(f'{f.key}:{norm(t)}', trivial=True)
                continue
            sl = t.func.value.slice

            def rounding(bound):
                """'ceil' / 'floor' / 'zero' / None for a bound of the form N * 8 with N = (X + 7) // 8 or X // 8."""
                if bound is None or (isinstance(bound, ast.Constant) and bound.value == 0):
                    return 'zero'
                if not (isinstance(bound, ast.BinOp) and isinstance(bound.op, ast.Mult)):
                    return None
                a, b = bound.left, bound.right
                if isinstance(a, ast.Constant):
                    a, b = b, a
                if not (isinstance(b, ast.Constant) and b.value == 8):
                    return None
                cands = defs.get(a.id, []) if isinstance(a, ast.Name) else [a]
                kinds = set()
                for v in cands:
                    if isinstance(v, ast.BinOp) and isinstance(v.op, ast.FloorDiv) and isinstance(v.right, ast.Constant) and v.right.value == 8:
                        num = v.left
                        if isinstance(num, ast.BinOp) and isinstance(num.op, ast.Add) and isinstance(num.right, ast.Constant) and num.right.value == 7:
                            kinds.add('ceil')
                        elif isinstance(num, (ast.Name, ast.Attribute)):
                            kinds.add('floor')
                        else:
                            kinds.add('?')
                    else:
                        kinds.add('?')
                return kinds.pop() if len(kinds) == 1 else None
            lo, hi = rounding(sl.lower), rounding(sl.upper)
            if lo in ('ceil', 'zero') and hi == 'floor':
                r.ok(f'{f.key}:{norm(t)}', {'instance': f.key, 'window': norm(t.func.value)[:80], 'lower': lo, 'upper': hi})
            else:
                r.fail(f.key, t, f'the byte-level search runs on {norm(t.func.value)[:70]}: its lower bound is '
                       f"{'rounded up to a byte' if lo == 'ceil' else 'not rounded up to a byte boundary'} and its upper bound is "
                       f"{'rounded down to a byte' if hi == 'floor' else 'not rounded down to a byte boundary'}; a partial last byte is zero-padded by "
                       'tobytes(), so matches can reach past the end of the window (or into the padding)', loc=f.loc(t))
    if n < 3:
        raise AnalysisError(f'only {n} tobytes() calls found in the package (floor 3)')
    return r


# ---------------------------------------------------------------------------------------------- SIB
def _exit_guards(f):
    """Early exits that depend only on parameters: {(test with walrus targets unwrapped, what happens)}."""
    import re as _re
    out = set()
    ps = set(f.params()[1:])
    for s in G.body_wo_doc(f):
        if isinstance(s, ast.If) and G.exits(s.body) and not s.orelse:
            test = G.expand(f, s.test)
            names = {y.id for y in ast.walk(test) if isinstance(y, ast.Name)}
            if names & ps and 'self' not in names:
                last = s.body[-1]
                if isinstance(last, ast.Raise):
                    act = 'raise ' + (ast.unparse(last.exc.func if isinstance(last.exc, ast.Call) else last.exc) if last.exc is not None else '')
                else:
                    act = 'return ' + (ast.unparse(last.value) if getattr(last, 'value', None) is not None else 'None')
                t = _re.sub(r'\((\w+) := [^()]*(\([^()]*\))?[^()]*\)', r'\1', G.canon_text(test))
                out.add((t, act))
    return out


def rule_SIB(ctx):
    """A stream class that re-implements a mutator of its base (instead of calling it) must keep the base's argument
    checks: both versions end in the same internal routine, so a check one of them lacks is a case only that class gets wrong
    (e.g. replace(count=0) replacing everything on one class and nothing on the other)."""
    m = ctx.m
    r = RuleResult('SIB', 'a re-implemented mutator keeps the argument checks of the version it replaces (sibling agreement)')
    n = 0
    for base, sub in (('BitArray', 'BitStream'), ('Bits', 'ConstBitStream'), ('Bits', 'BitArray')):
        for name, fs in sorted(m.classes[sub].methods.items()):
            fb = m.classes[base].methods.get(name)
            if fb is None or name in ('__init__', '__new__'):
                continue
            txt = ast.unparse(fs.node)
            if f'super().{name}(' in txt or f'{base}.{name}(' in txt or f'super({sub}, self).{name}(' in txt:
                continue          # delegates: the base's checks run
            gb, gs = _exit_guards(fb), _exit_guards(fs)
            if not gb and not gs:
                continue
            n += 1
            only_b, only_s = gb - gs, gs - gb
            if only_b or only_s:
                who, g = (sub, sorted(only_b)[0]) if only_b else (base, sorted(only_s)[0])
                f = fs if only_b else fb
                r.fail(f.key, f'{name}: `if {g[0]}: {g[1]}` missing', f"{who}.{name} lacks the check `if {g[0]}: {g[1]}` that its sibling "
                       f"{base if who == sub else sub}.{name} makes before handing over to the same internal routine: for that argument the two "
                       'classes now behave differently', loc=f.loc())
            else:
                r.ok(f'{sub}.{name}', {'instance': f'{base}.{name} / {sub}.{name}', 'checks': sorted(g[0] for g in gb)})
    if n < 3:
        raise AnalysisError(f'only {n} re-implemented mutators with parameter checks found (floor 3)')
    return r


# ---------------------------------------------------------------------------------------------- SGN0
def rule_SGN0(ctx):
    """-0.0 == 0.0 in Python, but they are different bit patterns in every float format the library supports.  A float
    encoder that branches on `f == 0` (or `not f`) to produce a fixed pattern, or a cache keyed by float item values,
    gives -0.0 the encoding of +0.0 (or the other way round, depending on which was seen first)."""
    m = ctx.m
    r = RuleResult('SGN0', 'no float encoder or item cache treats -0.0 and 0.0 as the same value')
    n = 0
    for f in m.funcs.values():
        if f.mod == '__main__' or f.mod == 'luts':
            continue
        # float-valued names: parameters annotated float / converted with float(...)
        fl = set()
        for a in f.node.args.posonlyargs + f.node.args.args:
            if a.annotation is not None and 'float' in ast.unparse(a.annotation):
                fl.add(a.arg)
        for x in own_walk(f.node):
            if isinstance(x, ast.Assign) and len(x.targets) == 1 and isinstance(x.targets[0], ast.Name) and isinstance(x.value, ast.Call) \
                    and isinstance(x.value.func, ast.Name) and x.value.func.id == 'float':
                fl.add(x.targets[0].id)
        if fl and (f.mod == 'bitstore_helpers' or f.name.startswith('_set') or 'float' in f.name):
            for x in own_walk(f.node):
                if not isinstance(x, (ast.If, ast.IfExp)):
                    continue
                n += 1
                t = x.test
                zero = False
                for d in ast.walk(t):
                    if isinstance(d, ast.Compare) and len(d.ops) == 1 and isinstance(d.ops[0], (ast.Eq, ast.NotEq)):
                        a, b = d.left, d.comparators[0]
                        for u, v in ((a, b), (b, a)):
                            if isinstance(u, ast.Name) and u.id in fl and isinstance(v, ast.Constant) and not isinstance(v.value, (str, bool)) and v.value == 0:
                                zero = True
                    if isinstance(d, ast.UnaryOp) and isinstance(d.op, ast.Not) and isinstance(d.operand, ast.Name) and d.operand.id in fl:
                        zero = True
                if isinstance(t, ast.Name) and t.id in fl:
                    zero = True
                if zero and 'copysign' not in ast.unparse(t) and 'copysign' not in ast.unparse(f.node):
                    r.fail(f.key, t, f"{f.name} branches on a float being zero ({norm(t)}): -0.0 takes the same branch as 0.0 and loses (or gains) its sign bit",
                           loc=f.loc(t))
                else:
                    r.ok(f'{f.key}:{norm(t)[:40]}')
    # caches keyed by item values: a local or class-level dict filled with d[k] = <encoding of k> for k taken from an iterable
    for f in m.funcs.values():
        if f.cls != 'Array' and f.mod not in ('bitstore_helpers', 'array_'):
            continue
        loopvars = set()
        for x in own_walk(f.node):
            if isinstance(x, (ast.For, ast.comprehension)) and isinstance(x.target, ast.Name):
                loopvars.add(x.target.id)
        for x in own_walk(f.node):
            subs = [t for t in x.targets if isinstance(t, ast.Subscript) and isinstance(t.slice, ast.Name) and t.slice.id in loopvars] \
                if isinstance(x, ast.Assign) else []
            if subs and isinstance(x.value, (ast.Call, ast.Name)):
                k = subs[0].slice.id
                uses_k = isinstance(x.value, ast.Call) and any(isinstance(y, ast.Name) and y.id == k for y in ast.walk(x.value))
                prior = any(isinstance(y, ast.Assign) and isinstance(y.value, ast.Call) and any(isinstance(z, ast.Name) and z.id == k for z in ast.walk(y.value))
                            and isinstance(x.value, ast.Name) and any(isinstance(t2, ast.Name) and t2.id == x.value.id for t2 in y.targets) for y in own_walk(f.node))
                if uses_k or prior:
                    n += 1
                    r.fail(f.key, x, f"a cache keyed by the item value '{k}' holds what was computed for the first of several equal keys: 0.0 and -0.0 "
                           '(and 1, 1.0, True) are one key but have different encodings', loc=f.loc(x))
    # memoised functions: lru_cache compares arguments with ==, so a parameter that can hold a float makes 0.0 and -0.0 (and
    # 0, False) one cache entry.  Parameters annotated as text / integers / flags / tuples of those are safe; anything that can
    # be a float needs a reviewed reason.
    import re as _re
    n_c = 0
    for f in m.funcs.values():
        if not f.is_cached() or f.mod == '__main__':
            continue
        a = f.node.args
        plist = [(x.arg, x.annotation) for x in a.posonlyargs + a.args + a.kwonlyargs]
        if a.vararg:
            plist.append((a.vararg.arg, a.vararg.annotation))
        if a.kwarg:
            plist.append((a.kwarg.arg, a.kwarg.annotation))
        for i, (pn, ann) in enumerate(plist):
            if i == 0 and f.cls and pn in ('cls', 'self'):
                continue
            n_c += 1
            txt = ast.unparse(ann) if ann is not None else None
            floaty = txt is None or _re.search(r'\b(float|Any|object|ElementType|Number|Real|complex|BitsType)\b', txt) is not None
            if not floaty:
                r.ok(f'{f.key}({pn}: {txt})')
            elif (ctx.rk(f.key), i) in SGN0_CACHE_REASONS:
                r.ok(f'{f.key}({pn})', reason=True, sample={'instance': f.key, 'parameter': pn, 'reason': SGN0_CACHE_REASONS[(ctx.rk(f.key), i)]})
            else:
                r.fail(f.key, f'cached on {pn}: {txt}', f"{f.name} is memoised and its parameter '{pn}' can hold a float: the cache compares keys with ==, so "
                       '0.0 and -0.0 (and 0, False) share one entry and the second of them gets the bits computed for the first', loc=f.loc())
    if n_c < 8:
        raise AnalysisError(f'only {n_c} parameters of memoised functions found (floor 8)')
    # annotations are not enforced: whatever its parameters are called, a memoised function must not be one of the routes that
    # turn a caller's VALUE into bits, nor hand one of its parameters on, untouched, to such a route
    routes = {'dtypes:Dtype.build', 'bitstore_helpers:bitstore_from_token', 'array_:Array._create_element'}
    for k in routes:
        if k not in m.funcs:
            raise AnalysisError(f'anchor vanished: {k}')
    routes |= {g.key for g in m.funcs.values() if g.mod == 'bitstore_helpers' and g.name.endswith('2bitstore') and g.node.args.args
               and g.node.args.args[0].annotation is not None and 'float' in ast.unparse(g.node.args.args[0].annotation)}
    cg = ctx.callgraph()
    for node, edges in cg.items():
        f = m.funcs[node[0]]
        root = f
        while root.parent is not None:
            root = root.parent
        if not root.is_cached():
            continue
        if root.key in routes:
            r.fail(root.key, f'{root.name} is memoised', f'{root.name} turns a value into bits and is memoised: the cache compares values with ==, so 0.0 and '
                   '-0.0 (and 0, False) share one entry and the second of them gets the bits computed for the first', loc=root.loc())
            continue
        ps = set(root.params()) - {'self', 'cls'}
        rebound = {y.id for y in ast.walk(root.node) if isinstance(y, ast.Name) and isinstance(y.ctx, ast.Store)}
        for (callee, cs) in edges:
            if callee[0] in routes and isinstance(cs.node, ast.Call):
                for a_ in list(cs.node.args) + [k.value for k in cs.node.keywords]:
                    if isinstance(a_, ast.Name) and a_.id in ps and a_.id not in rebound:
                        r.fail(root.key, cs.node, f"{root.name} is memoised and hands its parameter '{a_.id}' to {callee[0].split(':')[1]}, which turns a value into "
                               'bits: equal keys (0.0, -0.0, 0, False) share one cache entry although their encodings differ', loc=f.loc(cs.node))
                    else:
                        r.ok(None)
    if n < 5:
        raise AnalysisError(f'only {n} branches in float encoders examined (floor 5)')
    return r


SGN0_CACHE_REASONS = {
    # (function, parameter position)
    ('dtypes:Dtype._new_from_token', 2): 'a scale of zero (either sign) is rejected by _set_scale, and an exception is never cached; other floats have one spelling',
    ('dtypes:Dtype._create', 3): 'a scale of zero (either sign) is rejected by _set_scale, and an exception is never cached; other floats have one spelling',
    ('utils:parse_name_length_token', 1): 'the keyword values are only used as lengths, through int(): 0.0 and -0.0 give the same length',
}


# ---------------------------------------------------------------------------------------------- RND
def rule_RND(ctx):
    """Rounding a float to the nearest integer by adding (or subtracting) 0.5 and truncating rounds TWICE: the sum x + 0.5 is itself
    rounded to a float first, so a value one ulp above a tie (0.5 + 2**-53) becomes exactly the tie, and a tie test made afterwards
    (`f - int(f) == 0`) then "corrects" it the wrong way; 0.49999999999999994 + 0.5 is 1.0.  An encoder that must give the nearest
    (ties-to-even) integer of its input has to ask for that directly (round(), which is exact), not build it from x +- 0.5."""
    m = ctx.m
    r = RuleResult('RND', 'no encoder rounds to nearest by adding 0.5 and truncating (double rounding)')
    n = 0
    for f in m.funcs.values():
        if f.mod in ('__main__', 'luts'):
            continue
        # names shifted by a half
        shifted = {}
        for x in own_walk(f.node):
            if isinstance(x, ast.AugAssign) and isinstance(x.op, (ast.Add, ast.Sub)) and isinstance(x.target, ast.Name) \
                    and isinstance(x.value, ast.Constant) and x.value.value == 0.5 and isinstance(x.value.value, float):
                shifted[x.target.id] = x
            if isinstance(x, ast.Assign) and len(x.targets) == 1 and isinstance(x.targets[0], ast.Name) and isinstance(x.value, ast.BinOp) \
                    and isinstance(x.value.op, (ast.Add, ast.Sub)) and any(isinstance(y, ast.Constant) and isinstance(y.value, float) and y.value == 0.5
                                                                            for y in (x.value.left, x.value.right)):
                shifted[x.targets[0].id] = x
        for x in own_walk(f.node):
            if isinstance(x, ast.Call) and ast.unparse(x.func) in ('int', 'math.floor', 'math.trunc', 'math.ceil') and len(x.args) == 1:
                n += 1
                a = x.args[0]
                direct = isinstance(a, ast.BinOp) and isinstance(a.op, (ast.Add, ast.Sub)) and any(
                    isinstance(y, ast.Constant) and isinstance(y.value, float) and y.value == 0.5 for y in (a.left, a.right))
                via = isinstance(a, ast.Name) and a.id in shifted and shifted[a.id].lineno < x.lineno
                if direct or via:
                    r.fail(f.key, x, f"{f.name} rounds by shifting its value by 0.5 and truncating ({norm(shifted[a.id]) if via else norm(a)}; {norm(x)}): the "
                           'shifted value is itself rounded to a float, so an input one ulp above a tie is taken for the tie and rounded the wrong way '
                           '(64x = 0.5 + 2**-53 encodes as 0 instead of 1)', loc=f.loc(x))
                else:
                    r.ok(None)
    if n < 10:
        raise AnalysisError(f'only {n} float-to-integer conversions found (floor 10)')
    return r


# ---------------------------------------------------------------------------------------------- PAD
RAW_BUFFER_CONSUMERS = {'memoryview', 'bytes', 'bytearray', 'hash', 'zlib.crc32', 'zlib.adler32', 'binascii.hexlify', 'binascii.crc32',
                        'int.from_bytes', 'struct.unpack_from', 'struct.unpack', 'hashlib.md5', 'hashlib.sha1', 'hashlib.sha256', 'array.array',
                        'numpy.frombuffer', 'np.frombuffer', 'io.BytesIO'}


def rule_PAD(ctx):
    """A bitarray whose length is not a multiple of 8 has 1-7 pad bits in its last byte, and their value is unspecified after
    slicing, deletion, inversion or a shift.  bitarray's own tobytes()/tofile() zero them; the buffer protocol does not.  So
    the content of a store may be read through the bitarray API only - never through a raw view of the buffer
    (memoryview(x._bitarray), bytes(x._bitarray), a hash or checksum of the object ...), where two equal bitstrings differ."""
    m = ctx.m
    r = RuleResult('PAD', 'store content is never read through a raw view of the bitarray buffer (pad bits are unspecified)')
    n = 0
    for f in m.funcs.values():
        if f.mod == '__main__':
            continue
        # locals that hold a store's bitarray
        holders = {ast.unparse(t) for x in own_walk(f.node) if isinstance(x, ast.Assign) and isinstance(x.value, ast.Attribute) and x.value.attr == '_bitarray'
                   for t in x.targets if isinstance(t, ast.Name)}

        def is_ba(e):
            return (isinstance(e, ast.Attribute) and e.attr == '_bitarray') or (isinstance(e, ast.Name) and e.id in holders)
        for x in own_walk(f.node):
            if isinstance(x, ast.Attribute) and x.attr == '_bitarray' and isinstance(x.ctx, ast.Load):
                n += 1
            if isinstance(x, ast.Call):
                name = ast.unparse(x.func)
                if (name in RAW_BUFFER_CONSUMERS or name.split('.')[-1] in ('frombuffer',)) and any(is_ba(a) for a in x.args):
                    r.fail(f.key, x, f"{name}(...) reads the raw buffer of a store's bitarray: the last byte carries up to 7 pad bits whose value is "
                           'unspecified after slicing, deletion, inversion and shifts, so equal bitstrings give different bytes (use tobytes(), which '
                           'zeroes them)', loc=f.loc(x))
                if isinstance(x.func, ast.Attribute) and x.func.attr in ('buffer_info', '__buffer__', 'tolist_raw') and is_ba(x.func.value):
                    r.fail(f.key, x, "buffer_info() exposes the address of the raw buffer of a store's bitarray (pad bits included)", loc=f.loc(x))
    if n < 40:
        raise AnalysisError(f'only {n} reads of _bitarray found (floor 40)')
    r.ok('raw views', {'instance': 'package', 'bitarray_reads_examined': n})
    return r


# ---------------------------------------------------------------------------------------------- IDEM
def rule_IDEM(ctx):
    """`x & x` and `x | x` are x, so a `bs is self` shortcut is right for them; `x ^ x` is all zeros, so the same shortcut in an
    exclusive-or (as happens when the three operators are merged into one helper) returns the wrong value for a ^= a."""
    m = ctx.m
    r = RuleResult('IDEM', 'the operand-is-self shortcut exists only where the operator is idempotent (and / or), never for xor')
    n = 0
    for c in FAMILY:
        for name in ('__xor__', '__ixor__', '__rxor__', '__and__', '__iand__', '__or__', '__ior__'):
            for f in m.winner(c, name):
                n += 1
                ident = [x for x in own_walk(f.node) if isinstance(x, (ast.If, ast.IfExp)) and any(
                    isinstance(d, ast.Compare) and len(d.ops) == 1 and isinstance(d.ops[0], (ast.Is, ast.IsNot)) and
                    {ast.unparse(d.left), ast.unparse(d.comparators[0])} >= {'self'} for d in ast.walk(x.test))]
                if 'xor' in name and ident:
                    # harmless only if the shortcut produces zeros; a plain `return self` / copy is not that
                    bad = None
                    for x in ident:
                        pt, pb, _pe = G.pos_if(x)
                        rets = [y for b in (pb if isinstance(pb, list) else [ast.Expr(value=pb)]) for y in ast.walk(b) if isinstance(y, (ast.Return, ast.Expr))]
                        for y in rets:
                            v = y.value
                            if v is not None and ast.unparse(v) in ('self', 'self.__copy__()', 'self.copy()', 'self._copy()'):
                                bad = x
                    if bad is not None:
                        r.fail(f.key, bad.test, f"{c}.{name} returns the operand unchanged when it is given the object itself: x ^ x must be all zeros "
                               '(only & and | are idempotent)', loc=f.loc(bad), extra={'ctx': c})
                        continue
                r.ok(f'{c}.{name}')
    if n < 12:
        raise AnalysisError(f'only {n} bit-wise operator implementations found (floor 12)')
    return r

"""H5: the 8/6/4-bit float codecs.  Their behaviour is data (zlib-compressed tables in luts.py) plus a
few lines of selection code; both halves are decided here.

H5a/H5b fold ``zlib.decompress`` / ``struct.unpack`` over the bytes literals of luts.py and compare
every entry with an exact integer model written from the format definitions (independent of gfloat,
which generated the tables).  H5c checks that the code selects and indexes the right table.
"""
from __future__ import annotations

import ast
import bisect
import math
import struct
import zlib
from fractions import Fraction

from ..core import own_walk
from ..model import AnalysisError
from ..report import RuleResult, norm
from . import guards as G
from .tables import fold

SCALE = 24          # every float16 value and every format value is an integer multiple of 2**-24


def f16_mag(h15):
    """(kind, scaled magnitude) of the float16 with the 15 low bits h15."""
    e, m = (h15 >> 10) & 31, h15 & 1023
    if e == 31:
        return ('nan', 0) if m else ('inf', 0)
    if e == 0:
        return 'fin', m << (SCALE - 24)                 # m * 2^-24
    return 'fin', (1024 + m) << (SCALE - 24 + e - 1)    # (1024+m) * 2^(e-25)


def fmt_kind(exp_bits, mant_bits, family):
    if family == 'binary8':
        return 'p3109'
    if (exp_bits, mant_bits) == (5, 2):
        return 'e5m2'
    if (exp_bits, mant_bits) == (4, 3):
        return 'e4m3'
    return 'small'


def fmt_codes(kind, ebits, mbits, bias):
    """code -> ('fin', sign, scaled magnitude) | ('inf', sign) | ('nan',)"""
    n = 1 + ebits + mbits
    out = {}
    for c in range(1 << n):
        s = c >> (n - 1)
        e = (c >> mbits) & ((1 << ebits) - 1)
        m = c & ((1 << mbits) - 1)
        if e == 0:
            # m / 2^mbits * 2^(1-bias)
            sh = SCALE - mbits + 1 - bias
            num = m
        else:
            sh = SCALE - mbits + e - bias
            num = (1 << mbits) + m
        if sh < 0:
            if num % (1 << -sh):
                raise AnalysisError(f'format value below model resolution 2^-{SCALE}')
            v = num >> -sh
        else:
            v = num << sh
        out[c] = ('fin', s, v)
    if kind == 'p3109':
        out[0x80] = ('nan',)
        out[0x7f] = ('inf', 0)
        out[0xff] = ('inf', 1)
    elif kind == 'e5m2':
        out[0x7c] = ('inf', 0)
        out[0xfc] = ('inf', 1)
        for c in (0x7d, 0x7e, 0x7f, 0xfd, 0xfe, 0xff):
            out[c] = ('nan',)
    elif kind == 'e4m3':
        out[0x7f] = ('nan',)
        out[0xff] = ('nan',)
    return out


class Encoder:
    def __init__(self, kind, codes, nbits, mode):
        self.kind, self.nbits, self.mode = kind, nbits, mode
        self.half = 1 << (nbits - 1)
        pos = sorted((spec[2], c) for c, spec in codes.items() if spec[0] == 'fin' and spec[1] == 0)
        self.vals = [v for v, _ in pos]
        self.cs = [c for _, c in pos]
        self.maxv, self.maxc = pos[-1]
        self.ulp = pos[-1][0] - pos[-2][0]

    def over(self, s):
        k = self.kind
        if k == 'p3109':
            return 0xff if s else 0x7f
        sat = (self.half | self.maxc) if s else self.maxc
        if k == 'e5m2':
            return sat if self.mode == 'saturate' else (0xfc if s else 0x7c)
        if k == 'e4m3':
            return sat if self.mode == 'saturate' else 0xff
        return sat

    def nan(self):
        return 0x80 if self.kind == 'p3109' else 0xff

    def encode(self, h):
        s = h >> 15
        kind, x = f16_mag(h & 0x7fff)
        if kind == 'nan':
            return self.nan()
        if kind == 'inf':
            return self.over(s)
        if x > self.maxv:
            nxt = self.maxv + self.ulp
            d1, d2 = x - self.maxv, nxt - x
            if d1 < d2 or (d1 == d2 and self.maxc % 2 == 0):
                mag = self.maxc
            else:
                return self.over(s)
        else:
            i = bisect.bisect_left(self.vals, x)
            if self.vals[i] == x:
                mag = self.cs[i]
            else:
                lo, hi = self.vals[i - 1], self.vals[i]
                d1, d2 = x - lo, hi - x
                if d1 < d2:
                    mag = self.cs[i - 1]
                elif d2 < d1:
                    mag = self.cs[i]
                else:
                    mag = self.cs[i - 1] if self.cs[i - 1] % 2 == 0 else self.cs[i]
        if s:
            if self.kind == 'p3109' and mag == 0:
                return 0
            return self.half | mag
        return mag


def lut_literals(m):
    out = {}
    for name in ('mxfp_luts_compressed', 'binary8_luts_compressed'):
        v = m.modglobals['luts'].get(name)
        if not isinstance(v, ast.Dict):
            raise AnalysisError(f'anchor vanished: luts.{name} dict literal')
        try:
            out[name] = ast.literal_eval(v)
        except Exception:
            raise AnalysisError(f'luts.{name} is not a literal')
    return out


def format_specs(m):
    """(table name, key, label, kind, ebits, mbits, bias, mode, nbits, dec literal, enc literal)"""
    lits = lut_literals(m)
    specs = []
    for key, pair in lits['mxfp_luts_compressed'].items():
        if not (isinstance(key, tuple) and len(key) == 4 and isinstance(pair, tuple) and len(pair) == 2):
            raise AnalysisError(f'luts.mxfp_luts_compressed entry {key!r} has an unexpected shape')
        e, mb, bias, mode = key
        specs.append(('mxfp_luts_compressed', key, f'e{e}m{mb}mxfp/{mode}', fmt_kind(e, mb, 'mxfp'), e, mb, bias, mode,
                      1 + e + mb, pair[0], pair[1]))
    for key, pair in lits['binary8_luts_compressed'].items():
        if not (isinstance(key, tuple) and len(key) == 2 and isinstance(pair, tuple) and len(pair) == 2):
            raise AnalysisError(f'luts.binary8_luts_compressed entry {key!r} has an unexpected shape')
        e, bias = key
        specs.append(('binary8_luts_compressed', key, f'p{8 - e}binary8', 'p3109', e, 7 - e, bias, None, 8, pair[0], pair[1]))
    return specs


def _tables(spec):
    try:
        dec = zlib.decompress(spec[9])
        enc = zlib.decompress(spec[10])
    except zlib.error as e:
        raise AnalysisError(f'{spec[2]}: table literal does not decompress: {e}')
    return dec, enc


def rule_H5a(ctx):
    """Every code decodes to the value its format defines."""
    m = ctx.m
    r = RuleResult('H5a', 'code -> float tables equal the exact format model (all entries)')
    specs = format_specs(m)
    if len(specs) < 9:
        raise AnalysisError(f'only {len(specs)} LUT pairs found (expected 9)')
    decs = {}
    for sp in specs:
        tab, key, label, kind, e, mb, bias, mode, n, _, _ = sp
        dec, _enc = _tables(sp)
        if len(dec) != 4 * (1 << n):
            r.fail(f'luts:{tab}', f'{key!r} decode table length {len(dec)}', f'expected {4 << n} bytes (float32 x {1 << n})',
                   loc='bitstring/luts.py')
            continue
        vals = struct.unpack(f'<{1 << n}f', dec)
        decs[(e, mb, bias, mode)] = dec
        codes = fmt_codes(kind, e, mb, bias)
        for c, spec in codes.items():
            got = vals[c]
            if spec[0] == 'nan':
                ok = math.isnan(got)
                want = 'nan'
            elif spec[0] == 'inf':
                ok = got == (-math.inf if spec[1] else math.inf)
                want = '-inf' if spec[1] else 'inf'
            else:
                mag = Fraction(spec[2], 1 << SCALE)
                want = -mag if spec[1] else mag
                ok = (not math.isnan(got)) and (not math.isinf(got)) and Fraction(got) == want and \
                     (math.copysign(1.0, got) < 0) == bool(spec[1])
            if not ok:
                r.fail(f'luts:{tab}', f'{key!r} decode[{c:#04x}]', f'{label}: code {c:#04x} decodes to {got!r}, the format defines {want}',
                       loc='bitstring/luts.py')
            else:
                r.ok(None)
        r.constructs.add(f'decode {label}')
        r.samples.append({'instance': f'decode table {label}', 'entries': 1 << n, 'verdict': 'all equal to model'}) if len(r.samples) < 9 else None
    # getters always use the saturate object: the saturate and overflow decode tables must agree
    for (e, mb, bias, mode), d in decs.items():
        if mode == 'overflow':
            other = decs.get((e, mb, bias, 'saturate'))
            if other is not None and other != d:
                r.fail('luts:mxfp_luts_compressed', f'({e}, {mb}, {bias}) decode saturate vs overflow',
                       'the two decode tables differ, but the getters always read the saturate one', loc='bitstring/luts.py')
            else:
                r.ok(f'decode pair {e}{mb}')
    return r


def rule_H5b(ctx):
    """Every float16 pattern encodes to the nearest code, ties to even, overflow/inf/NaN per format and mode."""
    m = ctx.m
    r = RuleResult('H5b', 'float16 -> code tables equal the exact rounding model (all 65536 entries each)')
    for sp in format_specs(m):
        tab, key, label, kind, e, mb, bias, mode, n, _, _ = sp
        _dec, enc = _tables(sp)
        if len(enc) != 65536:
            r.fail(f'luts:{tab}', f'{key!r} encode table length {len(enc)}', 'expected 65536 entries', loc='bitstring/luts.py')
            continue
        E = Encoder(kind, fmt_codes(kind, e, mb, bias), n, mode)
        bad = 0
        for h in range(65536):
            want = E.encode(h)
            if enc[h] != want:
                bad += 1
                if bad <= 3:
                    hv = struct.unpack('>e', struct.pack('>H', h))[0]
                    r.fail(f'luts:{tab}', f'{key!r} encode[{h:#06x}]',
                           f'{label}: float16 {h:#06x} ({hv!r}) maps to code {enc[h]:#04x}, the rounding model gives {want:#04x}',
                           loc='bitstring/luts.py')
        r.instances += 65536 - min(bad, 3)
        r.constructs.add(f'encode {label}')
        if len(r.samples) < 9:
            r.samples.append({'instance': f'encode table {label}', 'entries': 65536, 'mismatches': bad,
                              'model': 'nearest magnitude, ties to even code, > max+ulp/2 -> overflow code'})
    return r


# ---------------------------------------------------------------------------------------------- H5c
class MiniInterp:
    """Evaluates an __init__ body applied to literal arguments (assignments, if/else, simple arithmetic)."""

    def __init__(self, func, args):
        self.func = func
        self.env = dict(args)
        self.obj = {}

    def run(self):
        self.block(self.func.node.body)
        return self.obj

    def block(self, stmts):
        for s in stmts:
            if isinstance(s, ast.Expr) and isinstance(s.value, ast.Constant):
                continue
            if isinstance(s, ast.Assign):
                v = self.ev(s.value)
                for t in s.targets:
                    if isinstance(t, ast.Attribute) and isinstance(t.value, ast.Name) and t.value.id == 'self':
                        self.obj[t.attr] = v
                    elif isinstance(t, ast.Name):
                        self.env[t.id] = v
                    else:
                        raise AnalysisError(f'{self.func.key}: unsupported assignment target {ast.unparse(t)}')
            elif isinstance(s, ast.If):
                self.block(s.body if self.ev(s.test) else s.orelse)
            elif isinstance(s, ast.Pass):
                pass
            else:
                raise AnalysisError(f'{self.func.key}: constructor statement not supported by the partial evaluator: {ast.unparse(s)[:60]}')

    def ev(self, e):
        if isinstance(e, ast.Constant):
            return e.value
        if isinstance(e, ast.Name):
            if e.id in self.env:
                return self.env[e.id]
            raise AnalysisError(f'{self.func.key}: unbound name {e.id}')
        if isinstance(e, ast.Attribute) and isinstance(e.value, ast.Name) and e.value.id == 'self':
            if e.attr in self.obj:
                return self.obj[e.attr]
            raise AnalysisError(f'{self.func.key}: self.{e.attr} read before assignment')
        if isinstance(e, ast.BinOp):
            a, b = self.ev(e.left), self.ev(e.right)
            ops = {ast.Add: lambda: a + b, ast.Sub: lambda: a - b, ast.LShift: lambda: a << b, ast.Mult: lambda: a * b,
                   ast.BitOr: lambda: a | b}
            if type(e.op) in ops:
                return ops[type(e.op)]()
        if isinstance(e, ast.Compare) and len(e.ops) == 1:
            a, b = self.ev(e.left), self.ev(e.comparators[0])
            if isinstance(e.ops[0], ast.Eq):
                return a == b
            if isinstance(e.ops[0], ast.NotEq):
                return a != b
        if isinstance(e, ast.BoolOp):
            vals = [self.ev(v) for v in e.values]
            return all(vals) if isinstance(e.op, ast.And) else any(vals)
        if isinstance(e, ast.UnaryOp) and isinstance(e.op, ast.Not):
            return not self.ev(e.operand)
        if isinstance(e, ast.UnaryOp) and isinstance(e.op, ast.USub):
            return -self.ev(e.operand)
        if isinstance(e, ast.IfExp):
            return self.ev(e.body) if self.ev(e.test) else self.ev(e.orelse)
        if isinstance(e, ast.Tuple):
            return tuple(self.ev(x) for x in e.elts)
        raise AnalysisError(f'{self.func.key}: expression not supported by the partial evaluator: {ast.unparse(e)[:60]}')


def format_objects(m):
    """Module-level ``name = MXFPFormat(...)`` / ``Binary8Format(...)`` objects, partially evaluated."""
    out = {}
    for mod, cname in (('mxfp', 'MXFPFormat'), ('fp8', 'Binary8Format')):
        ci = m.classes.get(cname)
        if ci is None or '__init__' not in ci.methods:
            raise AnalysisError(f'anchor vanished: {cname}.__init__')
        init = ci.methods['__init__']
        params = init.params()[1:]
        for name, v in m.modglobals[mod].items():
            if isinstance(v, ast.Call) and ast.unparse(v.func) == cname:
                args = {}
                for i, a in enumerate(v.args):
                    args[params[i]] = fold(a)
                for kw in v.keywords:
                    args[kw.arg] = fold(kw.value)
                try:
                    obj = MiniInterp(init, args).run()
                except AnalysisError:
                    # a constructor written with tables / tuple assignments: the general partial evaluator
                    from .peval import PEval, Unsupported, is_const
                    try:
                        pe = PEval(m, init, dict(args)).run()
                    except Unsupported as e:
                        raise AnalysisError(f'{init.key}: {e}')
                    if len(pe.final_envs) != 1:
                        raise AnalysisError(f'{init.key}: the constructor does not evaluate to one state for {name} (needs a human)')
                    obj = {k[5:]: v for k, v in pe.final_envs[0].items() if k.startswith('self.') and is_const(v)}
                obj['__class__'] = cname
                obj['__node__'] = v
                obj['__mod__'] = mod
                out[name] = obj
    return out


def _lut_key(m, cname, obj):
    f = m.classes[cname].methods.get('decompress_luts')
    if f is None:
        raise AnalysisError(f'anchor vanished: {cname}.decompress_luts')
    for n in own_walk(f.node):
        if isinstance(n, ast.Subscript) and isinstance(n.value, ast.Name) and n.value.id.endswith('_luts_compressed'):
            mi = MiniInterp(f, {})
            mi.obj = dict(obj)
            return n.value.id, mi.ev(n.slice), f, n
    raise AnalysisError(f'{cname}.decompress_luts: table subscript not recognised')


def rule_H5c(ctx):
    """The code selects and indexes the right table (structural)."""
    m = ctx.m
    r = RuleResult('H5c', 'format objects, clamp constants, table selection and bit widths are consistent')
    objs = format_objects(m)
    if len(objs) < 9:
        raise AnalysisError(f'only {len(objs)} format objects found (expected 9)')
    lits = lut_literals(m)
    enc_tables = {}
    for name, obj in sorted(objs.items()):
        cname = obj['__class__']
        tab, key, f, node = _lut_key(m, cname, obj)
        if key not in lits.get(tab, {}):
            r.fail(f'{obj["__mod__"]}:{name}', obj['__node__'], f'no table for key {key!r} in luts.{tab}: decompress_luts would raise KeyError at import',
                   loc=f'bitstring/{obj["__mod__"]}.py:{obj["__node__"].lineno}')
            continue
        r.ok(f'{name} key', {'instance': f'{name} = {cname}(...)', 'lut_key': repr(key)})
        enc = zlib.decompress(lits[tab][key][1])
        enc_tables[name] = enc
        # clamp constants returned when struct.pack('>e') overflows = codes of +-inf
        for attr, h in (('pos_clamp_value', 0x7c00), ('neg_clamp_value', 0xfc00)):
            if obj.get(attr) != enc[h]:
                r.fail(f'{obj["__mod__"]}:{cname}.__init__', f'{name}.{attr} = {obj.get(attr):#04x}',
                       f'a float too large for half precision is clamped to {obj.get(attr):#04x}, but the table maps the '
                       f'half-precision overflow value ({"+" if h == 0x7c00 else "-"}inf) to {enc[h]:#04x}',
                       loc=f'bitstring/{obj["__mod__"]}.py')
            else:
                r.ok(f'{name}.{attr}', {'instance': f'{name}.{attr}', 'value': hex(enc[h]), 'oracle': f'encode table[{h:#06x}]'})
    # decompress_luts: element 0 -> decode attribute via '<f' unpack, element 1 -> encode attribute
    for cname in ('MXFPFormat', 'Binary8Format'):
        f = m.classes[cname].methods['decompress_luts']
        _check_decompress(r, f)
    # float_to_int / float_to_int8
    for cname, fname in (('MXFPFormat', 'float_to_int'), ('Binary8Format', 'float_to_int8')):
        f = m.classes[cname].methods.get(fname)
        if f is None:
            raise AnalysisError(f'anchor vanished: {cname}.{fname}')
        _check_float_to_int(r, f, m)
    _check_setters_getters(ctx, r, objs)
    _check_e8m0_mxint_bfloat_scale(ctx, r)
    return r


def _check_decompress(r, f):
    src = {}      # local name -> tuple element index
    attrs = {}
    for n in own_walk(f.node):
        if isinstance(n, ast.Assign) and isinstance(n.targets[0], ast.Tuple) and isinstance(n.value, ast.Subscript):
            for i, e in enumerate(n.targets[0].elts):
                src[e.id] = i
    derived = dict(src)
    for n in sorted([x for x in own_walk(f.node) if isinstance(x, ast.Assign)], key=lambda x: x.lineno):
        tgt = n.targets[0]
        used = [x.id for x in ast.walk(n.value) if isinstance(x, ast.Name) and x.id in derived]
        if not used:
            continue
        idx = derived[used[0]]
        if isinstance(tgt, ast.Name):
            derived[tgt.id] = idx
        elif isinstance(tgt, ast.Attribute):
            attrs[tgt.attr] = (idx, n)
    for attr, (idx, n) in attrs.items():
        want = 1 if 'float16_to' in attr else 0
        if idx != want:
            r.fail(f.key, n, f'self.{attr} is filled from element {idx} of the table pair; the generator stores '
                   '(code->float, float16->code)', loc=f.loc(n))
        else:
            r.ok(n)
        if want == 0:
            fm = [x for x in ast.walk(n.value) if isinstance(x, ast.JoinedStr)]
            txt = ast.unparse(n.value)
            if 'struct.unpack' not in txt or not fm or "'<" not in txt and 'f"<' not in txt and "f'<" not in txt:
                raise AnalysisError(f'{f.key}: decode table unpack form not recognised (needs a human)')
    if len(attrs) < 2:
        raise AnalysisError(f'{f.key}: table attribute assignments not recognised')


def _check_float_to_int(r, f, m=None):
    # struct formats compiled once at module level: NAME = struct.Struct('<fmt>')
    compiled = {}
    if m is not None:
        for nm, v in m.modglobals.get(f.mod, {}).items():
            if isinstance(v, ast.Call) and ast.unparse(v.func) == 'struct.Struct' and v.args and isinstance(v.args[0], ast.Constant):
                compiled[nm] = v.args[0].value
    packs = [n for n in own_walk(f.node) if isinstance(n, ast.Call) and (ast.unparse(n.func) == 'struct.pack' or (
        isinstance(n.func, ast.Attribute) and n.func.attr == 'pack' and isinstance(n.func.value, ast.Name) and n.func.value.id in compiled))]
    fromb = [n for n in own_walk(f.node) if isinstance(n, ast.Call) and (ast.unparse(n.func) == 'int.from_bytes' or (
        isinstance(n.func, ast.Attribute) and n.func.attr == 'unpack' and isinstance(n.func.value, ast.Name) and n.func.value.id in compiled))]
    if len(packs) != 1 or len(fromb) != 1:
        raise AnalysisError(f'{f.key}: half-precision conversion form not recognised (needs a human)')
    fmt = fold(packs[0].args[0]) if ast.unparse(packs[0].func) == 'struct.pack' else compiled[packs[0].func.value.id]
    bo = None
    if ast.unparse(fromb[0].func) != 'int.from_bytes':
        ufmt = compiled[fromb[0].func.value.id]
        bo = {'>': 'big', '<': 'little', '!': 'big'}.get(ufmt[0]) if ufmt[1:] == 'H' else None
    for kw in fromb[0].keywords:
        if kw.arg == 'byteorder':
            bo = fold(kw.value)
    if bo is None and len(fromb[0].args) > 1 and ast.unparse(fromb[0].func) == 'int.from_bytes':
        bo = fold(fromb[0].args[1])
    order = {'>': 'big', '<': 'little', '!': 'big'}.get(fmt[0])
    if fmt[1:] != 'e' or order is None or order != bo:
        r.fail(f.key, f"struct.pack('{fmt}') / int.from_bytes(byteorder='{bo}')",
               'the half-precision bytes and the integer built from them use different byte orders (or not the e format): '
               'the table is indexed by the wrong pattern', loc=f.loc(packs[0]))
    else:
        r.ok(packs[0], {'instance': f.key, 'pack': fmt, 'from_bytes': bo})
    # handler
    tries = [n for n in own_walk(f.node) if isinstance(n, ast.Try) and any(p is packs[0] for b in n.body for p in ast.walk(b))]
    if not tries:
        r.fail(f.key, packs[0], 'struct.pack is not guarded: a float too large for half precision escapes as OverflowError',
               loc=f.loc(packs[0]), extra={'props': ['C11', 'C20']})
        return
    h = tries[0].handlers
    names = set()
    for hd in h:
        if hd.type is None:
            names.add('*')
        else:
            for x in ast.walk(hd.type):
                if isinstance(x, ast.Name):
                    names.add(x.id)
                elif isinstance(x, ast.Attribute):
                    names.add(x.attr)
    if not names & {'OverflowError', 'ArithmeticError', 'Exception', '*'}:
        r.fail(f.key, f"except {sorted(names)}", 'struct.pack raises OverflowError for |f| >= 65520; the handler does not cover it',
               loc=f.loc(tries[0]), extra={'props': ['C11', 'C20']})
    else:
        r.ok(f'{f.key} handler')
    good = False
    for hd in h:
        cv = G.cond_values(hd.body) or []
        pos = [t for t, v in cv if ast.unparse(v) == 'self.pos_clamp_value']
        neg = [t for t, v in cv if ast.unparse(v) == 'self.neg_clamp_value']

        def is_pos_test(t):
            return isinstance(t, ast.Compare) and len(t.ops) == 1 and isinstance(t.ops[0], (ast.Gt, ast.GtE)) and ast.unparse(t.left) == 'f' \
                and fold(t.comparators[0]) == 0
        if len(pos) == 1 and len(neg) == 1 and is_pos_test(pos[0]) and isinstance(neg[0], tuple) and neg[0][0] == 'not' and is_pos_test(neg[0][1]):
            good = True
    if not good:
        raise AnalysisError(f'{f.key}: overflow handler result not recognised (needs a human)')
    r.ok(f'{f.key} clamp selection')
    # index into the encode table
    subs = [n for n in own_walk(f.node) if isinstance(n, ast.Subscript) and isinstance(n.value, ast.Attribute)
            and 'float16_to' in n.value.attr]
    if not subs:
        raise AnalysisError(f'{f.key}: table lookup not recognised')
    r.ok(subs[0])


def _fmt_names_in(node, objs):
    # (a format object may be written module.NAME when code was moved between modules)
    out = []
    for x in ast.walk(node):
        if isinstance(x, ast.Name) and x.id in objs:
            out.append(x.id)
        elif isinstance(x, ast.Attribute) and x.attr in objs and isinstance(x.value, (ast.Name, ast.Attribute)):
            out.append(x.attr)
    return out


def _check_setters_getters(ctx, r, objs):
    m = ctx.m
    helpers = m.modfuncs['bitstore_helpers']
    for e in m.registry:
        sf = m.func_by_dotted(e['set_fn']) if e['set_fn'] else None
        gf = m.func_by_dotted(e['get_fn']) if e['get_fn'] else None
        if sf is None or gf is None:
            continue
        gfm = _fmt_names_in(gf.node, objs)
        if not gfm:
            continue
        # setter -> helper
        hs = [n for n in own_walk(sf.node) if isinstance(n, ast.Call) and isinstance(n.func, ast.Attribute)
              and n.func.attr in helpers]

        def encodes(fn):
            return any(isinstance(x, ast.Attribute) and x.attr.startswith('float_to_int') for x in own_walk(fn.node))
        # the routine that asks the format object for the code: the helper the setter calls, or the setter itself when the helper
        # has been folded into it
        routines = [g for g in [sf] + [helpers[c.func.attr] for c in hs] if encodes(g)]
        if len(routines) != 1:
            raise AnalysisError(f'{sf.key}: encoder helper call not recognised')
        h = routines[0]
        hfm = list(dict.fromkeys(_fmt_names_in(h.node, objs)))        # each format object once, in order of first use
        gobj = objs[gfm[0]]
        family_objs = [nm for nm, o in objs.items() if (o.get('exp_bits'), o.get('mantissa_bits'), o.get('bias'), o['__class__']) ==
                       (gobj.get('exp_bits'), gobj.get('mantissa_bits'), gobj.get('bias'), gobj['__class__'])]
        called = set()
        for x in own_walk(h.node):
            # FMT.float_to_int(f), or the bound method taken as a value (`encoder = A.float_to_int if ... else B.float_to_int`)
            if isinstance(x, ast.Attribute) and x.attr.startswith('float_to_int') and isinstance(x.value, (ast.Name, ast.Attribute)):
                x = ast.Call(func=x, args=[], keywords=[])
            else:
                continue
            if isinstance(x, ast.Call) and isinstance(x.func, ast.Attribute) and x.func.attr.startswith('float_to_int') and isinstance(x.func.value, (ast.Name, ast.Attribute)):
                rcv = x.func.value.id if isinstance(x.func.value, ast.Name) else x.func.value.attr
                if rcv in objs:
                    called.add(rcv)
                else:
                    # a local chosen among the format objects (`fmt = A if ... else B`)
                    for y in own_walk(h.node):
                        if isinstance(y, ast.Assign) and len(y.targets) == 1 and isinstance(y.targets[0], ast.Name) and y.targets[0].id == rcv:
                            called |= set(_fmt_names_in(y.value, objs))
        unused = [nm for nm in family_objs if nm not in called]
        if unused:
            r.fail(h.key, f"{e['name']}: {', '.join(unused)} never consulted", f"'{e['name']}' has a table per overflow mode ({', '.join(sorted(family_objs))}) but the "
                   f"encoder never uses {', '.join(unused)}: values that round differently in that mode are encoded with the other mode's table", loc=h.loc())
        shape = lambda o: (o.get('exp_bits'), o.get('mantissa_bits'), o.get('bias'), o['__class__'])
        for nm in hfm:
            if shape(objs[nm]) != shape(gobj):
                r.fail(h.key, f'{nm} vs {gfm[0]}', f"'{e['name']}': encoder uses format {nm} {shape(objs[nm])[:3]} but the decoder reads "
                       f'{gfm[0]} {shape(gobj)[:3]}', loc=h.loc())
            else:
                r.ok(f"{e['name']} {nm}")
        width = 1 + gobj['exp_bits'] + (gobj.get('mantissa_bits') if 'mantissa_bits' in gobj else 7 - gobj['exp_bits'])
        i2b = [n for n in own_walk(h.node) if isinstance(n, ast.Call) and ast.unparse(n.func).split('.')[-1] == 'int2bitstore']
        if not i2b:
            raise AnalysisError(f'{h.key}: int2bitstore call not recognised')
        class _FmtAttrs(ast.NodeTransformer):
            # `1 + FMT.exp_bits + FMT.mantissa_bits`: the constructor arguments of the module-level format object
            def visit_Attribute(self, n):
                nm = n.value.id if isinstance(n.value, ast.Name) else n.value.attr if isinstance(n.value, ast.Attribute) else None
                if nm in objs and isinstance(objs[nm].get(n.attr), (int, bool, str)):
                    return ast.copy_location(ast.Constant(value=objs[nm][n.attr]), n)
                return self.generic_visit(n)
        import copy as _copy
        for c in i2b:
            n_bits, signed = fold(_FmtAttrs().visit(_copy.deepcopy(c.args[1]))), fold(c.args[2])
            if n_bits != width or signed is not False or tuple(e['allowed_lengths']) != (width,):
                r.fail(h.key, c, f"'{e['name']}': code width is {width} bits (1+exp+mantissa); encoder writes {n_bits} bits "
                       f"signed={signed}; registry allows {e['allowed_lengths']}", loc=h.loc(c))
            else:
                r.ok(c, {'instance': f"{e['name']} width", 'bits': width})
        # getter indexes the decode table of its format by the unsigned value
        subs = [n for n in own_walk(gf.node) if isinstance(n, ast.Subscript) and isinstance(n.value, ast.Attribute)
                and 'to_float' in n.value.attr]
        uget = [n for n in own_walk(gf.node) if isinstance(n, ast.Call) and ast.unparse(n.func) == 'self._getuint']
        if not subs or not uget:
            raise AnalysisError(f'{gf.key}: decode lookup not recognised')
        r.ok(subs[0])
        # overflow-mode selection
        modes = {objs[nm].get('mxfp_overflow') for nm in hfm}
        if len(hfm) > 1 and not unused:
            test_al = G.simple_aliases(h, with_tests=True)
            sel = [n for n in own_walk(h.node) if isinstance(n, (ast.If, ast.IfExp)) and 'mxfp_overflow' in ast.unparse(G.expand(h, n.test, test_al))]
            if len(sel) != 1:
                raise AnalysisError(f'{h.key}: overflow-mode selection not recognised')
            t, sel_body, sel_else = G.pos_if(sel[0])
            t = G.expand(h, t, test_al)
            if isinstance(sel[0], ast.IfExp):
                sel_body, sel_else = [ast.Expr(value=sel_body)], [ast.Expr(value=sel_else)]
            if not (isinstance(t, ast.Compare) and isinstance(t.ops[0], ast.Eq) and isinstance(t.comparators[0], ast.Constant)):
                raise AnalysisError(f'{h.key}: overflow-mode test not recognised')
            val = t.comparators[0].value
            body_objs = _fmt_names_in(ast.Module(body=sel_body, type_ignores=[]), objs)
            else_objs = _fmt_names_in(ast.Module(body=sel_else, type_ignores=[]), objs)
            ok = (body_objs and else_objs and all(objs[n]['mxfp_overflow'] == val for n in body_objs)
                  and all(objs[n]['mxfp_overflow'] != val for n in else_objs))
            if not ok:
                r.fail(h.key, sel[0].test, f"options.mxfp_overflow == '{val}' must select the '{val}' format object and the other "
                       'value the other object', loc=h.loc(sel[0]))
            else:
                r.ok(sel[0].test, {'instance': h.key, 'selects': {val: body_objs, 'else': else_objs}})
        elif modes - {'saturate', None}:
            r.fail(h.key, hfm[0], 'single-object encoder uses a non-saturating format object', loc=h.loc())
        # NaN rejection for formats without a NaN code
        kind = fmt_kind(gobj['exp_bits'], gobj.get('mantissa_bits', 0), 'binary8' if gobj['__class__'] == 'Binary8Format' else 'mxfp')
        if kind == 'small':
            _nan_guard(r, h, e['name'])
    # the options setter admits exactly the two modes
    st = m.funcs.get('bitstring_options:Options.mxfp_overflow@setter')
    if st is None:
        raise AnalysisError('anchor vanished: Options.mxfp_overflow setter')
    tup = [n for n in own_walk(st.node) if isinstance(n, (ast.Tuple, ast.List)) and n.elts and all(isinstance(x, ast.Constant) and isinstance(x.value, str) for x in n.elts)]
    raises = [n for n in own_walk(st.node) if isinstance(n, ast.Raise)]
    if not tup or not raises or {x.value for x in tup[0].elts} != {'saturate', 'overflow'}:
        r.fail(st.key, tup[0] if tup else 'allowed_values', "options.mxfp_overflow must admit exactly 'saturate' and 'overflow'", loc=st.loc())
    else:
        r.ok(tup[0])


def _nan_guard(r, h, name):
    guards = [n for n in own_walk(h.node) if isinstance(n, ast.If) and 'isnan' in ast.unparse(n.test)
              and any(isinstance(x, ast.Raise) for x in ast.walk(n))]
    conv = [n for n in own_walk(h.node) if isinstance(n, ast.Call) and isinstance(n.func, ast.Attribute) and n.func.attr.startswith('float_to_int')]
    i2b = [n for n in own_walk(h.node) if isinstance(n, ast.Call) and ast.unparse(n.func) == 'int2bitstore']
    first_use = min([c.lineno for c in conv + i2b] or [10 ** 9])
    if not guards or guards[0].lineno > first_use:
        r.fail(h.key, 'math.isnan guard', f"'{name}' has no NaN code: NaN must be rejected before encoding (otherwise the "
               '0xff marker of the table is written as data)', loc=h.loc(), extra={'props': ['C11', 'C15', 'C20']})
    else:
        r.ok(guards[0].test)


def _check_e8m0_mxint_bfloat_scale(ctx, r):
    m = ctx.m
    # ---- e8m0
    av = m.modglobals['bitstore_helpers'].get('e8m0mxfp_allowed_values')
    g = m.funcs.get('bits:Bits._gete8m0mxfp')
    s = m.funcs.get('bitstore_helpers:e8m0mxfp2bitstore')
    if g is None or s is None:
        raise AnalysisError('anchor vanished: e8m0 codec')
    if av is not None:
        rng = [n for n in ast.walk(av) if isinstance(n, ast.Call) and isinstance(n.func, ast.Name) and n.func.id == 'range']
        if not (isinstance(av, ast.ListComp) and len(rng) == 1 and '2 **' in ast.unparse(av.elt)):
            raise AnalysisError('e8m0mxfp_allowed_values form not recognised')
        lo, hi = fold(rng[0].args[0]), fold(rng[0].args[1])
    else:
        # no table of allowed values: the encoder computes the code; its range constants stand in for the table's
        cmp_ = [n for n in own_walk(s.node) if isinstance(n, ast.Compare) and len(n.ops) == 2 and all(isinstance(o, (ast.LtE, ast.Lt)) for o in n.ops)]
        vals = [(fold(n.left), fold(n.comparators[1])) for n in cmp_ if isinstance(fold(n.left), int) and isinstance(fold(n.comparators[1]), int)]
        if len(vals) != 1:
            raise AnalysisError('e8m0 encoder: neither a table of allowed values nor a recognisable exponent range (needs a human)')
        lo, hi = vals[0][0], vals[0][1] + 1
    # what the decoder returns for the codes 0, 127, 254 (powers of two around the bias) and 255, by partial evaluation
    from .peval import PEval as _PE, Unsupported as _Un, is_const as _isc
    import math as _math

    def decode(code):
        try:
            pe = _PE(m, g, {'self._getuint()': code}).run()
        except _Un as e:
            raise AnalysisError(f'Bits._gete8m0mxfp: {e}')
        vals = [v for v in pe.returns if _isc(v) and isinstance(v, float)]
        if len(vals) != 1 or len(pe.returns) != 1:
            raise AnalysisError('Bits._gete8m0mxfp form not recognised')
        return vals[0]
    d0, d127, d254, d255 = decode(0), decode(127), decode(254), decode(255)
    if d127 == 1.0 and d0 == 2.0 ** -127 and d254 == 2.0 ** 127:
        bias = 127
    else:
        bias = None if d127 == 0 or d127 != d127 else 127 - int(round(_math.log2(d127))) if d127 > 0 else None
    nan_at = (255 - bias) if (d255 != d255 and bias is not None) else None
    if bias is None or nan_at is None or lo != -bias or hi - lo != 255 or nan_at != 255 - bias:
        r.fail(g.key, f'range({lo}, {hi}) / bias {bias} / nan at {nan_at}',
               'e8m0: code i must mean 2**(i-127) for i in 0..254 and 255 must be NaN; the encoder table and the decoder constants disagree',
               loc=g.loc())
    else:
        r.ok('e8m0 constants', {'instance': 'e8m0', 'range': [lo, hi], 'bias': bias, 'nan_code': nan_at + bias, 'decoded': {'0': d0, '127': d127, '254': d254}})
    nan_lit = [n for n in own_walk(s.node) if isinstance(n, ast.If) and 'isnan' in ast.unparse(n.test)]
    lit = [x.value for n in nan_lit for x in ast.walk(n) if isinstance(x, ast.Constant) and isinstance(x.value, str)]
    if not lit or lit[0] != '1' * 8:
        r.fail(s.key, 'NaN literal', 'e8m0 NaN must be encoded as 0b11111111', loc=s.loc())
    else:
        r.ok('e8m0 nan literal')
    idx = [n for n in own_walk(s.node) if isinstance(n, ast.Call) and ast.unparse(n.func) == 'int2bitstore']
    if not idx or fold(idx[0].args[1]) != 8 or fold(idx[0].args[2]) is not False:
        r.fail(s.key, idx[0] if idx else 'int2bitstore', 'e8m0 codes are 8-bit unsigned', loc=s.loc())
    else:
        r.ok(idx[0])
    # "no rounding will be done": the code must come from an exact test.  A logarithm rounds (log2 of a float a few ulps from
    # 2**k is exactly k), so it decides membership only together with an exact comparison of f against the power / the table.
    inexact = [n for n in own_walk(s.node) if isinstance(n, ast.Call) and ast.unparse(n.func) in
               ('math.log2', 'math.log', 'math.log10', 'math.sqrt', 'math.pow', 'math.exp', 'round', 'math.floor', 'math.ceil')]
    exact = [n for n in own_walk(s.node) if (isinstance(n, ast.Call) and isinstance(n.func, ast.Attribute) and n.func.attr == 'index'
                                             and ast.unparse(n.func.value) == 'e8m0mxfp_allowed_values')
             or (isinstance(n, ast.Compare) and isinstance(n.ops[0], (ast.Eq, ast.NotEq, ast.In, ast.NotIn))
                 and any(isinstance(y, ast.Name) and y.id == 'f' for y in ast.walk(n))
                 and any(isinstance(y, ast.BinOp) and isinstance(y.op, ast.Pow) or (isinstance(y, ast.Name) and y.id == 'e8m0mxfp_allowed_values')
                         or (isinstance(y, ast.Call) and ast.unparse(y.func) == 'math.ldexp') for y in ast.walk(n)))]
    if inexact and not exact:
        r.fail(s.key, inexact[0], f'e8m0 accepts exact powers of two only, but the code is derived with {ast.unparse(inexact[0].func)}(), which rounds, and '
               'there is no exact comparison of f with the power (or the table of allowed values): neighbours of 2**k are encoded instead of rejected',
               loc=s.loc(inexact[0]))
    else:
        r.ok('e8m0 exact membership', {'instance': 'e8m0 encoder', 'exact_test': norm(exact[0]) if exact else 'no rounding function used'})
    # ---- mxint
    g = m.funcs.get('bits:Bits._getmxint')
    s = m.funcs.get('bitstore_helpers:mxint2bitstore')
    if g is None or s is None:
        raise AnalysisError('anchor vanished: mxint codec')
    gp = [n for n in own_walk(g.node) if isinstance(n, ast.BinOp) and isinstance(n.op, ast.Pow)]
    sp = [n for n in own_walk(s.node) if isinstance(n, ast.BinOp) and isinstance(n.op, ast.Pow)]
    if len(gp) != 1 or len(sp) != 1:
        raise AnalysisError('mxint scaling form not recognised')
    if fold(gp[0]) * fold(sp[0]) != 1 or fold(sp[0]) != 64:
        r.fail(s.key, f'{ast.unparse(sp[0])} vs {ast.unparse(gp[0])}', 'mxint: encoder must multiply by 2**6 and decoder by 2**-6', loc=s.loc())
    else:
        r.ok('mxint scale')
    if 'self._getint' not in ast.unparse(g.node):
        r.fail(g.key, 'decoder', 'mxint is a signed 8-bit integer scaled by 2**-6', loc=g.loc())
    else:
        r.ok('mxint signed')
    _nan_guard(r, s, 'mxint')
    clamps = {}
    for n in own_walk(s.node):
        if isinstance(n, ast.If) and isinstance(n.test, ast.Compare) and ast.unparse(n.test.left) == 'f' and isinstance(n.body[0], ast.Return):
            lits = [x.value for x in ast.walk(n.body[0]) if isinstance(x, ast.Constant) and isinstance(x.value, str)]
            if lits:
                clamps[(type(n.test.ops[0]).__name__, fold(n.test.comparators[0]))] = lits[0]
    if clamps != {('Gt', 127): '01111111', ('LtE', -128): '10000000'}:
        r.fail(s.key, f'clamps {sorted(clamps.items())}', 'mxint must saturate at +127/64 (0x7f) and -2 (0x80)', loc=s.loc())
    else:
        r.ok('mxint clamps', {'instance': 'mxint clamps', 'value': {str(k): v for k, v in clamps.items()}})
    i2b = [n for n in own_walk(s.node) if isinstance(n, ast.Call) and ast.unparse(n.func) == 'int2bitstore']
    if not i2b or fold(i2b[0].args[1]) != 8 or fold(i2b[0].args[2]) is not True:
        r.fail(s.key, i2b[0] if i2b else 'int2bitstore', 'mxint codes are 8-bit signed', loc=s.loc())
    else:
        r.ok(i2b[0])
    # ---- bfloat
    s = m.funcs.get('bitstore_helpers:bfloat2bitstore')
    from .peval import PEval, Unsupported, is_const
    bf_setters = None
    if s is None:
        # the flag-taking encoder is gone (say, split into one routine per byte order): judge what each registered setter stores
        bf_setters = {True: m.funcs.get('bits:Bits._setbfloatbe'), False: m.funcs.get('bits:Bits._setbfloatle')}
        if not all(bf_setters.values()):
            raise AnalysisError('anchor vanished: bfloat2bitstore')
    # which float32 is packed and which two bytes of it are kept, for each byte order (partial evaluation of the encoder)
    bp = [p for p in s.params() if 'endian' in p] if s is not None else ['-']
    if len(bp) != 1:
        raise AnalysisError('bfloat2bitstore: byte-order parameter not recognised')

    def byte_idx(v):
        """Which bytes of the packed float32 a value holds, as indices into the BIG-endian byte string (0 = most significant),
        in order; None if it is not bytes of one struct.pack('>f' / '<f', ..)."""
        if isinstance(v, tuple) and v and v[0] == 'either':
            a, b = byte_idx(v[1]), byte_idx(v[2])
            return a if a == b else None
        if isinstance(v, tuple) and v and v[0] == 'call' and v[1] == 'struct.pack' and v[2]:
            return {'>f': [0, 1, 2, 3], '!f': [0, 1, 2, 3], '<f': [3, 2, 1, 0]}.get(v[2][0])
        if isinstance(v, tuple) and v and v[0] == 'slice':
            base = byte_idx(v[1])
            lo, hi = v[2], v[3]
            st = v[4] if len(v) > 4 else None
            if base is None or not all(x is None or isinstance(x, int) for x in (lo, hi, st)):
                return None
            return base[lo:hi:st]
        if isinstance(v, tuple) and v and v[0] == 'call' and v[1] in ('bytes', 'bytearray') and v[2]:
            return byte_idx(v[2][0])
        return None

    def kept(v):
        if isinstance(v, tuple) and v and v[0] == 'either':
            a, b = kept(v[1]), kept(v[2])
            return a if a == b else None
        if isinstance(v, tuple) and v and v[0] == 'call' and v[1].endswith('frombytes') and v[2]:
            got_ = byte_idx(v[2][0])
            return tuple(got_) if got_ is not None else None
        return None
    for be, want in ((True, (0, 1)), (False, (1, 0))):
        try:
            if bf_setters is None:
                pe = PEval(m, s, {bp[0]: be}).run()
                vals = list(pe.returns)
            else:
                s = bf_setters[be]
                pe = PEval(m, s, {})
                pe.run()
                vals = [env_['self._bitstore'] for env_ in pe.final_envs if 'self._bitstore' in env_]
                if not vals:
                    # the setter still calls a routine of its own: evaluate that one
                    callee = [g for cs in ctx.R.analyse(s, 'Bits').calls for (g, _c) in cs.targets if g.mod == 'bitstore_helpers']
                    if len(callee) != 1:
                        raise AnalysisError(f'{s.key}: bfloat encoder routine not recognised')
                    s = callee[0]
                    pe = PEval(m, s, {}).run()
                    vals = list(pe.returns)
        except Unsupported as e:
            raise AnalysisError(f'bfloat2bitstore: {e}')
        got = {kept(v) for v in vals}
        if None in got or not got:
            raise AnalysisError('bfloat2bitstore form not recognised')
        if got != {want}:
            r.fail(s.key, f'big_endian={be}: {sorted(got)}', f"bfloat is the most significant half of a float32: big_endian={be} must store the bytes "
                   f"{list(want)} of the big-endian float32 (most significant = 0), in that order; it stores {sorted(got)[0]}", loc=s.loc())
        else:
            r.ok(f'bfloat encoder big_endian={be}', {'instance': 'bfloat byte selection', 'big_endian': be, 'bytes_of_big_endian_float32': list(want)})
    for gk, want_left_self, dec in (('bits:Bits._getbfloatbe', True, '_getfloatbe'), ('bits:Bits._getbfloatle', False, '_getfloatle')):
        g = m.funcs.get(gk)
        if g is None:
            raise AnalysisError(f'anchor vanished: {gk}')
        adds = [n for n in own_walk(g.node) if isinstance(n, ast.BinOp) and isinstance(n.op, ast.Add)]
        if len(adds) != 1:
            raise AnalysisError(f'{gk}: padding form not recognised')
        left_self = ast.unparse(adds[0].left) == 'self'
        pad = adds[0].right if left_self else adds[0].left
        if isinstance(pad, ast.Name):
            pdefs = [x.value for x in own_walk(g.node) if isinstance(x, ast.Assign) and len(x.targets) == 1 and ast.unparse(x.targets[0]) == pad.id]
            if len(pdefs) == 1:
                pad = pdefs[0]
        padn = fold(pad.args[0]) if isinstance(pad, ast.Call) and pad.args else None
        if left_self != want_left_self or padn != 16 or dec not in ast.unparse(g.node):
            r.fail(gk, adds[0], f"bfloat decode must pad 16 zero bits on the {'right' if want_left_self else 'left'} and read a "
                   f"{'big' if want_left_self else 'little'}-endian float32", loc=g.loc(adds[0]))
        else:
            r.ok(adds[0])
    # ---- scale
    for fn, op, what in (('scaled_get_fn', ast.Mult, 'multiplies'), ('scaled_set_fn', ast.Div, 'divides'), ('scaled_read_fn', ast.Mult, 'multiplies')):
        f = m.modfuncs['dtypes'].get(fn)
        if f is None:
            raise AnalysisError(f'anchor vanished: dtypes.{fn}')
        ops = [n for c in f.children for n in own_walk(c.node) if isinstance(n, ast.BinOp) and 'scale' in ast.unparse(n.right)]
        if not ops:
            raise AnalysisError(f'dtypes.{fn}: scaling expression not recognised')
        for o in ops:
            if not isinstance(o.op, op):
                r.fail(f.key, o, f'a Dtype scale {what} the value here', loc=f.loc(o))
            else:
                r.ok(o)

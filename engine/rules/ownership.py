"""A: store ownership — who may share, install, mutate or leak a BitStore / bitarray (C04, C16, C08)."""
from __future__ import annotations

import ast

from ..core import own_walk
from ..effects import Effects
from ..model import AnalysisError, FAMILY, MUTABLE, IMMUTABLE
from ..report import RuleResult, norm
from . import guards as G
from ..resolve import ANY


def get_effects(ctx):
    if not hasattr(ctx, '_effects'):
        ctx._effects = Effects(ctx)
    return ctx._effects


def get_ownership(ctx):
    if not hasattr(ctx, '_ownership'):
        ctx._ownership = Ownership(ctx)
    return ctx._ownership


def public_roots(ctx, c):
    """(name, Func) for every public name resolvable on class c (methods, property getters/setters)."""
    m = ctx.m
    out = []
    for name in sorted(m.public_names(c)):
        kind, p = m.lookup(c, name)
        if kind == 'method':
            out += [(name, f) for f in p]
        elif kind == 'prop':
            out += [(name, f) for f in p if f is not None]
    return out


def rule_A5(ctx):
    """No public operation of an immutable class has a store effect on self."""
    m = ctx.m
    E = get_effects(ctx)
    r = RuleResult('A5', 'immutable classes expose no operation that alters their own content')
    for c in sorted(IMMUTABLE):
        roots = public_roots(ctx, c)
        # registry getters are public properties of every class
        for e in m.registry:
            g = m.func_by_dotted(e['get_fn']) if e['get_fn'] else None
            if g is not None:
                roots.append((e['name'], g))
        for name, f in roots:
            if name in ('__init__', '__new__'):
                continue      # construction (A1-A3)
            if f.is_classmethod() or f.is_staticmethod():
                r.ok(f'{c}.{name}', trivial=True)
                continue
            eff = E.selfeff(ctx.node(f, c))
            if eff:
                kind, where, detail = sorted(eff)[0]
                r.fail(f.key, f'{c}.{name}', f"public {c}.{name} changes the object's own bits ({kind} '{detail}' in {where}): "
                       f'{c} objects are documented immutable, and their store may be shared with the string cache',
                       loc=f.loc(), extra={'effects': sorted(map(str, eff))[:4]})
            else:
                r.ok(f'{c}.{name}', {'instance': f'{c}.{name}', 'self_store_effects': 0})
    return r


def rule_A8(ctx):
    """BitStore level: _copy really copies, copy shares only under the flag, operators build new stores."""
    m = ctx.m
    r = RuleResult('A8', 'BitStore copy/construct/operator discipline')
    bs = m.classes['BitStore']

    def returns(f):
        return [x for x in own_walk(f.node) if isinstance(x, ast.Return) and x.value is not None]

    def fresh_expr(e, f):
        """BitStore(...) / cls-constructed local / self._copy() / getslice: a store nobody else holds."""
        if isinstance(e, ast.Call):
            t = ast.unparse(e.func)
            if t == 'BitStore':
                # the copying constructor: argument must not be passed with buffer=
                return True
            if isinstance(e.func, ast.Attribute) and (e.func.attr in ('_copy', 'frombytes') or e.func.attr.startswith('getslice')):
                return True       # every getslice* variant is itself checked below to return a new store
        if isinstance(e, ast.Name):
            # local built by a fresh expression
            for x in own_walk(f.node):
                if isinstance(x, ast.Assign) and len(x.targets) == 1 and isinstance(x.targets[0], ast.Name) and x.targets[0].id == e.id:
                    if not fresh_expr(x.value, f) and not (isinstance(x.value, ast.Call) and ast.unparse(x.value.func).endswith('__new__')):
                        return False
            return e.id != 'self' and e.id not in f.params()
        return False

    init = bs.methods.get('__init__')
    if init is None:
        raise AnalysisError('anchor vanished: BitStore.__init__')
    ok = False
    for x in own_walk(init.node):
        if isinstance(x, ast.Assign) and ast.unparse(x.targets[0]) == 'self._bitarray':
            v = x.value
            ok = isinstance(v, ast.Call) and ast.unparse(v.func) == 'bitarray.bitarray' and not any(k.arg == 'buffer' for k in v.keywords)
            if not ok:
                r.fail(init.key, x, 'BitStore(...) must build its own bitarray (bitarray.bitarray(x) copies); storing the argument '
                       'itself aliases the caller\'s bitarray', loc=init.loc(x))
    if ok:
        r.ok('BitStore.__init__ copies', {'instance': 'BitStore.__init__', 'verdict': 'self._bitarray = bitarray.bitarray(initializer)'})
    cp = bs.methods.get('_copy')
    if cp is None:
        raise AnalysisError('anchor vanished: BitStore._copy')
    for x in returns(cp):
        v = x.value
        good = isinstance(v, ast.Call) and ast.unparse(v.func) in ('BitStore', 'self.__class__', 'type(self)') and v.args \
            and ast.unparse(v.args[0]) in ('self._bitarray', 'self._bitarray.copy()', 'self._bitarray[:]') or \
            (isinstance(v, ast.Call) and ast.unparse(v.func) in ('self.getslice_msb0', 'self.getslice'))
        if not good:
            r.fail(cp.key, x, 'BitStore._copy must return a newly constructed store ("always creates a copy"): every caller that '
                   'needs an independent object relies on it', loc=cp.loc(x))
        else:
            r.ok(x)
    c2 = bs.methods.get('copy')
    if c2 is None:
        raise AnalysisError('anchor vanished: BitStore.copy')
    for x in returns(c2):
        v = x.value
        if isinstance(v, ast.IfExp) and ast.unparse(G.pos_if(v)[0]) == 'self.immutable' and ast.unparse(G.pos_if(v)[1]) == 'self' \
                and ast.unparse(G.pos_if(v)[2]) == 'self._copy()':
            r.ok(x)
        elif isinstance(v, ast.Call) and ast.unparse(v.func) == 'self._copy':
            r.ok(x)
        elif ast.unparse(v) == 'self':
            # allowed only under an enclosing `if self.immutable`
            guarded = any(isinstance(p, ast.If) and ast.unparse(G.pos_if(p)[0]) == 'self.immutable' and any(x is q for b in G.pos_if(p)[1] for q in ast.walk(b))
                          for p in own_walk(c2.node))
            if guarded:
                r.ok(x)
            else:
                r.fail(c2.key, x, 'BitStore.copy returns self without testing the immutable flag: a mutable store gets shared', loc=c2.loc(x))
        else:
            r.fail(c2.key, x, 'BitStore.copy must be `self if self.immutable else self._copy()`', loc=c2.loc(x))
    for op in ('__and__', '__or__', '__xor__', '__add__', 'getslice_msb0', 'getslice_lsb0', 'getslice_withstep_msb0',
               'getslice_withstep_lsb0'):
        f = bs.methods.get(op)
        if f is None:
            raise AnalysisError(f'anchor vanished: BitStore.{op}')
        for x in returns(f):
            if fresh_expr(x.value, f):
                r.ok(f'{op}:{norm(x)}')
            else:
                r.fail(f.key, x, f'BitStore.{op} must return a new store; returning an operand aliases it into the result object', loc=f.loc(x))
    # the bit-wise operators apply bitarray's operator on every path: that is where unequal lengths raise ValueError
    ops = {'__and__': ast.BitAnd, '__or__': ast.BitOr, '__xor__': ast.BitXor, '__iand__': ast.BitAnd, '__ior__': ast.BitOr, '__ixor__': ast.BitXor}
    for name, op in ops.items():
        f = bs.methods.get(name)
        if f is None:
            raise AnalysisError(f'anchor vanished: BitStore.{name}')
        top = [s for s in f.node.body if not (isinstance(s, ast.Expr) and isinstance(s.value, ast.Constant))]
        applied = None
        for i, s0 in enumerate(top):
            cand = [s0] if isinstance(s0, ast.AugAssign) else ([s0.value] + list(ast.walk(s0.value)) if isinstance(s0, (ast.Return, ast.Assign)) and s0.value is not None else [])
            hit = [y for y in cand if (isinstance(y, ast.BinOp) or isinstance(y, ast.AugAssign)) and isinstance(y.op, op)
                   and '_bitarray' in ast.unparse(y)]
            if hit:
                applied = i
                break
        early = applied is None or any(isinstance(y, (ast.Return, ast.If)) for s0 in top[:applied] for y in ast.walk(s0))
        if early:
            r.fail(f.key, f'{name}: bitarray operator not applied on every path', f"BitStore.{name} can return without applying bitarray's "
                   f"{'in-place ' if name.startswith('__i') else ''}operator: the ValueError for operands of unequal length is raised only inside that call",
                   loc=f.loc(), extra={'props': ['C16']})
        else:
            r.ok(f'{name} unconditional')
    # frombuffer is the only sharing constructor
    for f in m.funcs.values():
        for x in own_walk(f.node):
            if isinstance(x, ast.Call) and ast.unparse(x.func).endswith('bitarray.bitarray') and any(k.arg == 'buffer' for k in x.keywords):
                if f.key not in sharing_ctors(m):
                    r.fail(f.key, x, 'bitarray(buffer=...) shares memory with its argument; only BitStore.frombuffer (read-only mmap) may do that', loc=f.loc(x))
                else:
                    r.ok(x)
            if isinstance(x, ast.Assign) and any(isinstance(t, ast.Attribute) and t.attr == '_bitarray' for t in x.targets):
                v = x.value
                if isinstance(v, ast.Name) and v.id not in f.params():
                    # a local bitarray built here (and possibly filled) before being installed
                    vals = [y.value for y in own_walk(f.node) if isinstance(y, ast.Assign) and len(y.targets) == 1 and isinstance(y.targets[0], ast.Name)
                            and y.targets[0].id == v.id]
                    if vals and all(isinstance(w, ast.Call) and ast.unparse(w.func).endswith('bitarray.bitarray') for w in vals):
                        v = vals[0]
                if not (isinstance(v, ast.Call) and ast.unparse(v.func).endswith('bitarray.bitarray')):
                    r.fail(f.key, x, "a store's _bitarray must be a bitarray built here (copying constructor), not an object handed in", loc=f.loc(x))
                else:
                    r.ok(x)
    return r


def sharing_ctors(m):
    """Constructors of BitStore that wrap a caller's buffer without copying: classmethods that build `bitarray(buffer=...)` into
    a newly allocated store and set its immutable flag unconditionally.  frombuffer is one; a variant of it written next to it
    (frombuffer_truncated, say) is held to the same rules - who may call it, with what, and what its result counts as."""
    out = {}
    bs = m.classes.get('BitStore')
    if bs is None:
        return out
    for name, f in bs.methods.items():
        if not any(isinstance(x, ast.Call) and ast.unparse(x.func).endswith('bitarray.bitarray') and any(k.arg == 'buffer' for k in x.keywords)
                   for x in own_walk(f.node)):
            continue
        flagged = any(isinstance(st, ast.Assign) and len(st.targets) == 1 and ast.unparse(st.targets[0]).endswith('.immutable')
                      and isinstance(st.value, ast.Constant) and st.value.value is True for st in f.node.body)
        alloc = any(isinstance(x, ast.Call) and ast.unparse(x.func) == 'super().__new__' for x in own_walk(f.node))
        if name == 'frombuffer' or (flagged and alloc and f.params()[:1] == ['cls']):
            out[f.key] = f
    return out


def rule_A7(ctx):
    """Ingress: external mutable inputs reach a store only through copying constructors; frombuffer only on a read-only mmap."""
    m = ctx.m
    r = RuleResult('A7', 'external buffers are copied on the way in; memory sharing only with a read-only mmap')
    fb = m.funcs.get('bitstore:BitStore.frombuffer')
    if fb is None:
        raise AnalysisError('anchor vanished: BitStore.frombuffer')
    shared = set(sharing_ctors(m)) | {fb.key}
    n_calls = 0
    for n, edges in ctx.callgraph().items():
        for (callee, cs) in edges:
            if callee[0] not in shared or not isinstance(cs.node, ast.Call) or n[0] in shared:
                continue
            n_calls += 1
            f = m.funcs[n[0]]
            arg = cs.node.args[0] if cs.node.args else None
            ok = False
            if isinstance(arg, ast.Name):
                for x in own_walk(f.node):
                    if isinstance(x, ast.Assign) and isinstance(x.targets[0], ast.Name) and x.targets[0].id == arg.id \
                            and isinstance(x.value, ast.Call) and ast.unparse(x.value.func) == 'mmap.mmap':
                        acc = [k for k in x.value.keywords if k.arg == 'access']
                        ok = bool(acc) and ast.unparse(acc[0].value) == 'mmap.ACCESS_READ'
            if not ok:
                r.fail(f.key, cs.node, 'BitStore.frombuffer shares memory with its argument: it may only be given a read-only mmap, '
                       'never a caller-supplied bytearray/memoryview/array', loc=f.loc(cs.node))
            else:
                r.ok(cs.node, {'instance': f.key, 'buffer': 'mmap(..., access=ACCESS_READ)'})
    if n_calls == 0:
        raise AnalysisError('no call of BitStore.frombuffer found (file route vanished?)')
    # the auto-initialiser's branches for mutable foreign inputs must copy
    f = m.funcs.get('bits:Bits._setauto_no_length_or_offset')
    if f is None:
        raise AnalysisError('anchor vanished: Bits._setauto_no_length_or_offset')
    copying = ('BitStore', 'BitStore.frombytes', 'bitstore_helpers.str_to_bitstore')
    for x in own_walk(f.node):
        if isinstance(x, ast.Assign) and ast.unparse(x.targets[0]) == 'self._bitstore':
            v = x.value
            if isinstance(v, ast.Call) and ast.unparse(v.func) in copying:
                r.ok(x)
            elif isinstance(v, ast.Call) and isinstance(v.func, ast.Attribute) and v.func.attr in ('copy', '_copy'):
                r.ok(x)
            else:
                # anything else: the store-provenance analysis must show a store built here (or a cached/copied one), never the caller's buffer
                O = get_ownership(ctx)
                pv = O.prov(v, ctx.node(f, 'Bits'))
                if pv and all(p[0] in ('FRESH', 'CACHED', 'MAYBE_SHARED') for p in pv):
                    r.ok(x)
                else:
                    r.fail(f.key, x, 'an auto-initialiser branch installs something other than a copying constructor result', loc=f.loc(x),
                           extra={'provenance': sorted(str(p) for p in pv)})
    # a BytesIO is read as a whole, independent of (and without moving) its position
    for g in (f, m.funcs.get('bits:Bits._setauto')):
        if g is None:
            continue
        fa = ctx.R.analyse(g, 'Bits')
        for x in own_walk(g.node):
            if isinstance(x, ast.Call) and isinstance(x.func, ast.Attribute) and x.func.attr in ('read', 'read1', 'readinto', 'readline'):
                t = fa.expr_type.get(id(x.func.value), ANY)
                if 'bytesio' in t or not t:
                    r.fail(g.key, x, "the initialiser consumes the stream with read(): the bits stored depend on the BytesIO's current position and a "
                           'second use of the same object gives a different (empty) bitstring', loc=g.loc(x))
    # a foreign bitarray may be little-endian: the store's bitarray is always built big-endian
    init = m.funcs.get('bitstore:BitStore.__init__')
    if init is None:
        raise AnalysisError('anchor vanished: BitStore.__init__')
    for x in own_walk(init.node):
        if isinstance(x, ast.Assign) and ast.unparse(x.targets[0]) == 'self._bitarray' and isinstance(x.value, ast.Call):
            kw = {k.arg: ast.unparse(k.value) for k in x.value.keywords}
            if kw.get('endian') not in ("'big'", '"big"'):
                r.fail(init.key, x, "BitStore keeps the endianness of a bitarray it is given: a little-endian bitarray with the same bit sequence gives "
                       'different tobytes(), integer and hash results than the same bits from any other route', loc=init.loc(x),
                       extra={'props': ['C04', 'C08', 'C13', 'C17', 'C02']})
            else:
                r.ok(x)
    for fk in ('bits:Bits._setbytes', 'bits:Bits._setbytes_with_truncation', 'bits:Bits._setbitarray'):
        g = m.funcs.get(fk)
        if g is None:
            raise AnalysisError(f'anchor vanished: {fk}')
        for x in own_walk(g.node):
            if isinstance(x, ast.Assign) and ast.unparse(x.targets[0]) == 'self._bitstore':
                txt = ast.unparse(x.value)
                if txt.startswith(('BitStore(', 'BitStore.frombytes(')):
                    r.ok(x)
                else:
                    r.fail(g.key, x, 'ingest route must build the store with a copying constructor', loc=g.loc(x))
    return r


def rule_A6(ctx):
    """No public function hands out an internal bitarray or BitStore."""
    m = ctx.m
    r = RuleResult('A6', 'internal buffers never escape through return values')
    targets = []
    for c in FAMILY + ['Array']:
        for name, f in public_roots(ctx, c) if c in FAMILY else [(n, f) for n, f in m.classes['Array'].methods.items() if not n.startswith('_') or n.startswith('__')]:
            targets.append((c, name, f))
    seen = set()
    for c, name, f in targets:
        if f.key in seen:
            continue
        seen.add(f.key)
        fa = ctx.R.analyse(f, c if c in FAMILY else None)
        for x in own_walk(f.node):
            vals = []
            if isinstance(x, ast.Return) and x.value is not None:
                vals.append(x.value)
            if isinstance(x, (ast.Yield,)) and x.value is not None:
                vals.append(x.value)
            for v in vals:
                for e in ([v.body, v.orelse] if isinstance(v, ast.IfExp) else [v]):
                    t = fa.expr_type.get(id(e), ANY)
                    internal = False
                    if isinstance(e, ast.Name) and e.id not in f.params():
                        # a local that is nothing but an alias of an internal buffer
                        vals = [y.value for y in own_walk(f.node) if isinstance(y, ast.Assign) and len(y.targets) == 1
                                and isinstance(y.targets[0], ast.Name) and y.targets[0].id == e.id]
                        if vals and all(isinstance(v2, ast.Attribute) and v2.attr in ('_bitarray', '_bitstore') for v2 in vals):
                            e = vals[0]
                    if isinstance(e, ast.Attribute) and e.attr in ('_bitarray', '_bitstore'):
                        # whose? a store freshly produced by a copying call is fine
                        base = e.value
                        if e.attr == '_bitarray' and isinstance(base, ast.Call) and isinstance(base.func, ast.Attribute) \
                                and base.func.attr.startswith(('getslice', '_copy')):
                            internal = False
                        else:
                            internal = True
                    if internal:
                        r.fail(f.key, e, f"public {name} returns the object's internal {e.attr.lstrip('_')} itself: mutating the "
                               'returned object changes this bitstring (and every object or cache entry sharing its store)', loc=f.loc(e))
                    else:
                        r.ok(None)
        r.constructs.add(f.key)
    return r


def rule_A2(ctx):
    """The mutable classes' __init__ claim their store (copy-if-flagged, clear flag); the immutable ones flag it."""
    m = ctx.m
    r = RuleResult('A2', 'constructors claim (mutable) or flag (immutable) the store on every path')
    for c in FAMILY:
        inits = m.winner(c, '__init__')
        if len(inits) != 1:
            raise AnalysisError(f'{c}.__init__ does not resolve')
        f = inits[0]
        body = [s for s in f.node.body if not (isinstance(s, ast.Expr) and isinstance(s.value, ast.Constant))]
        # the claim/flag may live in a helper called unconditionally from __init__: splice the helper's body in
        spliced = []
        for s0 in body:
            if isinstance(s0, ast.Expr) and isinstance(s0.value, ast.Call) and isinstance(s0.value.func, ast.Attribute) \
                    and ast.unparse(s0.value.func.value) == 'self' and not s0.value.args:
                hs = m.winner(c, s0.value.func.attr)
                if len(hs) == 1 and len(hs[0].params()) == 1:
                    spliced += [x for x in hs[0].node.body if not (isinstance(x, ast.Expr) and isinstance(x.value, ast.Constant))]
                    continue
            spliced.append(s0)
        body = spliced
        if c in MUTABLE:
            claim = None
            COPIES = ('self._bitstore._copy()', 'BitStore(self._bitstore._bitarray)', 'self._bitstore.getslice_msb0(None, None)')
            env = {}              # local name -> expression text it stands for (aliases of the store, private copies)

            def expand(e):
                class Sub(ast.NodeTransformer):
                    def visit_Name(self, n):
                        if n.id in env and isinstance(n.ctx, ast.Load):
                            return ast.parse(env[n.id], mode='eval').body
                        return n
                import copy as _cp
                return ast.unparse(Sub().visit(_cp.deepcopy(e)))
            for s in body:           # top level only: executed on every path that returns normally
                if isinstance(s, ast.Assign) and len(s.targets) == 1 and isinstance(s.targets[0], ast.Name):
                    env[s.targets[0].id] = expand(s.value)
                    continue
                if isinstance(s, ast.If):
                    pt, flagged, _other = G.pos_if(s)
                    if expand(pt) in ('self._bitstore.immutable', 'self._bitstore.immutable is True'):
                        installed, cleared, order = None, [], 0
                        saved = dict(env)
                        for x in flagged:
                            if isinstance(x, ast.Assign) and len(x.targets) == 1:
                                tgt = x.targets[0]
                                if isinstance(tgt, ast.Name):
                                    env[tgt.id] = expand(x.value)
                                elif ast.unparse(tgt) == 'self._bitstore':
                                    installed = expand(x.value)
                                    order = x.lineno
                                elif isinstance(tgt, ast.Attribute) and tgt.attr == 'immutable' and isinstance(x.value, ast.Constant) and x.value.value is False:
                                    cleared.append((expand(tgt.value), x.lineno))
                        env.clear()
                        env.update(saved)
                        if installed in COPIES and (any(w == installed for w, _ in cleared) or any(w == 'self._bitstore' and ln > order for w, ln in cleared)):
                            claim = s
                elif isinstance(s, ast.Assign) and ast.unparse(s.targets[0]) == 'self._bitstore' and expand(s.value) == 'self._bitstore._copy()':
                    claim = s     # unconditional copy is a (stronger) claim
            early = [x for s in body for x in ast.walk(s) if isinstance(x, ast.Return) and (claim is None or (x.lineno < claim.lineno and any(x is y for b in f.node.body for y in ast.walk(b))))]
            if claim is None or early:
                r.fail(f.key, f'{c}.__init__ claim', f'{c}.__init__ must replace a flagged (shared/cached/file-backed) store by its own copy and '
                       'clear the flag on every path; without it a new mutable object writes into the string cache or another object',
                       loc=f.loc())
            else:
                r.ok(f'{c} claim', {'instance': f'{c}.__init__', 'claim': norm(claim)[:80]})
        else:
            flag = [s for s in body if isinstance(s, ast.Assign) and ast.unparse(s.targets[0]) == 'self._bitstore.immutable'
                    and isinstance(s.value, ast.Constant) and s.value.value is True]
            if not flag:
                r.fail(f.key, f'{c}.__init__ flag', f'{c}.__init__ must flag its store immutable: copies and mutable constructors rely on the '
                       'flag to know the store may be shared', loc=f.loc())
            else:
                r.ok(f'{c} flag')
    return r


# ====================================================================== A1 / A3 / A4
LIVE, CONSTR, VIEWK, PRIVATE = 'LIVE', 'CONSTR', 'VIEW', 'PRIVATE'


class Ownership:
    def __init__(self, ctx):
        self.ctx, self.m = ctx, ctx.m
        self.E = get_effects(ctx)
        self.cached = {f.key for f in ctx.m.funcs.values() if f.is_cached()}
        self._retprov = {}
        self.selfkinds = {}
        self._flow_kinds()

    # -------------------------------------------------------------- object kinds of `self`
    def alloc_fate(self, f, how):
        if how == 'raw':
            if f.name == '__new__':
                return CONSTR
            if f.name in self.m.promoters:
                return VIEWK
        return PRIVATE

    def _flow_kinds(self):
        ctx, m = self.ctx, self.m
        kinds = {}
        work = []

        def add(node, k):
            s = kinds.setdefault(node, set())
            if k not in s:
                s.add(k)
                work.append(node)

        for c in FAMILY:
            for name, f in public_roots(ctx, c):
                if name == '__new__' or f.is_classmethod() or f.is_staticmethod():
                    kinds.setdefault(ctx.node(f, c), set())
                    work.append(ctx.node(f, c))
                    continue
                add(ctx.node(f, c), CONSTR if name == '__init__' else LIVE)
            for e in m.registry:
                g = m.func_by_dotted(e['get_fn']) if e['get_fn'] else None
                if g is not None:
                    add(ctx.node(g, c), LIVE)
                s = m.func_by_dotted(e['set_fn']) if e['set_fn'] else None
                if s is not None and c in MUTABLE:
                    add(ctx.node(s, c), LIVE)      # property assignment on a live mutable object
        # every other function: start with no kind but make sure its allocations are flowed
        for n in ctx.callgraph():
            kinds.setdefault(n, set())
            work.append(n)
        seen_alloc = set()
        while work:
            n = work.pop()
            f = m.funcs[n[0]]
            edges, selfname = self.E.edges(n)
            loc = self.E.locals(n)
            for (cn, root, cs) in edges:
                if root is None:
                    continue
                g = m.funcs[cn[0]]
                if g.cls not in FAMILY and not (g.parent and g.parent.cls in FAMILY):
                    continue
                if root == selfname and ('self',) in loc.get(root, ()):
                    for k in list(kinds.get(n, ())):
                        add(cn, k)
                    continue
                for b in loc.get(root, ()):
                    if b[0] == 'alloc':
                        add(cn, self.alloc_fate(f, b[2]))
                    elif b[0] in ('view', 'param', 'result', 'other'):
                        add(cn, LIVE if b[0] != 'view' else VIEWK)
                    elif b[0] == 'alias':
                        add(cn, LIVE)
        self.selfkinds = kinds
        roots = []
        for c in FAMILY:
            for name, f in public_roots(ctx, c):
                roots.append(ctx.node(f, c))
            for e in m.registry:
                for role in ('get_fn', 'set_fn'):
                    g = m.func_by_dotted(e[role]) if e[role] else None
                    if g is not None:
                        roots.append(ctx.node(g, c))
        for f in m.funcs.values():
            if f.cls not in FAMILY and f.parent is None and (f.cls is None or not f.name.startswith('_') or f.name.startswith('__')):
                roots.append(ctx.node(f, None))
        self.live = set(ctx.reachable(roots))

    # -------------------------------------------------------------- provenance
    def prov(self, e, node, depth=0):
        """Set of provenance tags of a BitStore-valued expression."""
        ctx, m = self.ctx, self.m
        f = m.funcs[node[0]]
        fa = ctx.fa(node)
        if isinstance(e, ast.IfExp):
            return self.prov(e.body, node, depth) | self.prov(e.orelse, node, depth)
        if isinstance(e, ast.BinOp):
            lt = fa.expr_type.get(id(e.left), ANY)
            if 'BitStore' in lt:
                return {('FRESH',)}
            return {('UNKNOWN', norm(e))}
        if isinstance(e, ast.Call):
            txt = ast.unparse(e.func)
            if txt == 'BitStore' or txt.endswith('.BitStore'):
                return {('FRESH',)}
            if txt.endswith('BitStore.frombytes'):
                return {('FRESH',)}
            if txt.endswith('BitStore.frombuffer') or any(txt.endswith('BitStore.' + k.split('.')[-1]) for k in sharing_ctors(self.m)):
                return {('BUFFER',)}
            if isinstance(e.func, ast.Attribute):
                rt = fa.expr_type.get(id(e.func.value), ANY)
                if 'BitStore' in rt:
                    a = e.func.attr
                    if a == 'copy':
                        owners = self.owner_classes(e.func.value, node)
                        # "a mutable-class object has an unflagged store" holds for claimed objects only: an unclaimed temporary
                        # (the result of operand promotion, which skips __init__) of a mutable class may still hold the cached store
                        ow = e.func.value
                        while isinstance(ow, ast.Attribute) and ow.attr != '_bitstore':
                            ow = ow.value
                        base = ow.value if isinstance(ow, ast.Attribute) else None
                        if isinstance(base, ast.Name):
                            binds = self.E.locals(node).get(base.id, set())
                            is_self = ('self',) in binds
                            if (is_self and VIEWK in self.selfkinds.get(node, ())) or any(b[0] == 'view' for b in binds):
                                owners = frozenset()
                        return {('MAYBE_SHARED', owners)}
                    if a == '_copy' or a.startswith('getslice'):
                        return {('FRESH',)}
            # resolved library function
            out = set()
            for cs in fa.calls:
                if cs.node is e and cs.kind == 'call':
                    for (g, c) in cs.targets:
                        if g.key in self.cached:
                            out.add(('CACHED',))
                        else:
                            out |= self.retprov(ctx.node(g, c), depth + 1)
            return out or {('UNKNOWN', norm(e))}
        if isinstance(e, ast.Attribute) and e.attr == '_bitstore':
            own = e.value
            if isinstance(own, ast.Name):
                binds = self.E.locals(node).get(own.id, set())
                out = set()
                for b in binds:
                    if b[0] == 'alloc':
                        out.add(('OWNED', own.id))
                    else:
                        out.add(('BORROWED', self.owner_classes(e, node), b[0]))
                return out or {('BORROWED', self.owner_classes(e, node), '?')}
            return {('BORROWED', self.owner_classes(e, node), 'expr')}
        if isinstance(e, ast.Name):
            out = set()
            for x in own_walk(f.node):
                if isinstance(x, ast.Assign) and len(x.targets) == 1 and isinstance(x.targets[0], ast.Name) and x.targets[0].id == e.id:
                    out |= self.prov(x.value, node, depth)
            if e.id in f.params():
                out.add(('PARAM', e.id))
            return out or {('UNKNOWN', e.id)}
        return {('UNKNOWN', norm(e))}

    def owner_classes(self, e, node):
        """Family classes of the object owning the store expression X._bitstore[.m()]."""
        fa = self.ctx.fa(node)
        x = e
        while isinstance(x, ast.Attribute) and x.attr != '_bitstore':
            x = x.value
        if isinstance(x, ast.Attribute):
            t = fa.expr_type.get(id(x.value), ANY)
            return frozenset(c for c in t if c in FAMILY)
        return frozenset()

    def retprov(self, node, depth=0):
        if node in self._retprov:
            return self._retprov[node]
        if depth > 6:
            return {('UNKNOWN', 'depth')}
        self._retprov[node] = set()
        f = self.m.funcs[node[0]]
        out = set()
        for x in own_walk(f.node):
            if isinstance(x, ast.Return) and x.value is not None:
                out |= self.prov(x.value, node, depth)
        self._retprov[node] = out
        return out

    # -------------------------------------------------------------- summaries: what a callee installs on its self
    def inst(self, node, stack=()):
        """(provenance, origin node) pairs of what this function installs on its self, through self-calls."""
        if node in stack:
            return set()
        out = set()
        edges, selfname = self.E.edges(node)
        for e in self.E.direct(node):
            if e.kind == 'install' and e.root == selfname:
                out |= {(p, node) for p in self.prov(e.value, node)}
        for (cn, root, cs) in edges:
            if root is not None and root == selfname:
                out |= self.inst(cn, stack + (node,))
        return out


def _judge(p, situation, target_classes):
    """None if allowed, else a reason string."""
    tag = p[0]
    imm_target = bool(target_classes) and target_classes <= IMMUTABLE
    if tag == 'FRESH':
        return None
    if situation == VIEWK:
        return None
    if tag in ('CACHED', 'BUFFER'):
        if situation == CONSTR or imm_target:
            return None
        return (f"the {'string-cache' if tag == 'CACHED' else 'file-buffer'} store is installed in an object that may be of a "
                f"mutable class ({'/'.join(sorted(target_classes)) or 'unknown'}) and no claiming __init__ follows")
    if tag == 'MAYBE_SHARED':
        owners = p[1]
        if situation == CONSTR:
            return None
        if owners and owners <= MUTABLE:
            return None      # flag is False for mutable-class objects (A3): copy() really copies
        if imm_target:
            return None
        return ("store.copy() returns the same store when it is flagged immutable; the target may be of a mutable class "
                f"({'/'.join(sorted(target_classes)) or 'unknown'}) and no claim follows")
    if tag == 'BORROWED':
        owners = p[1]
        if imm_target and owners and owners <= IMMUTABLE:
            return None
        return (f"the store of another object ({'/'.join(sorted(owners)) or 'any bitstring class'}) is installed without a copy: "
                'the two objects now share state, and at least one of them may be mutable')
    if tag == 'PARAM':
        return 'a store received as a parameter is installed without a copy'
    return f'provenance of the installed store cannot be established ({p})'


def rule_A1(ctx):
    """Every install of a _bitstore: fresh, or shared only where a claim follows / both sides are immutable."""
    m = ctx.m
    O = get_ownership(ctx)
    E = O.E
    r = RuleResult('A1', 'every X._bitstore = V site installs a store nobody mutable shares')
    n_sites = 0
    for node in sorted(ctx.callgraph(), key=str):
        f = m.funcs[node[0]]
        edges, selfname = E.edges(node)
        loc = E.locals(node)
        for e in E.direct(node):
            if e.kind != 'install':
                continue
            n_sites += 1
            if node not in O.live:
                r.ok(f'{f.key}:{norm(e.node)}:dead', trivial=True)    # e.g. an overridden method in a subclass context
                continue
            provs = O.prov(e.value, node)
            # expand OWNED(x)
            exp = set()
            for p in provs:
                if p[0] == 'OWNED':
                    x = p[1]
                    sub = set()
                    for b in loc.get(x, ()):
                        if b[0] == 'alloc' and b[2] == 'raw':
                            for d in E.direct(node):
                                if d.kind == 'install' and d.root == x:
                                    sub |= O.prov(d.value, node)
                            for (cn, root, cs) in edges:
                                if root == x:
                                    for (p2, origin) in O.inst(cn):
                                        # judged at its origin when that function also runs on live/constructed objects
                                        if p2[0] == 'FRESH' or not (O.selfkinds.get(origin, set()) - {PRIVATE}):
                                            sub.add(p2)
                        elif b[0] == 'alloc':
                            cls = b[1]
                            sub.add(('FRESH',) if (cls and cls <= MUTABLE) or b[2] == 'copy' else ('MAYBE_SHARED', cls))
                    exp |= sub or {('FRESH',)}
                else:
                    exp.add(p)
            # situations of the target
            sits = []
            binds = loc.get(e.root, set())
            if e.root == selfname and ('self',) in binds:
                ks = O.selfkinds.get(node, set())
                for k in sorted(ks):
                    sits.append((k, frozenset([node[1]]) if node[1] else frozenset(c for c in FAMILY if f.cls in m.mro[c])))
            else:
                for b in binds:
                    if b[0] == 'alloc':
                        fate = O.alloc_fate(f, b[2])
                        sits.append((fate, b[1] or (frozenset([node[1]]) if node[1] else frozenset())))
                    else:
                        sits.append((LIVE, frozenset()))
            if not sits:
                r.ok(f'{f.key}:{norm(e.node)}', trivial=True)     # not reachable with any object kind
                continue
            bad = None
            for (sit, classes) in sits:
                if sit == PRIVATE and e.root == selfname:
                    continue          # private scratch object: accounted for where its store is moved (OWNED)
                for p in sorted(exp, key=str):
                    why = _judge(p, sit if sit != PRIVATE else LIVE, classes)
                    if why:
                        bad = (sit, classes, p, why)
                        break
                if bad:
                    break
            ctxs = f"[self: {node[1]}]" if node[1] else ''
            if bad:
                r.fail(f.key, norm(e.node), f"{bad[3]} (target is {bad[0]}, value provenance {bad[2][0]}; first seen with {ctxs or 'no class context'})",
                       loc=f.loc(e.node), extra={'ctx': node[1], 'prov': str(bad[2])})
            else:
                r.ok(f'{f.key}:{norm(e.node)}', {'instance': f'{f.key} {ctxs}', 'install': norm(e.node)[:70],
                                                 'provenance': sorted({p[0] for p in exp}), 'target': sorted({s for s, _ in sits})})
    if n_sites < 60:
        raise AnalysisError(f'only {n_sites} _bitstore install sites found (floor 60)')
    return r


def rule_A3(ctx):
    """Flag typestate: a store visible through a mutable-class object is never flagged immutable."""
    m = ctx.m
    O = get_ownership(ctx)
    E = O.E
    r = RuleResult('A3', 'the immutable flag is set only on stores of immutable-class objects (or followed by the claim)')
    n = 0
    for node in sorted(ctx.callgraph(), key=str):
        f = m.funcs[node[0]]
        edges, selfname = E.edges(node)
        loc = E.locals(node)
        for e in E.direct(node):
            if e.kind not in ('flag', 'flag-on-store'):
                continue
            n += 1
            val = e.value.value if isinstance(e.value, ast.Constant) else None
            if e.kind == 'flag-on-store':
                # a BitStore local/self inside BitStore or a helper building its own store
                if f.cls == 'BitStore' or all(p[0] == 'FRESH' for p in O.prov(ast.Name(id=e.root, ctx=ast.Load()), node)):
                    r.ok(f'{f.key}:{norm(e.node)}')
                else:
                    r.fail(f.key, e.node, 'sets the sharing flag on a store this function did not create', loc=f.loc(e.node))
                continue
            if val is False:
                # allowed inside the claim, right after installing a private copy
                prev = [d for d in E.direct(node) if d.kind == 'install' and d.root == e.root and d.node.lineno < e.node.lineno
                        and all(p[0] == 'FRESH' for p in O.prov(d.value, node))]
                if prev:
                    r.ok(f'{f.key}:{norm(e.node)}')
                else:
                    r.fail(f.key, e.node, 'clears the immutable flag of a store without first replacing it by a private copy: other '
                           'holders of that store (cache, immutable objects) now see it treated as mutable', loc=f.loc(e.node))
                continue
            if val is not True:
                raise AnalysisError(f'{f.key}: flag write with a non-constant value')
            # value True: which classes can the object have when it becomes visible?
            binds = loc.get(e.root, set())
            classes = set()
            if e.root == selfname and ('self',) in binds:
                if not O.selfkinds.get(node):
                    r.ok(f'{f.key}:{norm(e.node)}:dead', trivial=True)
                    continue
                classes = {node[1]} if node[1] else {c for c in FAMILY if f.cls in m.mro[c]}
            else:
                for b in binds:
                    if b[0] in ('alloc', 'result', 'view'):
                        classes |= set(b[1] if b[0] != 'view' else b[2])
                if not classes and node[1]:
                    classes = {node[1]}
            bad = sorted(c for c in classes if c in MUTABLE)
            if bad and e.root == selfname:
                # fine if every caller is a mutable __init__ that claims after the call (BitStream.__init__)
                callers = [(n2, cs) for n2, es in ctx.callgraph().items() for (cn, cs) in es if cn == node]
                ok = bool(callers)
                for (n2, cs) in callers:
                    g = m.funcs[n2[0]]
                    claim = [x for x in g.node.body if isinstance(x, ast.If) and 'immutable' in ast.unparse(x.test)]
                    # ... or a helper holding the claim, called after this call
                    for x in g.node.body:
                        if isinstance(x, ast.Expr) and isinstance(x.value, ast.Call) and isinstance(x.value.func, ast.Attribute) \
                                and ast.unparse(x.value.func.value) == 'self' and x.lineno > cs.node.lineno:
                            hs = m.winner(n2[1] or node[1], x.value.func.attr) if (n2[1] or node[1]) else []
                            if any(isinstance(y, ast.If) and 'immutable' in ast.unparse(y.test) for h in hs for y in h.node.body):
                                claim = claim + [x]
                    if not (g.name == '__init__' and claim and max(c0.lineno for c0 in claim) > cs.node.lineno):
                        ok = False
                if ok:
                    r.ok(f'{f.key}:{norm(e.node)}[{node[1]}]', reason=True)
                    continue
            if bad:
                r.fail(f.key, norm(e.node), f"flags the store of an object that may be a {'/'.join(bad)} as immutable: "
                       'copy() of that object then returns the very same store, so two mutable objects share state', loc=f.loc(e.node),
                       extra={'ctx': node[1]})
            else:
                r.ok(f'{f.key}:{norm(e.node)}[{node[1]}]')
    if n < 5:
        raise AnalysisError(f'only {n} flag writes found (floor 5)')
    return r


def rule_A4(ctx):
    """Views (results of _create_from_bitstype) are read-only temporaries."""
    m = ctx.m
    O = get_ownership(ctx)
    E = O.E
    r = RuleResult('A4', 'auto-promoted operands are never mutated, re-installed or returned')
    n_views = 0
    for node in sorted(ctx.callgraph(), key=str):
        f = m.funcs[node[0]]
        loc = E.locals(node)
        views = {v for v, bs in loc.items() if any(b[0] == 'view' for b in bs)}
        if not views:
            continue
        edges, selfname = E.edges(node)
        for v in sorted(views):
            n_views += 1
            problems = []
            for d in E.direct(node):
                if d.root == v and d.kind in ('install', 'inplace', 'flag'):
                    problems.append((d.node, f"{d.kind} '{d.detail}' on the promoted operand"))
            for (cn, root, cs) in edges:
                if root == v:
                    eff = E.selfeff(cn)
                    if eff:
                        problems.append((cs.node, f"calls {cn[0]} on it, which changes its receiver ({sorted(eff)[0][2]})"))
            public = not f.name.startswith('_') or (f.name.startswith('__') and f.name.endswith('__'))
            if public and f.name not in m.promoters:
                top_views = [x for x in f.node.body if isinstance(x, ast.Assign) and len(x.targets) == 1 and isinstance(x.targets[0], ast.Name)
                             and x.targets[0].id == v and isinstance(x.value, ast.Call) and isinstance(x.value.func, ast.Attribute)
                             and x.value.func.attr in m.promoters]
                only_view = all(b[0] == 'view' or (b[0] == 'param' and top_views) for b in loc[v])
                for x in own_walk(f.node):
                    if isinstance(x, ast.Return) and isinstance(x.value, ast.Name) and x.value.id == v and only_view:
                        problems.append((x, 'returns the promoted operand itself (it may be the caller\'s own object or wrap the cache)'))
            if problems:
                for (nd, why) in problems:
                    r.fail(f.key, f'{v}: {norm(nd)}', f"'{v}' comes from _create_from_bitstype, i.e. it may BE the caller's argument or wrap the "
                           f'cached/shared store; this code {why}', loc=f.loc(nd))
            else:
                r.ok(f'{f.key}:{v}')
    if n_views < 25:
        raise AnalysisError(f'only {n_views} promoted-operand variables found (floor 25)')
    return r


def rule_A9(ctx):
    """Array: the data buffer installed in an Array is always a fresh BitArray."""
    m = ctx.m
    r = RuleResult('A9', 'Array.data installs are fresh BitArrays (copy, slice, constructor)')
    n = 0
    for f in m.funcs.values():
        if f.mod != 'array_':
            continue
        fa = ctx.R.analyse(f, None)
        for x in own_walk(f.node):
            if isinstance(x, ast.Assign) and any(isinstance(t, ast.Attribute) and t.attr == 'data' for t in x.targets):
                n += 1
                def fresh_expr(v, depth=0):
                    if isinstance(v, ast.Call) and ast.unparse(v.func) in ('BitArray', 'copy.copy', 'copy.deepcopy'):
                        return True
                    if isinstance(v, ast.Subscript) and isinstance(v.slice, ast.Slice):
                        return True     # slicing a BitArray builds a new object (A1: Bits.__getitem__ installs a fresh store)
                    if isinstance(v, ast.Name) and depth < 4 and v.id not in f.params():
                        assigns = [y.value for y in own_walk(f.node) if isinstance(y, ast.Assign) and len(y.targets) == 1
                                   and isinstance(y.targets[0], ast.Name) and y.targets[0].id == v.id]
                        return bool(assigns) and all(fresh_expr(a, depth + 1) for a in assigns)
                    return False
                fresh = fresh_expr(x.value)
                if fresh:
                    r.ok(x)
                else:
                    r.fail(f.key, x, "installs a BitArray that something else still references as an Array's data: the two Arrays (or the "
                           'Array and the caller) then share one buffer', loc=f.loc(x))
    if n < 6:
        raise AnalysisError(f'only {n} Array.data installs found (floor 6)')
    return r


def _ctor_store_not_fresh(ctx, O, cls):
    """For a construction with no initialiser (only `length=`): text of a store expression that __new__ installs on that path and
    whose provenance is not FRESH, or None.  Decided once per class."""
    cache = ctx.__dict__.setdefault('_ctor_fresh', {})
    if cls in cache:
        return cache[cls]
    from .peval import PEval, Unsupported, sym
    m = ctx.m
    out = None
    news = m.winner(cls, '__new__')
    for nw in news:
        try:
            found = []
            for length in (None, sym('length')):
                env = {p: None for p in nw.params()[1:]}
                if nw.node.args.kwarg:
                    env[nw.node.args.kwarg.arg] = {}
                if 'length' in env:
                    env['length'] = length
                pe = PEval(m, nw, env)
                pe.run()
                found += [v for t, v, _s in pe.attr_stores if t.endswith('._bitstore')]
        except (Unsupported, RecursionError):
            raise AnalysisError(f'{nw.key}: cannot follow the no-initialiser path of the constructor (needs a human)')
        if not found:
            raise AnalysisError(f'{nw.key}: no store installed on the no-initialiser path (needs a human)')
        for v in found:
            if any(p[0] != 'FRESH' for p in O.prov(v, ctx.node(nw, cls))):
                out = norm(v)
    cache[cls] = out
    return out


def rule_A10(ctx):
    """A local object that is mutated in place must hold a fresh store (private temporaries really are private)."""
    m = ctx.m
    O = get_ownership(ctx)
    E = O.E
    r = RuleResult('A10', 'in-place effects on local temporaries: the temporary owns a fresh store')

    def obj_fresh(node, depth=0):
        """Does the function return an object whose store is freshly built (all installs on the returned local FRESH)?"""
        f = m.funcs[node[0]]
        loc = E.locals(node)
        rets = [x.value for x in own_walk(f.node) if isinstance(x, ast.Return) and x.value is not None]
        if not rets:
            return False
        for v in rets:
            if not isinstance(v, ast.Name):
                return False
            if v.id in ('self',) or ('self',) in loc.get(v.id, ()):
                return False
            installs = [d for d in E.direct(node) if d.kind == 'install' and d.root == v.id]
            if not installs:
                return False
            for d in installs:
                if any(p[0] != 'FRESH' for p in O.prov(d.value, node)):
                    return False
        return True

    n = 0
    for node in sorted(O.live, key=str):
        f = m.funcs[node[0]]
        if f.cls not in FAMILY:
            continue
        edges, selfname = E.edges(node)
        loc = E.locals(node)
        mutated = {}
        for d in E.direct(node):
            if d.kind == 'inplace' and d.root != selfname:
                mutated.setdefault(d.root, d.node)
        for (cn, root, cs) in edges:
            if root is not None and root != selfname and E.selfeff(cn):
                mutated.setdefault(root, cs.node)
        for x, site in mutated.items():
            binds = loc.get(x, set())
            for b in binds:
                if b[0] != 'alloc':
                    continue
                n += 1
                ok = True
                why = ''
                if b[2] == 'ctor' and node[1] in IMMUTABLE:
                    for y in own_walk(f.node):
                        if isinstance(y, ast.Assign) and isinstance(y.targets[0], ast.Name) and y.targets[0].id == x and isinstance(y.value, ast.Call):
                            call = y.value
                            if call.args or any(k.arg not in ('length',) for k in call.keywords):
                                ok = False
                                why = (f"{norm(call)} builds an immutable {node[1]} from another value: an immutable object shares the store of what it is "
                                       'built from (a Bits operand, the string cache)')
                if ok and b[2] == 'ctor' and node[1] in IMMUTABLE:
                    # `cls(length=n)` / `cls()`: the store the constructor installs for that call shape must be built there (not a
                    # shared one taken from a cache of zero-filled stores, say) - evaluated over __new__ with the arguments absent
                    bad = _ctor_store_not_fresh(ctx, O, node[1])
                    if bad is not None:
                        ok = False
                        why = (f"the constructor gives it the store {bad}, which is not built for this object alone")
                if b[2] == 'copy':
                    # find the call that produced it
                    for y in own_walk(f.node):
                        if isinstance(y, (ast.Assign, ast.NamedExpr)):
                            tg = y.targets[0] if isinstance(y, ast.Assign) else y.target
                            vals = [y.value.body, y.value.orelse] if isinstance(y.value, ast.IfExp) else [y.value]
                            if isinstance(tg, ast.Name) and tg.id == x:
                                for v in vals:
                                    for cs in ctx.fa(node).calls:
                                        if cs.node is v:
                                            for (g, c) in cs.targets:
                                                if g.name in ('__new__', '__init__'):
                                                    continue
                                                if not obj_fresh(ctx.node(g, c)):
                                                    ok = False
                                                    why = f"{g.key} does not return an object with a freshly built store"
                if ok:
                    r.ok(f'{f.key}:{x}')
                else:
                    r.fail(f.key, f'{x} mutated: {norm(site)}', f"'{x}' is treated as a private temporary and mutated in place, but {why}: "
                           'the mutation reaches the original object (or the cache)', loc=f.loc(site))
    if n < 10:
        raise AnalysisError(f'only {n} mutated temporaries found (floor 10)')
    return r


def rule_A11(ctx):
    """Non-in-place public operations of the mutable classes never return the receiver (or an operand) itself."""
    m = ctx.m
    E = get_effects(ctx)
    r = RuleResult('A11', 'operators, slicing and copies of mutable classes return new objects, never self or an operand')
    n = 0
    # ConstBitStream is immutable in content but carries a position: an operation handing back the receiver itself hands out
    # that position too (reading from the "copy" moves the original), and C06 wants every returned stream to start at 0
    for c in sorted(MUTABLE) + ['ConstBitStream']:
        for name, f in public_roots(ctx, c):
            if f.is_classmethod() or f.is_staticmethod() or name in ('__new__', '__init__'):
                continue
            if name.startswith('__i') and name.endswith('__') and name not in ('__iter__', '__invert__', '__index__', '__int__'):
                continue      # in-place operators return self by protocol
            node = ctx.node(f, c)
            fa = ctx.fa(node)
            loc = E.locals(node)
            selfname = f.params()[0] if f.params() else 'self'
            for (ret, tags) in fa.returns:
                if not (tags & set(FAMILY)) or ret.value is None:
                    continue
                n += 1
                vals = [ret.value.body, ret.value.orelse] if isinstance(ret.value, ast.IfExp) else [ret.value]
                for v in vals:
                    bad = None
                    if isinstance(v, ast.Name):
                        if E.resolve_alias(node, v.id, selfname) == selfname:
                            bad = 'the receiver itself'
                        else:
                            binds = loc.get(v.id, set())
                            if binds and all(b[0] in ('param', 'view') for b in binds):
                                bad = 'an operand (possibly the caller\'s own object)'
                    if bad:
                        what = ("the 'new' stream and the original are one object with one bit position, so reading from either moves the other "
                                "(and the returned stream does not start at 0)" if c == 'ConstBitStream' else
                                "the 'new' bitstring and the original are one mutable object, so mutating either changes the other")
                        r.fail(f.key, f'{c}.{name}: {norm(ret)}', f"{c}.{name} returns {bad}: {what}", loc=f.loc(ret),
                               extra={'ctx': c, 'props': ['C06', 'C04', 'C08', 'C16', 'C01']} if c == 'ConstBitStream' else {'ctx': c})
                    else:
                        r.ok(f'{c}.{name}:{norm(ret)}')
    if n < 40:
        raise AnalysisError(f'only {n} bitstring-valued returns examined (floor 40)')
    return r

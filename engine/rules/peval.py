"""A small partial evaluator for straight-line codec helpers.

Given a function and concrete values for some of its names (e.g. length=32, big_endian=True) it walks every path the
known values leave open, follows calls of module-level helpers of the package (bounded depth), and records the calls of
interest (struct.pack / struct.unpack) with the values their arguments have on that path, plus what each path returns.
Values are Python constants, or tagged tuples:

    ('sym', text)                      unknown run-time value
    ('call', name, args)               result of a library call we only name (e.g. struct.pack)
    ('slice', base, lo, hi)            base[lo:hi]
    ('either', a, b)                   value depends on an unknown test

Nothing is executed: this is a syntax-directed walk with a value environment.  Anything outside the supported subset raises
Unsupported, which the calling rule reports as "not decidable here" (an analysis error), never as a violation.
"""
from __future__ import annotations

import ast


class Unsupported(Exception):
    pass


def sym(text):
    return ('sym', text)


def is_const(v):
    return not isinstance(v, tuple) or (isinstance(v, tuple) and (not v or v[0] not in ('sym', 'call', 'slice', 'either')))


class PEval:
    def __init__(self, model, func, env, depth=0, sink=None):
        self.m, self.f, self.depth = model, func, depth
        self.env = dict(env)
        self.calls = sink if sink is not None else []      # (name, [values], node, func key)
        self.returns = []
        self.return_envs = []       # the environment at each `return` reached, parallel to returns
        self.attr_stores = []       # (target text, value node, statement) of the attribute assignments reached

    _MUTATORS = {'append', 'extend', 'insert', 'update', 'setdefault', 'add', 'pop', 'popitem', 'clear', 'remove', 'discard', 'sort', 'reverse'}

    def _mutated(self, name):
        """A dict/list literal that some code of the package writes into is a cache, not a constant: its content is not known."""
        mu = getattr(self.m, '_peval_mutated', None)
        if mu is None:
            mu = set()
            def tail(x):
                return x.id if isinstance(x, ast.Name) else x.attr if isinstance(x, ast.Attribute) else None
            for mod, tree in self.m.mods.items():
                if mod == 'luts':
                    continue
                for x in ast.walk(tree):
                    if isinstance(x, ast.Subscript) and isinstance(x.ctx, (ast.Store, ast.Del)) and tail(x.value):
                        mu.add(tail(x.value))
                    elif isinstance(x, ast.Call) and isinstance(x.func, ast.Attribute) and x.func.attr in self._MUTATORS and tail(x.func.value):
                        mu.add(tail(x.func.value))
                    elif isinstance(x, ast.AugAssign) and tail(x.target):
                        mu.add(tail(x.target))
            try:
                self.m._peval_mutated = mu
            except Exception:
                pass
        return name in mu

    # ------------------------------------------------------------------ expressions
    def ev(self, e, env):
        if isinstance(e, ast.Constant):
            return e.value
        if isinstance(e, ast.Name):
            if e.id in env:
                return env[e.id]
            g = self.m.modglobals.get(self.f.mod, {}).get(e.id)
            if isinstance(g, (ast.Constant, ast.Dict, ast.Tuple, ast.List)) and not (isinstance(g, (ast.Dict, ast.List)) and self._mutated(e.id)):
                return self.ev(g, {})
            return sym(e.id)
        if isinstance(e, ast.Attribute):
            txt = ast.unparse(e)
            if txt in env:
                return env[txt]
            # a class-level literal read through cls / self
            if isinstance(e.value, ast.Name) and e.value.id in ('cls', 'self') and getattr(self.f, 'cls', None) in self.m.classes:
                for c_ in self.m.mro.get(self.f.cls, [self.f.cls]):
                    v_ = self.m.classes[c_].attrs.get(e.attr) if c_ in self.m.classes else None
                    if isinstance(v_, (ast.Constant, ast.Dict, ast.Tuple, ast.List)) and not (isinstance(v_, (ast.Dict, ast.List)) and self._mutated(e.attr)):
                        return self.ev(v_, {})
            # module.global
            if isinstance(e.value, ast.Name) and e.value.id in self.m.mods:
                g = self.m.modglobals.get(e.value.id, {}).get(e.attr)
                if isinstance(g, (ast.Constant, ast.Dict, ast.Tuple, ast.List)) and not (isinstance(g, (ast.Dict, ast.List)) and self._mutated(e.attr)):
                    return PEval(self.m, _modfunc_stub(self.m, e.value.id, self.f), {}).ev(g, {})
            return sym(txt)
        if isinstance(e, ast.Dict):
            try:
                out = {}
                for k, v in zip(e.keys, e.values):
                    if k is None:                      # {**other, ...}
                        inner = self.ev(v, env)
                        if not isinstance(inner, dict):
                            return sym(ast.unparse(e)[:40])
                        out.update(inner)
                    else:
                        out[self._hashable(self.ev(k, env))] = self.ev(v, env)
                return out
            except TypeError:
                return sym(ast.unparse(e)[:40])
        if isinstance(e, (ast.Tuple, ast.List)):
            return tuple(self.ev(x, env) for x in e.elts)
        if isinstance(e, ast.JoinedStr):
            out = ''
            for v in e.values:
                if isinstance(v, ast.Constant) and isinstance(v.value, str):
                    out += v.value
                elif isinstance(v, ast.FormattedValue) and v.conversion == -1 and v.format_spec is None:
                    pv = self.ev(v.value, env)
                    if is_const(pv) and isinstance(pv, str):
                        out += pv
                    else:
                        return sym('fstring')
                else:
                    return sym('fstring')
            return out
        if isinstance(e, ast.UnaryOp):
            v = self.ev(e.operand, env)
            if is_const(v):
                if isinstance(e.op, ast.Not):
                    return not v
                if isinstance(e.op, ast.USub):
                    return -v
            return sym(ast.unparse(e)[:40])
        if isinstance(e, ast.BoolOp):
            vals = [self.ev(v, env) for v in e.values]
            if all(is_const(v) for v in vals):
                out = vals[0]
                for v in vals[1:]:
                    out = (out and v) if isinstance(e.op, ast.And) else (out or v)
                return out
            if isinstance(e.op, ast.And) and any(is_const(v) and not v for v in vals):
                return False
            if isinstance(e.op, ast.Or) and any(is_const(v) and v for v in vals):
                return True
            return sym(ast.unparse(e)[:40])
        if isinstance(e, ast.Compare) and len(e.ops) == 1:
            a, b = self.ev(e.left, env), self.ev(e.comparators[0], env)
            if is_const(a) and is_const(b):
                op = e.ops[0]
                try:
                    return {ast.Eq: lambda: a == b, ast.NotEq: lambda: a != b, ast.Lt: lambda: a < b, ast.LtE: lambda: a <= b,
                            ast.Gt: lambda: a > b, ast.GtE: lambda: a >= b, ast.In: lambda: a in b, ast.NotIn: lambda: a not in b,
                            ast.Is: lambda: a is b, ast.IsNot: lambda: a is not b}[type(op)]()
                except (TypeError, KeyError):
                    pass
            return sym(ast.unparse(e)[:40])
        if isinstance(e, ast.BinOp):
            a, b = self.ev(e.left, env), self.ev(e.right, env)
            if is_const(a) and is_const(b):
                try:
                    return {ast.Add: lambda: a + b, ast.Sub: lambda: a - b, ast.Mult: lambda: a * b, ast.FloorDiv: lambda: a // b,
                            ast.Mod: lambda: a % b, ast.LShift: lambda: a << b, ast.RShift: lambda: a >> b, ast.BitOr: lambda: a | b,
                            ast.BitAnd: lambda: a & b, ast.BitXor: lambda: a ^ b,
                            ast.Pow: lambda: a ** b if isinstance(b, int) and (abs(b) < 64 or (isinstance(a, float) and abs(b) < 1100)) else None}[type(e.op)]()
                except (TypeError, KeyError, ZeroDivisionError):
                    pass
            return sym(ast.unparse(e)[:40])
        if isinstance(e, ast.IfExp):
            t = self.ev(e.test, env)
            if is_const(t):
                return self.ev(e.body if t else e.orelse, env)
            return ('either', self.ev(e.body, env), self.ev(e.orelse, env))
        if isinstance(e, ast.Subscript):
            base = self.ev(e.value, env)
            if isinstance(e.slice, ast.Slice):
                lo = self.ev(e.slice.lower, env) if e.slice.lower is not None else None
                hi = self.ev(e.slice.upper, env) if e.slice.upper is not None else None
                st = self.ev(e.slice.step, env) if e.slice.step is not None else None
                if is_const(base) and isinstance(base, (str, bytes, tuple)) and (lo is None or isinstance(lo, int)) and (hi is None or isinstance(hi, int)) \
                        and (st is None or isinstance(st, int)):
                    return base[lo:hi:st]
                return ('slice', base, lo, hi) if st is None else ('slice', base, lo, hi, st)
            k = self.ev(e.slice, env)
            if isinstance(k, tuple) and k and k[0] == 'sliceobj':
                # x[slice(lo, hi, step)] is x[lo:hi:step]
                lo, hi, st = k[1], k[2], k[3]
                if is_const(base) and isinstance(base, (str, bytes, tuple)):
                    return base[lo:hi:st]
                return ('slice', base, lo, hi) if st is None else ('slice', base, lo, hi, st)
            if isinstance(base, dict) and is_const(k):
                if self._hashable(k) in base:
                    return base[self._hashable(k)]
                return sym(f'KeyError({k})')
            if isinstance(base, tuple) and is_const(base) and isinstance(k, int) and -len(base) <= k < len(base):
                return base[k]
            return sym(ast.unparse(e)[:40])
        if isinstance(e, ast.Call):
            return self.call(e, env)
        return sym(ast.unparse(e)[:40])

    @staticmethod
    def _hashable(v):
        hash(v)
        return v

    def call(self, e, env):
        name = ast.unparse(e.func)
        args = [self.ev(a, env) for a in e.args]
        kw = {k.arg: self.ev(k.value, env) for k in e.keywords if k.arg}
        if name == 'len' and len(e.args) == 1:
            key = f'len({ast.unparse(e.args[0])})'
            if key in env:
                return env[key]
            if is_const(args[0]) and hasattr(args[0], '__len__'):
                return len(args[0])
            return sym(key)
        if ast.unparse(e) in env:
            return env[ast.unparse(e)]            # a call whose value the caller of the evaluator fixes (e.g. self._getuint())
        if name == 'float' and len(args) == 1 and isinstance(args[0], str) and args[0].lstrip('+-').lower() in ('nan', 'inf', 'infinity'):
            return float(args[0])
        if name == 'slice' and 1 <= len(args) <= 3 and not kw and all(a is None or (isinstance(a, int) and not isinstance(a, bool)) for a in args):
            lo, hi, st = (None, args[0], None) if len(args) == 1 else (args[0], args[1], args[2] if len(args) == 3 else None)
            return ('sliceobj', lo, hi, st)
        if name == 'bool' and len(args) == 1 and is_const(args[0]) and isinstance(args[0], (bool, int, str, type(None))):
            return bool(args[0])
        if name == 'int' and len(args) == 1 and is_const(args[0]) and isinstance(args[0], (bool, int)):
            return int(args[0])
        if name == 'str' and len(args) == 1 and is_const(args[0]) and isinstance(args[0], str):
            return args[0]
        if name in ('float', 'int', 'bool', 'str') and len(args) == 1:
            return args[0] if not is_const(args[0]) else sym(f'{name}(..)')
        if isinstance(e.func, ast.Attribute) and e.func.attr == 'get' and 1 <= len(args) <= 2:
            base = self.ev(e.func.value, env)
            if isinstance(base, dict) and is_const(args[0]):
                try:
                    return base.get(self._hashable(args[0]), args[1] if len(args) > 1 else None)
                except TypeError:
                    pass
        if name == 'dict.fromkeys' and 1 <= len(args) <= 2 and (isinstance(args[0], dict) or (is_const(args[0]) and isinstance(args[0], tuple))):
            try:
                return dict.fromkeys([self._hashable(k) for k in args[0]], args[1] if len(args) > 1 else None)
            except TypeError:
                pass
        if isinstance(e.func, ast.Attribute) and e.func.attr in ('items', 'keys', 'values') and not args:
            base = self.ev(e.func.value, env)
            if isinstance(base, dict):
                return tuple(getattr(base, e.func.attr)())
        if name == 'dict' and len(args) == 1 and isinstance(args[0], dict) and not kw:
            return dict(args[0])
        if name == 'getattr' and len(args) == 2 and isinstance(args[1], str) and isinstance(args[0], tuple) and args[0] and args[0][0] == 'sym':
            return sym(f'{args[0][1]}.{args[1]}')
        if name == 'reversed' and len(args) == 1 and is_const(args[0]) and isinstance(args[0], tuple):
            return tuple(reversed(args[0]))
        if name in ('tuple', 'list') and len(args) == 1 and is_const(args[0]) and isinstance(args[0], tuple):
            return tuple(args[0])
        if name == 'setattr' and len(args) == 3:
            self.calls.append(('setattr', args, e, self.f.key))
            if isinstance(args[1], str):
                env[f'{ast.unparse(e.args[0])}.{args[1]}'] = args[2]     # the statement evaluator hands us the path's own environment
            return None
        if name in ('struct.pack', 'struct.unpack', 'struct.calcsize'):
            self.calls.append((name, args, e, self.f.key))
            return ('call', name, tuple(args))
        # helpers of the package, module level, bounded depth
        g = None
        if isinstance(e.func, ast.Name) and isinstance(env.get(e.func.id), tuple) and len(env[e.func.id]) == 2 and env[e.func.id][0] == 'sym':
            # a local holding a function of the package (`enc = helpers.a2b if flag else helpers.b2b; enc(x)`)
            ref = env[e.func.id][1].split('.')
            if len(ref) >= 2 and ref[-2] in self.m.mods:
                g = self.m.modfuncs.get(ref[-2], {}).get(ref[-1])
            elif len(ref) == 1:
                g = self.m.modfuncs.get(self.f.mod, {}).get(ref[0])
        if g is not None:
            pass
        elif isinstance(e.func, ast.Name):
            g = self.m.modfuncs.get(self.f.mod, {}).get(e.func.id)
        elif isinstance(e.func, ast.Attribute) and isinstance(e.func.value, ast.Name) and e.func.value.id in self.m.mods:
            g = self.m.modfuncs.get(e.func.value.id, {}).get(e.func.attr)
        elif isinstance(e.func, ast.Attribute) and isinstance(e.func.value, ast.Name) and e.func.value.id == 'self' and self.f.cls:
            kind, p = self.m.lookup(self.f.cls, e.func.attr)
            if kind == 'method' and len(p) == 1:
                g = p[0]
        if g is not None and self.depth < 3 and not g.is_cached() and g.key != self.f.key:
            params = g.params()
            if g.cls and not g.is_staticmethod():
                params = params[1:]
            a = g.node.args
            defaults = dict(zip([x.arg for x in (a.posonlyargs + a.args)][-len(a.defaults):], a.defaults)) if a.defaults else {}
            bind = {}
            for p, v in zip(params, args):
                bind[p] = v
            bind.update(kw)
            for p in params:
                if p not in bind and p in defaults:
                    bind[p] = PEval(self.m, g, {}).ev(defaults[p], {})
            for k2, v2 in env.items():
                if k2.startswith('len(self') and g.cls:
                    bind.setdefault(k2, v2)
            sub = PEval(self.m, g, bind, self.depth + 1, self.calls)
            sub.run()
            vals = [v for v in sub.returns]
            if len(vals) == 1:
                return vals[0]
            if len(vals) == 2:
                return ('either', vals[0], vals[1])
            return ('call', name, tuple(args))
        return ('call', name, tuple(args))

    # ------------------------------------------------------------------ statements
    def run(self):
        body = [s for s in self.f.node.body if not (isinstance(s, ast.Expr) and isinstance(s.value, ast.Constant))]
        self.final_envs = self.block(body, dict(self.env))
        return self

    def block(self, stmts, env):
        """Returns the environments that fall off the end of the block (paths that returned or raised are dropped)."""
        envs = [env]
        for s in stmts:
            nxt = []
            for en in envs:
                nxt.extend(self.stmt(s, en))
            envs = nxt
            if not envs:
                break
            if len(envs) > 64:
                raise Unsupported('too many paths')
        return envs

    def stmt(self, s, env):
        if isinstance(s, ast.Assign):
            v = self.ev(s.value, env)
            env = dict(env)
            for t in s.targets:
                if isinstance(t, ast.Attribute):
                    self.attr_stores.append((ast.unparse(t), s.value, s))     # which attribute stores the known values let through
            for t in s.targets:
                if isinstance(t, ast.Name):
                    env[t.id] = v
                elif isinstance(t, (ast.Tuple, ast.List)) and isinstance(v, tuple) and is_const(v) and len(v) == len(t.elts):
                    for tt, vv in zip(t.elts, v):
                        if isinstance(tt, ast.Name):
                            env[tt.id] = vv
                        else:
                            env[ast.unparse(tt)] = vv
                elif isinstance(t, (ast.Tuple, ast.List)):
                    for tt in t.elts:
                        if isinstance(tt, ast.Name):
                            env[tt.id] = sym(tt.id)
                else:
                    env[ast.unparse(t)] = v
            return [env]
        if isinstance(s, ast.AnnAssign):
            if s.value is not None and isinstance(s.target, ast.Name):
                env = dict(env)
                env[s.target.id] = self.ev(s.value, env)
            return [env]
        if isinstance(s, ast.AugAssign):
            env = dict(env)
            if isinstance(s.target, ast.Name):
                env[s.target.id] = self.ev(ast.BinOp(left=ast.Name(id=s.target.id, ctx=ast.Load()), op=s.op, right=s.value), env)
            return [env]
        if isinstance(s, ast.Expr):
            env = dict(env)
            self.ev(s.value, env)
            return [env]
        if isinstance(s, ast.Return):
            self.returns.append(self.ev(s.value, env) if s.value is not None else None)
            self.return_envs.append(env)
            return []
        if isinstance(s, ast.Raise):
            return []
        if isinstance(s, (ast.Pass, ast.Assert, ast.Import, ast.ImportFrom, ast.Global, ast.Nonlocal, ast.Delete)):
            return [env]
        if isinstance(s, ast.If):
            t = self.ev(s.test, env)
            if is_const(t):
                return self.block(s.body if t else s.orelse, env)
            return self.block(s.body, dict(env)) + self.block(s.orelse, dict(env))
        if isinstance(s, ast.Try):
            out = self.block(s.body, dict(env))
            for h in s.handlers:
                out += self.block(h.body, dict(env))
            if s.orelse:
                nxt = []
                for en in out:
                    nxt += self.block(s.orelse, en)
                out = nxt
            if s.finalbody:
                nxt = []
                for en in out:
                    nxt += self.block(s.finalbody, en)
                out = nxt
            return out
        if isinstance(s, ast.With):
            return self.block(s.body, env)
        if isinstance(s, ast.For) and not s.orelse:
            it = self.ev(s.iter, env)
            if isinstance(it, dict):
                it = tuple(it.keys())
            if not (is_const(it) and isinstance(it, tuple) and len(it) <= 64) or \
                    any(isinstance(y, (ast.Break, ast.Continue)) for b in s.body for y in ast.walk(b)):
                raise Unsupported(f'{self.f.key}: loop over a value that is not a known table')
            envs = [env]
            for item in it:
                nxt = []
                for en in envs:
                    en = dict(en)
                    if isinstance(s.target, ast.Name):
                        en[s.target.id] = item
                    elif isinstance(s.target, (ast.Tuple, ast.List)) and isinstance(item, tuple) and len(item) == len(s.target.elts) \
                            and all(isinstance(t, ast.Name) for t in s.target.elts):
                        for t, v in zip(s.target.elts, item):
                            en[t.id] = v
                    else:
                        raise Unsupported(f'{self.f.key}: loop target shape')
                    nxt.extend(self.block(s.body, en))
                envs = nxt
                if len(envs) > 64:
                    raise Unsupported('too many paths')
            return envs
        raise Unsupported(f'{self.f.key}: statement {type(s).__name__} is outside the partial evaluator')


class _Stub:
    pass


def _modfunc_stub(model, mod, like):
    st = _Stub()
    st.mod, st.cls, st.key, st.node = mod, None, f'{mod}:<module>', like.node
    return st


def struct_formats(model, func, env):
    """All (format value, call node, function key) reached for struct.pack/unpack when ``func`` runs under ``env``, and the
    values returned."""
    pe = PEval(model, func, env)
    pe.run()
    return [(c[1][0] if c[1] else None, c[2], c[3]) for c in pe.calls if c[0] in ('struct.pack', 'struct.unpack')], pe.returns

"""C12: G2 (no bypass / no mixing of msb0 positions with switched accessors), G3 (mode independence of whole-value
operations), E8 (the two variants of a slot accept the same argument kinds)."""
from __future__ import annotations

import ast

from ..core import own_walk
from ..model import AnalysisError, FAMILY
from ..report import RuleResult, norm
from . import guards as G
from .config import slot_call

POSITION_SLOTS = {'getindex', 'getslice', 'getslice_withstep', '__setitem__', '__delitem__', 'invert', '_find', '_rfind', '_findall',
                  '_ror', '_rol', '_append', '_prepend'}

# (operation, slot) -> reason the mode-switched call cannot change the operation's result
G3_REASONS = {
    ('bits:Bits._getbool', 'getindex'): "bool has the single allowed length 1: bit 0 of a 1-bit value is the same bit in both modes",
    ('bits:Bits._getsie', 'getindex'): '_readsie indexes only after _readuie returned, and _readuie refuses lsb0 mode',
    ('bits:Bits._getbool', 'getslice_withstep'): 'slice branch of __getitem__, not taken for the integer index 0',
    ('bits:Bits._getsie', 'getslice_withstep'): 'slice branch of __getitem__, not taken for an integer index',
}

VARIANT_REFS_ALLOWED = {
    'bits:Bits._absolute_slice': 'absolute by contract (name and docstring)',
    'bits:Bits._truncateleft': 'absolute: removes bits at the most significant end',
    'bits:Bits._truncateright': 'absolute: removes bits at the least significant end',
    'bits:Bits._setbytes_with_truncation': 'ingest offset/length are absolute positions in the source',
    'bits:Bits._setfile': 'ingest offset/length are absolute positions in the source',
    'bits:Bits._setauto': 'ingest offset/length are absolute positions in the source (BytesIO)',
    'bits:Bits.__hash__': 'hash must not depend on the mode: absolute prefix/suffix',
    'bitstore:BitStore.find': 'store-level search works on absolute positions',
    'bitstore:BitStore.rfind': 'store-level search works on absolute positions',
    'bits:Bits._findall_msb0': 'msb0 variant calling the store-level absolute search',
    'bits:Bits._find_lsb0': 'lsb0 variant: converts the window, searches absolutely, converts the result back',
    'bits:Bits._rfind_lsb0': 'lsb0 variant: converts the window, searches absolutely, converts the result back',
    'bits:Bits._findall_lsb0': 'lsb0 variant: converts the window, searches absolutely, converts the results back',
    'bitstring_options:Options.set_lsb0': 'the switch itself',
    'bits:Bits.split': "split is not among the operations C12 lists as mirrored, and its lsb0 behaviour (msb0 search order, chunks "
                       "sliced through the mirror) is pinned by the project's own test TestLsb0Setting.test_split",
}


def _variant_names(m):
    out = set()
    for (c, s), modes in m.slots.items():
        for mode, (vc, vf) in modes.items():
            out.add(vf)
    out |= {'findall_msb0', 'rfindall_msb0'}
    return out


def _lsb0_refusal(f):
    g = G.find_guard(f, lambda t: ast.unparse(t) in ('bitstring.options.lsb0', 'options.lsb0', 'bitstring.options.lsb0 is True'))
    return g is not None


def rule_G2(ctx):
    """Position-taking code goes through the mirror: no direct variant references outside the sanctioned absolute sites,
    and positions found by an msb0 search are never fed to a switched accessor."""
    m = ctx.m
    r = RuleResult('G2', 'no bypass of the lsb0 mirror; msb0 positions are not mixed with switched accessors')
    variants = _variant_names(m)
    for f in m.funcs.values():
        refs = [x for x in own_walk(f.node) if isinstance(x, ast.Attribute) and x.attr in variants]
        if f.name in variants:
            refs = [x for x in refs if x.attr != f.name]
        if not refs:
            continue
        own_variant = f.name in variants
        for x in refs:
            if ctx.reason_key(VARIANT_REFS_ALLOWED, f.key) is not None or (own_variant and f.name.endswith('_lsb0')) or f.cls == 'BitStore' and own_variant:
                r.ok(f'{f.key}:{x.attr}', reason=True)
            else:
                # mixing?  the function also uses a switched accessor on self
                switched = [y for y in own_walk(f.node) if isinstance(y, ast.Call) and isinstance(y.func, ast.Attribute)
                            and y.func.attr in ('_slice', 'getslice', 'getindex', 'getslice_withstep') and ast.unparse(y.func.value) in ('self', 'self._bitstore')]
                switched += [y for y in own_walk(f.node) if isinstance(y, ast.Subscript) and ast.unparse(y.value) in ('self', 'self._bitstore')]
                if switched and x.attr.startswith(('_find', '_rfind', 'find', 'rfind')):
                    r.fail(f.key, f'{x.attr} + {norm(switched[0])[:40]}', f"{f.name} searches with the absolute (msb0) variant {x.attr} and then uses the "
                           f"positions it returns with the mode-switched accessor {norm(switched[0].func if isinstance(switched[0], ast.Call) else switched[0])[:30]}: "
                           'under lsb0 the two disagree about which end position 0 is', loc=f.loc(x))
                else:
                    r.fail(f.key, f'direct reference to {x.attr}', f"{f.name} calls the {x.attr} variant directly, bypassing the slot that options.lsb0 "
                           'switches: this position-taking operation no longer mirrors under lsb0 (or always mirrors under msb0)', loc=f.loc(x))
    return r


def rule_G3(ctx):
    """Whole-value interpretations, ==, hash, len, tobytes are computed without mode-dependent position arguments."""
    m = ctx.m
    r = RuleResult('G3', 'whole-value operations reach no mode-switched accessor with a position argument')
    ops = []
    for e in m.registry:
        for role in ('get_fn', 'set_fn'):
            f = m.func_by_dotted(e[role]) if e[role] else None
            if f is not None:
                ops.append((f"{e['name']}.{role[:3]}", f))
    for name in ('__eq__', '__ne__', '__hash__', '__len__', 'tobytes', '__bytes__'):
        for f in m.winner('Bits', name):
            ops.append((name, f))
    # shifts keep their direction relative to the most significant end; bit-wise operators act on whole values
    for name in ('__lshift__', '__rshift__', '__ilshift__', '__irshift__', '__invert__', '__and__', '__or__', '__xor__',
                 '__iand__', '__ior__', '__ixor__'):
        for f in m.winner('BitArray', name):
            ops.append((name, f))
    # concatenation puts the left operand's bits first in both modes (s.bin of a + b is a.bin + b.bin): whichever class
    # implements it, it must not go through the mode-switched append/prepend
    for name in ('__add__', '__radd__'):
        for c_ in ('Bits', 'BitArray', 'ConstBitStream', 'BitStream'):
            for f in m.winner(c_, name):
                ops.append((name, f))
    seen_ops = set()
    for opname, f in ops:
        if f.key in seen_ops:
            continue
        seen_ops.add(f.key)
        if _lsb0_refusal(f):
            r.ok(f'{opname}', {'instance': f.key, 'verdict': 'refuses lsb0 mode up front'})
            continue
        roots = [ctx.node(f, c) for c in ('Bits', 'BitStream') if f.cls in m.mro[c]]

        def edge_ok(n, c, cs):
            g = m.funcs[c[0]]
            if g.name in ('__new__', '__init__', '_initialise') or g.name in m.promoters:
                return False     # construction of operand objects: the stored bit order of every route is E5's business
            return not _lsb0_refusal(g)       # code behind an lsb0 refusal runs in msb0 only
        parent = ctx.reachable(roots, edge_filter=edge_ok)
        bad = None
        for n in parent:
            g = m.funcs[n[0]]
            for cs in ctx.fa(n).calls:
                if not slot_call(ctx, cs) or cs.name not in POSITION_SLOTS:
                    continue
                if ctx.reason_key(G3_REASONS, f.key, cs.name) is not None:
                    continue
                if _whole_range(ctx, g, cs, parent):
                    continue
                bad = (n, cs)
                break
            if bad:
                break
            for opt, node in ctx.option_reads(g, n[1]):
                if opt == 'lsb0' and not _lsb0_refusal(g):
                    bad = (n, None, node)
                    break
            if bad:
                break
        if bad:
            n = bad[0]
            g = m.funcs[n[0]]
            what = f"calls the mode-switched {bad[1].name} with a position argument ({norm(bad[1].node)[:50]})" if bad[1] is not None else 'reads options.lsb0'
            r.fail(f.key, f'{opname}: {g.key.split(":")[1]} {bad[1].name if bad[1] is not None else "lsb0"}',
                   f"{opname} must give the same result in both bit-numbering modes, but {g.key} {what} "
                   f"(path: {ctx.fmt_path(ctx.path_to(parent, n))})", loc=g.loc(bad[1].node if bad[1] is not None else bad[2]))
        else:
            r.ok(f'{opname}', {'instance': f.key, 'reachable_functions': len(parent), 'mode_dependent_calls': 0})
    if len(seen_ops) < 55:
        raise AnalysisError(f'only {len(seen_ops)} whole-value operations examined (floor 55)')
    return r


def _whole_range(ctx, g, cs, parent):
    """The switched accessor is applied to the whole store: no position arguments, or (None, None) defaults of the
    enclosing helper that every reachable caller leaves unset."""
    node = cs.node
    args = []
    if isinstance(node, ast.Call):
        args = list(node.args) + [k.value for k in node.keywords]
    elif isinstance(node, ast.Subscript):
        args = [node.slice]
    else:
        args = [a for a in cs.args if a is not None]      # del x[k] / x[k] = v / augmented forms
    if cs.name in ('__setitem__', '__delitem__', 'getindex') and not args:
        return False
    if not args:
        return True
    params = {a.arg: d for a, d in zip(reversed(g.node.args.args), reversed(g.node.args.defaults))}
    for a in args:
        if isinstance(a, ast.Constant) and a.value is None:
            continue
        if isinstance(a, ast.Name) and a.id in params and isinstance(params[a.id], ast.Constant) and params[a.id].value is None:
            # every reachable caller must leave it unset
            for n2, (p, pcs) in ((k, v) for k, v in parent.items() if v is not None):
                if n2[0] == g.key and isinstance(pcs.node, ast.Call) and (pcs.node.args or pcs.node.keywords):
                    return False
            continue
        return False
    return True


def rule_E8(ctx):
    """The msb0 and lsb0 variants of a slot dereference their parameters under the same type tests."""
    m = ctx.m
    r = RuleResult('E8', 'variants of one switched slot accept the same argument kinds')
    n = 0
    for (c, s), modes in sorted(m.slots.items()):
        if 'msb0' not in modes or 'lsb0' not in modes:
            n += 1
            continue      # G1 reports the incomplete table
        fa = m.classes[modes['msb0'][0]].methods.get(modes['msb0'][1])
        fb = m.classes[modes['lsb0'][0]].methods.get(modes['lsb0'][1])
        if fa is None or fb is None:
            continue
        n += 1
        pa, pb = fa.params()[1:], fb.params()[1:]
        problems = []
        for i, (x, y) in enumerate(zip(pa, pb)):
            da, db = _derefs(fa, x), _derefs(fb, y)
            for attr in set(da) | set(db):
                ga, gb = da.get(attr), db.get(attr)
                # one variant dereferences the parameter only behind an isinstance test, the other unconditionally
                if ga == 'guarded' and gb == 'unguarded':
                    problems.append((fb, y, attr, fa))
                elif gb == 'guarded' and ga == 'unguarded':
                    problems.append((fa, x, attr, fb))
        if problems:
            for (f, p, attr, other) in problems:
                r.fail(f.key, f'{s}: {p}.{attr} unguarded', f"{f.name} dereferences {p}.{attr} for every call while its sibling {other.name} first tests "
                       f"isinstance({p}, ...): a call that works in one bit-numbering mode raises AttributeError in the other "
                       "(e.g. BitArray.set(1, range(...)) passes an int)", loc=f.loc(), extra={'props': ['C12', 'C20']})
        else:
            r.ok(f'{c}.{s}', {'instance': f'{c}.{s}', 'variants': [fa.name, fb.name]})
    if n < 13:
        raise AnalysisError(f'only {n} slot pairs compared (floor 13)')
    return r


def _derefs(f, p):
    """attr -> 'guarded' | 'unguarded' for attribute loads on parameter p (guarded = inside an isinstance(p, ...) branch)."""
    out = {}
    guarded_nodes = set()
    for i in own_walk(f.node):
        if isinstance(i, (ast.If, ast.IfExp)):
            pt, pbody, _pelse = G.pos_if(i)
            # the branch runs only if isinstance(p, ...) holds: the test itself, or one conjunct of it
            conj = pt.values if isinstance(pt, ast.BoolOp) and isinstance(pt.op, ast.And) else [pt]
            if any(ast.unparse(c).startswith(f'isinstance({p},') for c in conj):
                for b in (pbody if isinstance(pbody, list) else [pbody]):
                    for y in ast.walk(b):
                        guarded_nodes.add(id(y))
    for x in own_walk(f.node):
        if isinstance(x, ast.Attribute) and isinstance(x.value, ast.Name) and x.value.id == p and isinstance(x.ctx, ast.Load):
            kind = 'guarded' if id(x) in guarded_nodes else 'unguarded'
            if out.get(x.attr) != 'unguarded':
                out[x.attr] = kind
    return out


# public operation -> the switched slot(s) it must reach on self (any of)
OP_SLOTS = {
    'append': {'_append'}, '__iadd__': {'_append'}, 'prepend': {'_prepend'}, 'ror': {'_ror'}, 'rol': {'_rol'},
    'find': {'_find'}, 'rfind': {'_rfind'}, 'findall': {'_findall'},
    'insert': {'__setitem__'}, 'overwrite': {'__setitem__'}, '__delitem__': {'__delitem__'},
    '__getitem__': {'getindex', 'getslice_withstep', 'getslice'}, '__setitem__': {'__setitem__'},
}


def rule_G5(ctx):
    """Every position-relative public operation of every class reaches its mode-switched slot; and a variant never
    re-dispatches through a slot of its own class (that would apply the mirror twice)."""
    m = ctx.m
    from .ownership import get_effects
    E = get_effects(ctx)
    r = RuleResult('G5', 'position-relative operations go through their switched slot on every class; variants do not re-enter slots')
    n = 0
    for c in FAMILY:
        for op, slots in OP_SLOTS.items():
            for f in m.winner(c, op):
                n += 1
                node = ctx.node(f, c)
                seen, work, found = set(), [node], False
                while work and not found:
                    cur = work.pop()
                    if cur in seen:
                        continue
                    seen.add(cur)
                    fa = ctx.fa(cur)
                    for cs in fa.calls:
                        if cs.name in slots and slot_call(ctx, cs):
                            found = True
                    edges, selfname = E.edges(cur)
                    for (cn, root, cs) in edges:
                        if root is not None and (root == selfname or E.resolve_alias(cur, root, selfname) == selfname):
                            work.append(cn)
                # ... and does not ALSO have a path around the mirror: the absolute-end helpers (add at / cut from the most or least
                # significant end whatever the mode) belong to the variants and the whole-value operators, not to an operation that
                # takes a position or is defined relative to one end
                absolute = [x for x in own_walk(f.node) if isinstance(x, ast.Call) and isinstance(x.func, ast.Attribute) and ast.unparse(x.func.value) == 'self'
                            and x.func.attr in ('_addright', '_addleft', '_truncateleft', '_truncateright')]
                if absolute and f.name not in _variant_names(m):
                    r.fail(f.key, absolute[0], f"{c}.{op} calls the absolute-end helper {absolute[0].func.attr} directly: on that path the operation is not "
                           'mirrored under options.lsb0 (position len(self) is the most significant end there)', loc=f.loc(absolute[0]), extra={'ctx': c})
                    continue
                if found:
                    r.ok(f'{c}.{op}', {'instance': f'{c}.{op}', 'reaches_slot': sorted(slots)})
                else:
                    r.fail(f.key, f'{c}.{op}: slot {"/".join(sorted(slots))} not reached', f"{c}.{op} never calls the mode-switched slot "
                           f"{'/'.join(sorted(slots))} on self: under options.lsb0 this operation on a {c} is not mirrored (it works from the same end "
                           'as in msb0 mode)', loc=f.loc(), extra={'ctx': c})
    # variants must not call a slot of their own class
    for (c, s), modes in sorted(m.slots.items()):
        own_slots = {sl for (cc, sl) in m.slots if cc == c}
        for mode, (vc, vf) in modes.items():
            g = m.classes[vc].methods.get(vf)
            if g is None:
                continue
            for x in own_walk(g.node):
                if isinstance(x, ast.Call) and isinstance(x.func, ast.Attribute) and ast.unparse(x.func.value) == 'self' and x.func.attr in own_slots \
                        and c != 'BitStore':
                    r.fail(g.key, x, f"the {mode}-mode variant {vf} calls self.{x.func.attr}, a slot of the same class that set_lsb0 rebinds: which function "
                           'runs depends on the mode, so the variant computes something else in lsb0 than in msb0', loc=g.loc(x))
            r.ok(f'{vc}.{vf}', trivial=True)
    if n < 30:
        raise AnalysisError(f'only {n} (class, operation) pairs examined (floor 30)')
    return r


def _index_params(g):
    """Parameters of a store-level method that end up addressing self._bitarray (as subscript or index argument)."""
    out = set()
    ps = set(g.params())
    for x in own_walk(g.node):
        idx = None
        if isinstance(x, ast.Subscript) and ast.unparse(x.value) == 'self._bitarray':
            idx = x.slice
        elif isinstance(x, ast.Call) and isinstance(x.func, ast.Attribute) and ast.unparse(x.func.value) == 'self._bitarray' and \
                x.func.attr in ('__getitem__', '__setitem__', '__delitem__', 'invert') and x.args:
            idx = x.args[0]
        if idx is not None:
            out |= {y.id for y in ast.walk(idx) if isinstance(y, ast.Name) and y.id in ps}
    # one step through locals built from a parameter (key = slice(*key.indices(..)))
    for x in own_walk(g.node):
        if isinstance(x, ast.Assign) and len(x.targets) == 1 and isinstance(x.targets[0], ast.Name) and x.targets[0].id in out:
            out |= {y.id for y in ast.walk(x.value) if isinstance(y, ast.Name) and y.id in ps}
    return out


def _returns_mirror(g):
    """A store-level helper whose every result is the mirror of its one argument: offset_slice_indices_lsb0(p, len(self)) or -p - 1."""
    from .ingest import _lin
    ps = g.params()[1:]
    if len(ps) != 1:
        return False
    p = ps[0]
    if any(isinstance(y, ast.Name) and y.id == p and isinstance(y.ctx, ast.Store) for y in own_walk(g.node)):
        return False
    rets = [x for x in own_walk(g.node) if isinstance(x, ast.Return)]
    if not rets:
        return False
    for x in rets:
        v = x.value
        if v is None:
            return False
        if isinstance(v, ast.Call) and isinstance(v.func, ast.Name) and v.func.id == 'offset_slice_indices_lsb0' and len(v.args) == 2 \
                and isinstance(v.args[0], ast.Name) and v.args[0].id == p and ast.unparse(v.args[1]) == 'len(self)':
            continue
        try:
            if _lin(v) == {p: -1, 1: -1}:
                continue
        except Exception:
            pass
        return False
    return True


def rule_MIRROR(ctx):
    """One mirror for slices: every store-level lsb0 variant that addresses the underlying bitarray with a slice takes that
    slice from offset_slice_indices_lsb0 (the only place that knows how a stepped window maps: the mirrored slice starts at
    the mirror of the LAST selected element).  A hand-made slice(len - stop, len - start, step) is right for step 1 only.
    Integer positions are mirrored as -i - 1."""
    from .ingest import _lin
    m = ctx.m
    r = RuleResult('MIRROR', 'store-level lsb0 variants address the bitarray only through offset_slice_indices_lsb0 (slices) or -i - 1 (indices)')
    bs = m.classes.get('BitStore')
    if bs is None or 'bitstore:offset_slice_indices_lsb0' not in m.funcs:
        raise AnalysisError('anchor vanished: BitStore / offset_slice_indices_lsb0')
    n = 0
    for name, f in sorted(bs.methods.items()):
        if not name.endswith('_lsb0'):
            continue
        mirrored = set()       # names holding a slice returned by the mirror function
        for x in own_walk(f.node):
            if isinstance(x, ast.Assign) and len(x.targets) == 1 and isinstance(x.targets[0], ast.Name) and isinstance(x.value, ast.Call) \
                    and isinstance(x.value.func, ast.Name) and x.value.func.id == 'offset_slice_indices_lsb0':
                mirrored.add(x.targets[0].id)
        # a name is mirrored only if every assignment to it is the mirror call (parameters re-bound unconditionally count)
        for x in own_walk(f.node):
            if isinstance(x, ast.Assign):
                for t in x.targets:
                    if isinstance(t, ast.Name) and t.id in mirrored and not (isinstance(x.value, ast.Call) and isinstance(x.value.func, ast.Name)
                                                                             and x.value.func.id == 'offset_slice_indices_lsb0'):
                        mirrored.discard(t.id)
        params = set(f.params())
        rebinds = {}
        for st in G.body_wo_doc(f):
            if isinstance(st, ast.Assign) and len(st.targets) == 1 and isinstance(st.targets[0], ast.Name):
                rebinds.setdefault(st.targets[0].id, st.lineno)

        def ok_index(e, line, depth=0):
            if isinstance(e, ast.Name):
                if e.id in mirrored and (e.id not in params or rebinds.get(e.id, 10 ** 9) < line):
                    return 'mirrored slice'
                # a local that is, on every path, the mirrored slice or the mirrored index (a merged int/slice key)
                if e.id not in params and depth < 2:
                    vals = [y.value for y in own_walk(f.node) if isinstance(y, ast.Assign) and len(y.targets) == 1 and isinstance(y.targets[0], ast.Name)
                            and y.targets[0].id == e.id]
                    def kind_of(v):
                        if isinstance(v, ast.IfExp):
                            a, b = kind_of(v.body), kind_of(v.orelse)
                            return f'{a} / {b}' if a and b else None
                        if isinstance(v, ast.Constant) and v.value is None:
                            return 'absent'
                        if isinstance(v, ast.Call) and isinstance(v.func, ast.Name) and v.func.id == 'offset_slice_indices_lsb0':
                            return 'mirrored slice'
                        return ok_index(v, line, depth + 1)
                    kinds = [kind_of(v) for v in vals]
                    if vals and all(kinds):
                        return ' / '.join(sorted(set(kinds)))
                return None
            if isinstance(e, ast.Slice):
                for b in (e.lower, e.upper, e.step):
                    if b is None:
                        continue
                    if not (isinstance(b, ast.Attribute) and isinstance(b.value, ast.Name) and b.value.id in mirrored):
                        return None
                return 'bounds of the mirrored slice'
            if isinstance(e, ast.Call) and isinstance(e.func, ast.Name) and e.func.id == 'slice':
                return None
            if isinstance(e, ast.Call) and isinstance(e.func, ast.Name) and e.func.id == 'offset_slice_indices_lsb0':
                return 'mirrored slice'
            if isinstance(e, ast.Call) and isinstance(e.func, ast.Attribute) and isinstance(e.func.value, ast.Name) and e.func.value.id == 'self' \
                    and e.func.attr in bs.methods and len(e.args) == 1 and isinstance(e.args[0], ast.Name) and e.args[0].id in params \
                    and _returns_mirror(bs.methods[e.func.attr]):
                return 'key mirrored by ' + e.func.attr
            form = _lin(e)
            names = [k for k in form if k != 1 and k in params]
            if len(names) == 1 and form == {names[0]: -1, 1: -1}:       # (len - i - 1 would refuse the negative indices -i - 1 accepts)
                return 'index mirror -i - 1'
            return None
        def ok_any(e, line):
            # a delegated index may be absent (None) on one path: `None if index is None else -index - 1`
            if isinstance(e, ast.IfExp):
                a, b = ok_any(e.body, line), ok_any(e.orelse, line)
                return f'{a} / {b}' if a and b else None
            if isinstance(e, ast.Constant) and e.value is None:
                return 'absent'
            if isinstance(e, ast.Attribute) and isinstance(e.value, ast.Name) and e.value.id in mirrored and e.attr in ('start', 'stop', 'step'):
                return 'bounds of the mirrored slice'
            return ok_index(e, line)
        accesses = []
        for x in own_walk(f.node):
            idx = None
            if isinstance(x, ast.Subscript) and ast.unparse(x.value) == 'self._bitarray':
                idx = x.slice
            elif isinstance(x, ast.Call) and isinstance(x.func, ast.Attribute) and ast.unparse(x.func.value) == 'self._bitarray' and \
                    x.func.attr in ('__getitem__', '__setitem__', '__delitem__', 'invert') and x.args:
                idx = x.args[0]
            elif isinstance(x, ast.Call) and isinstance(x.func, ast.Attribute) and isinstance(x.func.value, ast.Name) and x.func.value.id == 'self' \
                    and x.func.attr.endswith('_msb0') and x.func.attr in bs.methods:
                # handing over to the msb0 sibling: what arrives in its index parameters must already be mirrored
                g = bs.methods[x.func.attr]
                gp = g.params()[1:]
                for i, a in enumerate(x.args):
                    if i < len(gp) and gp[i] in _index_params(g):
                        accesses.append((x, a, True))
                continue
            if idx is not None:
                accesses.append((x, idx, False))
        for x, idx, delegated in accesses:
            n += 1
            how = ok_any(idx, x.lineno) if delegated else ok_index(idx, x.lineno)
            if how:
                r.ok(f'{f.key}:{norm(x)}', {'instance': f.key, 'access': norm(x)[:80], 'index': how})
            else:
                r.fail(f.key, x, f'{name} addresses the bitarray with {ast.unparse(idx)!r}, which is neither a slice returned by '
                       'offset_slice_indices_lsb0 nor the index mirror -i - 1: a hand-made mirrored slice is wrong for steps other than 1 '
                       '(the mirrored window must start at the mirror of the last selected element)', loc=f.loc(x))
    if n < 6:
        raise AnalysisError(f'only {n} bitarray accesses found in the store-level lsb0 variants (floor 6)')
    return r

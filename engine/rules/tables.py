"""H: agreement between tables and constants that a writer/reader or parser/dispatcher must share.

All operands are literals in the syntax tree; folding uses the standard library only
(struct.calcsize, re._parser) — never a function defined in /repo.
"""
from __future__ import annotations

import ast
import re
import struct

try:
    import re._parser as sre_parse          # 3.11+
    import re._constants as sre_c
except ImportError:                          # pragma: no cover
    import sre_parse
    import sre_constants as sre_c

from ..core import own_walk
from ..model import AnalysisError
from ..report import RuleResult, norm

STRUCT_REGEXES = ('STRUCT_PACK_RE', 'BYTESWAP_STRUCT_PACK_RE', 'SINGLE_STRUCT_PACK_RE', 'STRUCT_SPLIT_RE')
REPL_TABLES = {'REPLACEMENTS_BE': 'be', 'REPLACEMENTS_LE': 'le', 'REPLACEMENTS_NE': 'ne'}


def fold(node, env=None):
    """Constant-fold an expression made of literals, names bound in ``env`` and arithmetic."""
    env = env or {}
    if isinstance(node, ast.Constant):
        return node.value
    if isinstance(node, ast.Name) and node.id in env:
        return env[node.id]
    if isinstance(node, ast.BinOp):
        l, r = fold(node.left, env), fold(node.right, env)
        ops = {ast.Add: lambda a, b: a + b, ast.Sub: lambda a, b: a - b, ast.Mult: lambda a, b: a * b,
               ast.FloorDiv: lambda a, b: a // b, ast.LShift: lambda a, b: a << b, ast.Pow: lambda a, b: a ** b,
               ast.Mod: lambda a, b: a % b, ast.BitOr: lambda a, b: a | b}
        if type(node.op) in ops:
            return ops[type(node.op)](l, r)
    if isinstance(node, ast.UnaryOp) and isinstance(node.op, ast.USub):
        return -fold(node.operand, env)
    if isinstance(node, (ast.Tuple, ast.List)):
        return [fold(e, env) for e in node.elts]
    raise ValueError(f"not a foldable constant: {ast.unparse(node)[:60]}")


def regex_classes(pattern):
    """All character classes of a regex as frozensets of characters (categories as '\\d' etc.)."""
    out = []

    def rec(items):
        for op, av in items:
            if op is sre_c.IN:
                s = set()
                for k, v in av:
                    if k is sre_c.LITERAL:
                        s.add(chr(v))
                    elif k is sre_c.RANGE:
                        s.update(chr(c) for c in range(v[0], v[1] + 1))
                    elif k is sre_c.CATEGORY:
                        s.add('\\' + str(v).split('_')[-1].lower())
                    elif k is sre_c.NEGATE:
                        s.add('^')
                out.append(frozenset(s))
            elif op is sre_c.LITERAL:
                pass
            elif op in (sre_c.MAX_REPEAT, sre_c.MIN_REPEAT):
                rec(av[2])
            elif op is sre_c.SUBPATTERN:
                rec(av[3])
            elif op is sre_c.BRANCH:
                for b in av[1]:
                    rec(b)
            elif op in (getattr(sre_c, 'ATOMIC_GROUP', None), getattr(sre_c, 'POSSESSIVE_REPEAT', None)):
                rec(av[2] if isinstance(av, tuple) and len(av) == 3 else av)
    rec(sre_parse.parse(pattern))
    return out


def _regex_literal(m, name):
    v = m.modglobals['utils'].get(name)
    if not (isinstance(v, ast.Call) and ast.unparse(v.func) == 're.compile' and v.args
            and isinstance(v.args[0], ast.Constant) and isinstance(v.args[0].value, str)):
        raise AnalysisError(f"anchor vanished: utils.{name} is not re.compile(<literal>)")
    return v.args[0].value


def _dict_literal(m, mod, name):
    v = m.modglobals[mod].get(name)
    if not isinstance(v, ast.Dict):
        raise AnalysisError(f"anchor vanished: {mod}.{name} is not a dict literal")
    try:
        return {ast.literal_eval(k): ast.literal_eval(x) for k, x in zip(v.keys, v.values)}
    except Exception:
        raise AnalysisError(f"{mod}.{name} has non-literal entries")


def struct_kind(c):
    if c in 'efd':
        return 'float'
    return 'int' if c.islower() else 'uint'


def rule_H1(ctx):
    """Struct codes: regex classes = replacement tables = size table = struct's own sizes; endian branches exhaustive."""
    m = ctx.m
    r = RuleResult('H1', 'struct-code tables agree with each other and with struct')
    code_sets = {}
    endian_sets = {}
    for name in STRUCT_REGEXES:
        pat = _regex_literal(m, name)
        classes = regex_classes(pat)
        codes = [c for c in classes if any(ch.isalpha() and len(ch) == 1 for ch in c)]
        endians = [c for c in classes if c & set('<>@=')]
        if len(codes) != 1:
            raise AnalysisError(f"utils.{name}: expected exactly one struct-code character class, found {len(codes)}")
        code_sets[name] = codes[0]
        if endians:
            endian_sets[name] = endians[0]
    tables = {t: _dict_literal(m, 'utils', t) for t in REPL_TABLES}
    sizes = _dict_literal(m, 'utils', 'PACK_CODE_SIZE')
    ref = frozenset(sizes)
    for name, cs in code_sets.items():
        if cs != ref:
            r.fail(f'utils:{name}', f"[{''.join(sorted(cs))}] vs PACK_CODE_SIZE keys [{''.join(sorted(ref))}]",
                   f"regex accepts codes {sorted(cs - ref)} without a size row / misses {sorted(ref - cs)}",
                   loc='bitstring/utils.py')
        else:
            r.ok(name, {'instance': f'utils.{name}', 'codes': ''.join(sorted(cs)), 'verdict': 'equal to table keys'})
    for t, d in tables.items():
        if frozenset(d) != ref:
            r.fail(f'utils:{t}', f"keys {''.join(sorted(d))} vs PACK_CODE_SIZE keys {''.join(sorted(ref))}",
                   f"table keys differ: extra {sorted(set(d) - ref)}, missing {sorted(ref - set(d))}",
                   loc='bitstring/utils.py')
        else:
            r.ok(t)
    for c in sorted(ref):
        try:
            std = struct.calcsize('=' + c)
        except struct.error:
            r.fail('utils:PACK_CODE_SIZE', f"'{c}': {sizes[c]}", f"'{c}' is not a struct code", loc='bitstring/utils.py')
            continue
        if sizes[c] != std:
            r.fail('utils:PACK_CODE_SIZE', f"'{c}': {sizes[c]}", f"struct.calcsize('={c}') is {std}",
                   loc='bitstring/utils.py')
        else:
            r.ok(f'size {c}')
        for t, suffix in REPL_TABLES.items():
            tok = tables[t].get(c)
            if tok is None:
                continue
            mt = re.fullmatch(r'(uint|int|float)(be|le|ne)?(\d+)', tok)
            want_kind, want_bits = struct_kind(c), 8 * std
            ok = bool(mt) and mt.group(1) == want_kind and int(mt.group(3)) == want_bits and (
                (mt.group(2) == suffix) or (mt.group(2) is None and std == 1))
            if not ok:
                r.fail(f'utils:{t}', f"'{c}': '{tok}'",
                       f"struct code '{c}' is a {want_bits}-bit {want_kind}; expected '{want_kind}{suffix if std > 1 else ''}{want_bits}'",
                       loc='bitstring/utils.py')
            else:
                r.ok(f'{t}[{c}]', {'instance': f"{t}['{c}']", 'token': tok, 'oracle': f"struct.calcsize('={c}')={std}"})
    # endian class exhausted by the branches of the two parsers
    want = {'>': 'REPLACEMENTS_BE', '<': 'REPLACEMENTS_LE', '@': 'REPLACEMENTS_NE', '=': 'REPLACEMENTS_NE'}
    for fkey, rx in (('utils:structparser', 'STRUCT_PACK_RE'), ('utils:parse_single_struct_token', 'SINGLE_STRUCT_PACK_RE')):
        f = m.funcs.get(fkey)
        if f is None:
            raise AnalysisError(f"anchor vanished: {fkey}")
        ecls = endian_sets.get(rx)
        if ecls is None:
            raise AnalysisError(f"utils.{rx} has no endian character class")
        if ecls != frozenset(want):
            r.fail(f'utils:{rx}', f"endian class [{''.join(sorted(ecls))}]",
                   f"endianness prefixes must be exactly {sorted(want)}", loc='bitstring/utils.py')
        chain = _endian_chain(f) or _endian_dispatch(m, f)
        if chain is None:
            # the selection may have been moved into a helper this function hands the endian character to
            for x in own_walk(f.node):
                if isinstance(x, ast.Call) and isinstance(x.func, ast.Name) and x.func.id in m.modfuncs.get(f.mod, {}) \
                        and any('endian' in ast.unparse(a) for a in x.args):
                    g = m.modfuncs[f.mod][x.func.id]
                    if 'endian' in g.params():
                        chain = _endian_chain(g) or _endian_dispatch(m, g)
                        if chain is not None:
                            break
        if chain is None:
            raise AnalysisError(f"{fkey}: endian if-chain not recognised (needs a human)")
        for ch in sorted(ecls):
            got = chain(ch)
            if got != want.get(ch):
                r.fail(fkey, f"endian '{ch}' -> {got}", f"prefix '{ch}' must select {want.get(ch)}", loc=f.loc())
            else:
                r.ok(f'{fkey} {ch}', {'instance': f"{fkey} prefix '{ch}'", 'selects': got})
    return r


def _endian_chain(f):
    """Interpret the if/elif/else chain on ``endian`` → function char -> table name."""
    # the variable holding the endianness character: a parameter called endian, or a local assigned from m.group('endian')
    evars = {p for p in f.params() if p == 'endian'}
    for n in own_walk(f.node):
        if isinstance(n, ast.Assign) and len(n.targets) == 1 and isinstance(n.targets[0], ast.Name) and "group('endian')" in ast.unparse(n.value):
            evars.add(n.targets[0].id)
    top = None
    for n in own_walk(f.node):
        if isinstance(n, ast.If) and any(isinstance(y, ast.Name) and y.id in evars for y in ast.walk(n.test)) and _tables_in(n):
            if top is None or n.lineno < top.lineno:
                top = n
    if top is None:
        return None

    def test(t, ch):
        if isinstance(t, ast.UnaryOp) and isinstance(t.op, ast.Not):
            return not test(t.operand, ch)
        if isinstance(t, ast.Compare) and len(t.ops) == 1 and isinstance(t.left, ast.Name) and t.left.id in evars \
                and isinstance(t.comparators[0], ast.Constant):
            v = t.comparators[0].value
            if isinstance(t.ops[0], ast.In):
                return ch in v
            if isinstance(t.ops[0], ast.Eq):
                return ch == v
            if isinstance(t.ops[0], ast.NotEq):
                return ch != v
        raise AnalysisError(f"{f.key}: endian test not recognised: {ast.unparse(t)}")

    def run(node, ch):
        while True:
            if test(node.test, ch):
                body = node.body
            else:
                body = node.orelse
                if len(body) == 1 and isinstance(body[0], ast.If) and any(isinstance(y, ast.Name) and y.id in evars for y in ast.walk(body[0].test)):
                    node = body[0]
                    continue
            for s in body:
                if isinstance(s, ast.Assert) and not test(s.test, ch):
                    return 'AssertionError'
            tabs = set()
            for s in body:
                tabs |= _tables_in(s)
            return sorted(tabs)[0] if len(tabs) == 1 else None
    return lambda ch: run(top, ch)


def _endian_dispatch(m, f):
    """The same selection written as a table: `{'>': REPLACEMENTS_BE, ...}.get(endian, DEFAULT)` or `TABLE[endian]`, with the
    dict given in place or as a module global.  Returns char -> table name ('KeyError' for a missing key without default)."""
    def as_dict(e):
        if isinstance(e, ast.Name):
            e = m.modglobals.get(f.mod, {}).get(e.id)
        if isinstance(e, ast.Dict) and all(isinstance(k, ast.Constant) and isinstance(k.value, str) for k in e.keys) \
                and all(isinstance(v, ast.Name) and v.id in REPL_TABLES for v in e.values):
            return {k.value: v.id for k, v in zip(e.keys, e.values)}
        return None

    def is_endian(e):
        t = ast.unparse(e)
        return t == 'endian' or ("group('endian')" in t or 'group("endian")' in t)
    for n in own_walk(f.node):
        if isinstance(n, ast.Call) and isinstance(n.func, ast.Attribute) and n.func.attr == 'get' and n.args and is_endian(n.args[0]):
            d = as_dict(n.func.value)
            if d is not None:
                default = n.args[1].id if len(n.args) > 1 and isinstance(n.args[1], ast.Name) and n.args[1].id in REPL_TABLES else None
                return lambda ch, d=d, default=default: d.get(ch, default)
        if isinstance(n, ast.Subscript) and is_endian(n.slice):
            d = as_dict(n.value)
            if d is not None:
                return lambda ch, d=d: d.get(ch, 'KeyError')
    return None


def _tables_in(node):
    return {n.id for n in ast.walk(node) if isinstance(n, ast.Name) and n.id in REPL_TABLES}


def _fmt_dicts_anywhere(m, f):
    """Dict literals with integer keys used by f: in its body, or module-level tables it names."""
    out = [x for x in own_walk(f.node) if isinstance(x, ast.Dict) and x.keys and all(isinstance(k, ast.Constant) and isinstance(k.value, int) for k in x.keys)]
    for x in own_walk(f.node):
        nm = x.id if isinstance(x, ast.Name) else x.attr if isinstance(x, ast.Attribute) else None
        if nm:
            for mod in m.mods:
                g = m.modglobals.get(mod, {}).get(nm)
                if isinstance(g, ast.Dict) and g.keys and all(isinstance(k, ast.Constant) and isinstance(k.value, int) for k in g.keys) \
                        and all(isinstance(v, ast.Constant) and isinstance(v.value, str) and len(v.value) <= 2 for v in g.values):
                    out.append(g)
    return out


def _fmt_dicts(f):
    """Dict literals {int: '<fmt>'} in a function, each with the truth of an enclosing big-endian test if any."""
    out = []
    for n in own_walk(f.node):
        if isinstance(n, ast.Dict) and n.keys and all(isinstance(k, ast.Constant) and isinstance(k.value, int) for k in n.keys) \
                and all(isinstance(v, ast.Constant) and isinstance(v.value, str) for v in n.values):
            out.append(n)
    return out


def rule_H2(ctx):
    """Float lengths: registry allowed_lengths = format dicts of encoder/decoders = the setter's list."""
    m = ctx.m
    r = RuleResult('H2', 'float length tables and struct formats agree')
    reg = m.registry_by_name
    for name in ('float', 'floatle'):
        if name not in reg:
            raise AnalysisError(f"registry has no '{name}' definition")
    ref = tuple(reg['float']['allowed_lengths'])
    if tuple(reg['floatle']['allowed_lengths']) != ref:
        r.fail('__init__:dtype_definitions', f"floatle allowed_lengths {reg['floatle']['allowed_lengths']}",
               f"differs from float's {ref}", loc='bitstring/__init__.py')
    else:
        r.ok('floatle lengths')
    # what format string reaches struct for each (length, byte order): partial evaluation of the encoder and the two decoders
    from .peval import struct_formats, Unsupported, is_const
    enc = m.funcs.get('bitstore_helpers:float2bitstore')
    if enc is None:
        # the flag-taking encoder is gone (one routine per byte order, say): the shared setter that takes the flag is evaluated instead
        enc = m.funcs.get('bits:Bits._setfloat')
        if enc is None or not any('endian' in p for p in enc.params()):
            raise AnalysisError('anchor vanished: bitstore_helpers.float2bitstore')
    lp = [p for p in enc.params() if 'length' in p]
    bp = [p for p in enc.params() if 'endian' in p]
    if len(lp) != 1 or len(bp) != 1:
        raise AnalysisError('float2bitstore: length / byte-order parameters not recognised (needs a human)')
    jobs = []
    for L in ref:
        for be in (True, False):
            jobs.append((enc, {lp[0]: L, bp[0]: be}, L, '>' if be else '<', f'float2bitstore(length={L}, big_endian={be})'))
    for fk, pref in (('bits:Bits._getfloatbe', '>'), ('bits:Bits._getfloatle', '<')):
        f = m.funcs.get(fk)
        if f is None:
            raise AnalysisError(f'anchor vanished: {fk}')
        for L in ref:
            jobs.append((f, {'len(self)': L}, L, pref, f'{f.name} on {L} bits'))
    for f, env, L, pref, what in jobs:
        try:
            fmts, _rets = struct_formats(m, f, env)
        except Unsupported as e:
            raise AnalysisError(f'{f.key}: {e}')
        vals = [v for v, _n, _k in fmts]
        if not vals:
            raise AnalysisError(f'{f.key}: no struct.pack/unpack reached for {what} (needs a human)')
        for v, node, fkey in fmts:
            if not (is_const(v) and isinstance(v, str)):
                raise AnalysisError(f'{f.key}: the struct format for {what} is not a constant of the known tables ({v}) (needs a human)')
            try:
                size = struct.calcsize(v) * 8
            except struct.error:
                size = None
            if size != L or not v.startswith(pref) or v[1:] not in ('e', 'f', 'd'):
                r.fail(f.key, f"{L}: '{v}'", f"{what} uses struct format '{v}': expected a '{pref}' float format of {L} bits (struct.calcsize gives {size})",
                       loc=m.funcs[fkey].loc(node) if fkey in m.funcs else f.loc())
            else:
                r.ok(f"{f.key} {L}:{v}", {'instance': what, 'format': v, 'oracle': f'calcsize={size // 8}B, prefix {pref}'})
    # a length outside the table: the tables the codecs index must have exactly the registry's lengths as keys
    for f in [enc] + [m.funcs[k] for k in ('bits:Bits._getfloatbe', 'bits:Bits._getfloatle')]:
        for d in _fmt_dicts_anywhere(m, f):
            keys = tuple(k.value for k in d.keys if isinstance(k, ast.Constant))
            if set(keys) != set(ref):
                r.fail(f.key, d, f"format table lengths {sorted(keys)} differ from registry allowed_lengths {sorted(ref)}", loc=f.loc(d) if hasattr(d, 'lineno') else f.loc())
            else:
                r.ok(ast.unparse(d))
    # accepted lengths of the float setters: in the setter itself or in the shared method it delegates to
    for nm in ('float', 'floatle'):
        e = next((x for x in m.registry if x['name'] == nm), None)
        sf0 = m.func_by_dotted(e['set_fn']) if e and e['set_fn'] else None
        if sf0 is None:
            raise AnalysisError(f"anchor vanished: setter of '{nm}'")
        cands = [sf0]
        for c in own_walk(sf0.node):
            if isinstance(c, ast.Call) and isinstance(c.func, ast.Attribute) and isinstance(c.func.value, ast.Name) and c.func.value.id == 'self':
                kind, p = m.lookup('Bits', c.func.attr)
                if kind == 'method' and len(p) == 1 and p[0] not in cands:
                    cands.append(p[0])
        lists = [(g, n) for g in cands for n in own_walk(g.node) if isinstance(n, ast.Compare) and isinstance(n.ops[0], (ast.NotIn, ast.In))
                 and isinstance(n.comparators[0], (ast.List, ast.Tuple, ast.Set))]
        if not lists:
            raise AnalysisError(f'{sf0.key}: accepted-length list not recognised (needs a human)')
        for g, n in lists:
            vals = [fold(x) for x in n.comparators[0].elts]
            if set(vals) != set(ref):
                r.fail(g.key, n, f"accepted lengths {vals} differ from registry allowed_lengths {sorted(ref)}", loc=g.loc(n))
            else:
                r.ok(n)
    return r


def rule_SFMT(ctx):
    """struct sizes are the *standard* ones (h = 2, l = 4, q = 8 ...) only when the format starts with one of < > = !; without
    a prefix (or with @) struct uses the platform's native sizes and alignment, so 'l' is 8 bytes on LP64.  The library's
    documented code sizes are the standard ones (its own PACK_CODE_SIZE table), so every format handed to struct.pack /
    unpack / calcsize / Struct must be known to carry an explicit prefix."""
    m = ctx.m
    r = RuleResult('SFMT', 'every struct format carries an explicit byte-order prefix (standard sizes, no native alignment)')
    PREFIX = ('<', '>', '=', '!')

    def const_prefix(e, f, depth=0):
        """True / False / None (unknown) for: the string value of e starts with a prefix character."""
        if isinstance(e, ast.Constant) and isinstance(e.value, str):
            return e.value.startswith(PREFIX)
        if isinstance(e, ast.JoinedStr) and e.values:
            v0 = e.values[0]
            if isinstance(v0, ast.Constant) and isinstance(v0.value, str) and v0.value:
                return v0.value.startswith(PREFIX)
            return None
        if isinstance(e, ast.BinOp) and isinstance(e.op, ast.Add):
            return const_prefix(e.left, f, depth)
        if isinstance(e, ast.IfExp):
            a, b = const_prefix(e.body, f, depth), const_prefix(e.orelse, f, depth)
            return None if a is None or b is None else (a and b)
        if isinstance(e, ast.Subscript) and isinstance(e.value, ast.IfExp):
            # (TABLE_A if c else TABLE_B)[k]: both tables
            a, b = (const_prefix(ast.Subscript(value=t, slice=e.slice, ctx=ast.Load()), f, depth) for t in (e.value.body, e.value.orelse))
            return None if a is None or b is None else (a and b)
        if isinstance(e, ast.Subscript):
            base = e.value
            if isinstance(base, ast.Name):
                g = m.modglobals.get(f.mod, {}).get(base.id)
                if g is None:
                    for mod in m.mods:
                        g = g or m.modglobals.get(mod, {}).get(base.id)
                base = g if g is not None else base
            elif isinstance(base, ast.Attribute):
                for mod in m.mods:
                    g = m.modglobals.get(mod, {}).get(base.attr)
                    if g is not None:
                        base = g
                        break
            if isinstance(base, ast.Dict) and base.values:
                vals = [const_prefix(v, f, depth) for v in base.values]
                return None if any(v is None for v in vals) else all(vals)
            return None
        if isinstance(e, ast.Name) and depth < 3:
            defs = [x.value for x in own_walk(f.node) if isinstance(x, ast.Assign) and any(isinstance(t, ast.Name) and t.id == e.id for t in x.targets)]
            if defs and e.id not in f.params():
                vals = [const_prefix(v, f, depth + 1) for v in defs]
                return None if any(v is None for v in vals) else all(vals)
            return None
        return None
    n = 0
    for f in m.funcs.values():
        if f.mod == '__main__':
            continue
        for x in own_walk(f.node):
            if isinstance(x, ast.Call) and isinstance(x.func, ast.Attribute) and isinstance(x.func.value, ast.Name) and x.func.value.id == 'struct' \
                    and x.func.attr in ('pack', 'unpack', 'calcsize', 'Struct', 'pack_into', 'unpack_from', 'iter_unpack') and x.args:
                n += 1
                ok = const_prefix(x.args[0], f)
                if ok:
                    r.ok(f'{f.key}:{norm(x)[:50]}', {'instance': f.key, 'call': norm(x)[:60], 'verdict': 'explicit prefix'})
                else:
                    r.fail(f.key, x, f"the format given to struct.{x.func.attr} is not known to start with one of < > = !: without a prefix struct uses the "
                           "platform's native sizes and alignment ('l' and 'L' are 8 bytes on LP64), not the standard sizes the library documents",
                           loc=f.loc(x))
    # module-level compiled formats
    for mod, g in m.modglobals.items():
        for name, v in g.items():
            for x in ast.walk(v):
                if isinstance(x, ast.Call) and isinstance(x.func, ast.Attribute) and isinstance(x.func.value, ast.Name) and x.func.value.id == 'struct' and x.args:
                    n += 1
                    st = type('S', (), {'mod': mod, 'node': ast.Module(body=[], type_ignores=[]), 'params': lambda self: []})()
                    ok = const_prefix(x.args[0], st)
                    if ok:
                        r.ok(f'{mod}:{name}')
                    else:
                        r.fail(f'{mod}:<module>', x, f'module-level struct format of {name} without an explicit byte-order prefix', loc=f'bitstring/{mod}.py:{x.lineno}')
    if n < 10:
        raise AnalysisError(f'only {n} struct calls found (floor 10)')
    return r


def rule_H3(ctx):
    """Registry well-formedness, both byte-order alias branches, layout tables."""
    m = ctx.m
    r = RuleResult('H3', 'dtype registry: names, aliases (both byte orders), functions, lengths, layout tables')
    seen = {}
    for e in m.registry:
        if e['name'] in seen:
            r.fail('__init__:dtype_definitions', f"DtypeDefinition('{e['name']}', ...)", 'name registered twice',
                   loc=f"bitstring/__init__.py:{e['lineno']}")
        else:
            r.ok(e['name'])
        seen[e['name']] = e
        for role in ('set_fn', 'get_fn'):
            if e[role] is not None:
                f = m.func_by_dotted(e[role])
                if f is None or f.cls != 'Bits':
                    r.fail('__init__:dtype_definitions', f"{e['name']}: {role}={e[role]}", 'function not defined on Bits',
                           loc=f"bitstring/__init__.py:{e['lineno']}")
                else:
                    r.ok(f"{e['name']}.{role}")
        sf = m.func_by_dotted(e['set_fn']) if e['set_fn'] else None
        if e['variable_length'] and sf is not None and 'length' in sf.params():
            r.fail('__init__:dtype_definitions', f"{e['name']}: {e['set_fn']}",
                   'variable-length dtype with a set_fn that takes a length', loc=sf.loc())
        else:
            r.ok(f"{e['name']} varlen/length")
        if not (isinstance(e['multiplier'], int) and e['multiplier'] > 0):
            r.fail('__init__:dtype_definitions', f"{e['name']}: multiplier={e['multiplier']}", 'multiplier must be a positive int',
                   loc=f"bitstring/__init__.py:{e['lineno']}")
        else:
            r.ok(f"{e['name']} multiplier", trivial=True)
        al = e['allowed_lengths']
        if al and al[-1] is Ellipsis:
            nums = list(al[:-1])
            steps = {b - a for a, b in zip(nums, nums[1:])}
            if len(nums) < 2 or len(steps) != 1 or 0 in steps:
                r.fail('__init__:dtype_definitions', f"{e['name']}: allowed_lengths={al}", 'open-ended lengths must be equally spaced',
                       loc=f"bitstring/__init__.py:{e['lineno']}")
            else:
                r.ok(f"{e['name']} spacing")
    # lengths the property names: floats 16/32/64, bool 1, bfloat 16, endian integers whole bytes
    want = {'float': (16, 32, 64), 'floatle': (16, 32, 64), 'bool': (1,), 'bfloat': (16,), 'bfloatle': (16,)}
    for n in ('uintle', 'uintbe', 'intle', 'intbe'):
        want[n] = 'bytes'
    for n, w in want.items():
        e = seen.get(n)
        if e is None:
            r.fail('__init__:dtype_definitions', f"'{n}'", 'definition missing', loc='bitstring/__init__.py')
            continue
        al = e['allowed_lengths']
        if w == 'bytes':
            good = bool(al) and al[-1] is Ellipsis and al[0] % 8 == 0 and al[0] > 0 and (al[1] - al[0]) % 8 == 0
        else:
            good = tuple(al) == w
        if not good:
            r.fail('__init__:dtype_definitions', f"{n}: allowed_lengths={al}",
                   f"must admit exactly {'positive whole-byte lengths' if w == 'bytes' else w}",
                   loc=f"bitstring/__init__.py:{e['lineno']}")
        else:
            r.ok(f"{n} lengths", {'instance': f"allowed_lengths['{n}']", 'value': str(al)})
    # aliases
    names = set(seen)
    for src, alias in m.aliases_fixed:
        if src not in names:
            r.fail('__init__:aliases', f"('{src}', '{alias}')", 'alias source not registered before use', loc='bitstring/__init__.py')
        else:
            r.ok(alias)
        names.add(alias)
    le = dict((a, s) for s, a in m.aliases_le)
    be = dict((a, s) for s, a in m.aliases_be)
    if set(le) != set(be):
        r.fail('__init__:byteorder', f"le {sorted(le)} vs be {sorted(be)}", 'the two byte-order branches define different alias names',
               loc=f"bitstring/__init__.py:{m.byteorder_if.lineno}")
    for a in sorted(set(le) | set(be)):
        sl, sb = le.get(a), be.get(a)
        for s, suf, br in ((sl, 'le', 'little'), (sb, 'be', 'big')):
            if s is None:
                continue
            if s not in names:
                r.fail('__init__:byteorder', f"('{s}', '{a}') [{br}]", 'alias source not registered', loc='bitstring/__init__.py')
            elif not a.endswith('ne') or s != a[:-2] + suf:
                r.fail('__init__:byteorder', f"('{s}', '{a}') [{br}]",
                       f"native-endian alias '{a}' on a {br}-endian host must point at '{a[:-2] + suf}'",
                       loc=f"bitstring/__init__.py:{m.byteorder_if.lineno}")
            else:
                r.ok(f"{a} {br}", {'instance': f"alias '{a}' on {br}-endian host", 'target': s})
    # the test of the branch must be on sys.byteorder == 'little'
    t = m.byteorder_if.test
    bo = m.modglobals['__init__'].get('byteorder')
    if not (getattr(m, 'byteorder_test_ok', False) and (ast.unparse(t).count('sys.byteorder') or (bo is not None and ast.unparse(bo) == 'sys.byteorder'))):
        r.fail('__init__:byteorder', t, "branch must test sys.byteorder == 'little'", loc=f"bitstring/__init__.py:{m.byteorder_if.lineno}")
    else:
        r.ok(t)
    # NE replacement tokens resolve through these aliases
    allnames = set(names) | set(le)
    for t, suffix in REPL_TABLES.items():
        for c, tok in _dict_literal(m, 'utils', t).items():
            base = re.match(r'[a-z]+', tok).group(0)
            if base not in allnames:
                r.fail(f'utils:{t}', f"'{c}': '{tok}'", f"token name '{base}' is not a registered dtype or alias", loc='bitstring/utils.py')
            else:
                r.ok(f'{t}:{c}:name')
    # layout tables used by pp need a chars function
    bits = m.classes['Bits']
    for fk in ('_bits_per_char', '_process_pp_tokens'):
        f = bits.methods.get(fk)
        if f is None:
            raise AnalysisError(f'anchor vanished: Bits.{fk}')
        cands = []
        for n in own_walk(f.node):
            if isinstance(n, (ast.List, ast.Tuple)) and n.elts and all(isinstance(x, ast.Constant) and isinstance(x.value, str) for x in n.elts):
                cands += [x.value for x in n.elts]
            if isinstance(n, ast.Dict) and n.keys and all(isinstance(k, ast.Constant) and isinstance(k.value, str) for k in n.keys):
                cands += [k.value for k in n.keys]
        for nm in cands:
            e = m.dtype_names('le').get(nm)
            if e is None or e['bitlength2chars_fn'] is None:
                r.fail(f.key, f"'{nm}'", 'pp layout table names a dtype without a bitlength2chars function', loc=f.loc())
            else:
                r.ok(f'{fk}:{nm}')
    return r


def rule_H6(ctx):
    """tofile: the chunk size is a positive multiple of 8, so only the final chunk can be padded."""
    m = ctx.m
    r = RuleResult('H6', 'tofile chunk size folds to a positive multiple of 8')
    f = m.classes['Bits'].methods.get('tofile')
    if f is None:
        raise AnalysisError('anchor vanished: Bits.tofile')
    env = {}
    # module-level (and class-level) constants the function may name
    for nm, v in list(m.modglobals.get(f.mod, {}).items()) + list(m.classes['Bits'].attrs.items()):
        try:
            env[nm] = fold(v, env)
        except (ValueError, TypeError, AttributeError):
            pass
    for n in own_walk(f.node):
        if isinstance(n, ast.Assign) and len(n.targets) == 1 and isinstance(n.targets[0], ast.Name):
            try:
                env[n.targets[0].id] = fold(n.value, env)
            except (ValueError, TypeError):
                pass
    cuts = [n for n in own_walk(f.node) if isinstance(n, ast.Call) and isinstance(n.func, ast.Attribute) and n.func.attr == 'cut']
    writes = [n for n in own_walk(f.node) if isinstance(n, ast.Call) and isinstance(n.func, ast.Attribute) and n.func.attr == 'write']
    if not cuts and writes:
        # unchunked writer: a single write of tobytes() is fine
        for w in writes:
            r.ok(w, {'instance': 'Bits.tofile', 'verdict': 'single unchunked write'})
        return r
    if not cuts:
        # the loop lives in a routine the file object is handed to: its step parameter, bound to the folded argument, is the chunk size
        fparam = [p for p in f.params() if p != 'self'][:1]
        for c in own_walk(f.node):
            if not (isinstance(c, ast.Call) and isinstance(c.func, ast.Attribute) and fparam and any(isinstance(a, ast.Name) and a.id == fparam[0] for a in c.args)):
                continue
            gs = [g for g in m.funcs.values() if g.name == c.func.attr and g.cls is not None]
            if len(gs) != 1:
                continue
            g = gs[0]
            bind = dict(zip(g.params()[1:], c.args))
            steps = [x for x in own_walk(g.node) if isinstance(x, ast.AugAssign) and isinstance(x.op, ast.Add) and isinstance(x.value, ast.Name) and x.value.id in bind]
            gw = [x for x in own_walk(g.node) if isinstance(x, ast.Call) and isinstance(x.func, ast.Attribute) and x.func.attr == 'write']
            if not steps or not gw:
                continue
            for st in steps:
                arg = bind[st.value.id]
                try:
                    v = fold(arg, env)
                except (ValueError, TypeError):
                    r.fail(f.key, c, 'chunk size is not a compile-time constant; cannot show that chunks are whole bytes', loc=f.loc(c))
                    continue
                if not isinstance(v, int) or v <= 0 or v % 8:
                    r.fail(f.key, f"{g.name}({ast.unparse(arg)}) = {v}", f"chunk size {v} is not a positive multiple of 8: every full "
                           'chunk would be zero-padded in the middle of the file', loc=f.loc(c))
                else:
                    r.ok(c, {'instance': f'Bits.tofile chunk (via {g.key})', 'folded': v, 'verdict': f'{v} % 8 == 0'})
            return r
        raise AnalysisError('Bits.tofile: neither a chunked cut() loop nor a write found (needs a human)')
    for c in cuts:
        if not c.args and not c.keywords:
            raise AnalysisError('Bits.tofile: cut() without a size')
        arg = c.args[0] if c.args else c.keywords[0].value
        try:
            v = fold(arg, env)
        except (ValueError, TypeError):
            r.fail(f.key, c, 'chunk size is not a compile-time constant; cannot show that chunks are whole bytes', loc=f.loc(c))
            continue
        if not isinstance(v, int) or v <= 0 or v % 8:
            r.fail(f.key, f"cut({ast.unparse(arg)}) = {v}", f"chunk size {v} is not a positive multiple of 8: every full "
                   'chunk would be zero-padded in the middle of the file', loc=f.loc(c))
        else:
            r.ok(c, {'instance': 'Bits.tofile chunk', 'folded': v, 'verdict': f'{v} % 8 == 0'})
    return r

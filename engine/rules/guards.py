"""Small syntactic helpers for guard recognition (idiom inventory of DESIGN 2.4)."""
from __future__ import annotations

import ast

from ..core import own_walk


def body_wo_doc(f):
    return [s for s in f.node.body if not (isinstance(s, ast.Expr) and isinstance(s.value, ast.Constant))]


def raises_in(stmts):
    """Exception class names raised directly in a statement list."""
    out = []
    for s in stmts:
        for x in ast.walk(s):
            if isinstance(x, ast.Raise) and x.exc is not None:
                e = x.exc.func if isinstance(x.exc, ast.Call) else x.exc
                out.append(e.attr if isinstance(e, ast.Attribute) else getattr(e, 'id', ast.unparse(e)))
    return out


def private_callees(m, f):
    """(call node, callee) for the calls f makes to private functions of its own module or private methods of its own class -
    the places where part of a routine may have been moved to."""
    from ..core import own_walk
    for x in own_walk(f.node):
        if not isinstance(x, ast.Call):
            continue
        fn = x.func
        g = None
        if isinstance(fn, ast.Name) and fn.id.startswith('_') and not fn.id.startswith('__'):
            g = m.funcs.get(f'{f.mod}:{fn.id}')
        elif isinstance(fn, ast.Attribute) and fn.attr.startswith('_') and not fn.attr.startswith('__') and isinstance(fn.value, ast.Name) \
                and fn.value.id in ('self', 'cls') and f.cls:
            kind, p = m.lookup(f.cls, fn.attr)
            if kind == 'method' and len(p) == 1:
                g = p[0]
        if g is not None and g is not f:
            yield x, g


def route_walk(m, f, depth=2, _seen=None):
    """(function, node) for the nodes of f and of the private same-module helpers it calls (depth levels): the whole routine,
    however it has been cut into pieces."""
    from ..core import own_walk
    seen = _seen if _seen is not None else set()
    if f.key in seen:
        return
    seen.add(f.key)
    for x in own_walk(f.node):
        yield f, x
    if depth > 0:
        for _call, g in private_callees(m, f):
            yield from route_walk(m, g, depth - 1, seen)


def sites_via_helpers(m, f, pred, depth=2):
    """Nodes of f satisfying pred, plus f's calls to private helpers whose routine contains such a node: where, in f, the thing
    pred describes happens."""
    from ..core import own_walk
    out = [x for x in own_walk(f.node) if pred(x)]
    for call, g in private_callees(m, f):
        if any(pred(y) for _g, y in route_walk(m, g, depth - 1)):
            out.append(call)
    return out


def always_raises(stmts):
    """Every path through the statement list ends in a raise."""
    if not stmts:
        return False
    s = stmts[-1]
    if isinstance(s, ast.Raise):
        return not any(isinstance(y, ast.Return) for b in stmts[:-1] for y in ast.walk(b))
    if isinstance(s, ast.If):
        return bool(s.orelse) and always_raises(s.body) and always_raises(s.orelse) and \
            not any(isinstance(y, ast.Return) for b in stmts[:-1] for y in ast.walk(b))
    return False


def exits(stmts):
    """True if the statement list unconditionally leaves the function (raise / return)."""
    return bool(stmts) and isinstance(stmts[-1], (ast.Raise, ast.Return))


def names_in(e):
    return {x.id for x in ast.walk(e) if isinstance(x, ast.Name)}


def is_len_of(e, var):
    """len(var) / var.len / len(self) when var == 'self' ..."""
    if isinstance(e, ast.Call) and isinstance(e.func, ast.Name) and e.func.id == 'len' and e.args:
        a = e.args[0]
        if isinstance(a, ast.NamedExpr):
            return isinstance(a.target, ast.Name) and a.target.id == var
        return isinstance(a, ast.Name) and a.id == var
    if isinstance(e, ast.Attribute) and e.attr in ('len', 'length') and isinstance(e.value, ast.Name) and e.value.id == var:
        return True
    if isinstance(e, ast.Call) and isinstance(e.func, ast.Attribute) and e.func.attr in ('__len__', '_getlength') \
            and isinstance(e.func.value, ast.Name) and e.func.value.id == var:
        return True
    return False


def is_zero(e):
    return isinstance(e, ast.Constant) and e.value == 0 and not isinstance(e.value, bool)


def test_is_empty(t, var):
    """Does the test hold exactly when ``var`` (a bitstring) is empty?  len(v) == 0, not len(v), not v, len(v) < 1."""
    if isinstance(t, ast.Compare) and len(t.ops) == 1:
        l, op, r = t.left, t.ops[0], t.comparators[0]
        if is_len_of(l, var) and isinstance(op, ast.Eq) and is_zero(r):
            return True
        if is_len_of(r, var) and isinstance(op, ast.Eq) and is_zero(l):
            return True
        if is_len_of(l, var) and isinstance(op, ast.Lt) and isinstance(r, ast.Constant) and r.value == 1:
            return True
        if is_len_of(l, var) and isinstance(op, ast.LtE) and is_zero(r):
            return True
    if isinstance(t, ast.UnaryOp) and isinstance(t.op, ast.Not):
        o = t.operand
        if is_len_of(o, var):
            return True
        if isinstance(o, ast.Name) and o.id == var:
            return True
    return False


def test_is_negative(t, var):
    """var < 0  (or 0 > var)."""
    if isinstance(t, ast.Compare) and len(t.ops) == 1:
        l, op, r = t.left, t.ops[0], t.comparators[0]
        if isinstance(l, ast.Name) and l.id == var and isinstance(op, ast.Lt) and is_zero(r):
            return True
        if isinstance(r, ast.Name) and r.id == var and isinstance(op, ast.Gt) and is_zero(l):
            return True
        if isinstance(l, ast.Name) and l.id == var and isinstance(op, ast.LtE) and isinstance(r, ast.UnaryOp) \
                and isinstance(r.op, ast.USub) and isinstance(r.operand, ast.Constant) and r.operand.value == 1:
            return True
    return False


def disjuncts(t):
    if isinstance(t, ast.BoolOp) and isinstance(t.op, ast.Or):
        out = []
        for v in t.values:
            out += disjuncts(v)
        return out
    return [t]


_INV = {ast.Eq: ast.NotEq, ast.NotEq: ast.Eq, ast.Lt: ast.GtE, ast.GtE: ast.Lt, ast.Gt: ast.LtE, ast.LtE: ast.Gt, ast.Is: ast.IsNot, ast.IsNot: ast.Is,
        ast.In: ast.NotIn, ast.NotIn: ast.In}
_SWAP = {ast.Lt: ast.Gt, ast.Gt: ast.Lt, ast.LtE: ast.GtE, ast.GtE: ast.LtE, ast.Eq: ast.Eq, ast.NotEq: ast.NotEq}


def _intlike(e):
    """len(...) or a remainder: a non-negative integer, whose truth value is `!= 0`."""
    return (isinstance(e, ast.Call) and isinstance(e.func, ast.Name) and e.func.id == 'len') or (isinstance(e, ast.BinOp) and isinstance(e.op, ast.Mod))


def canon_truth(t):
    """One canonical node for the equivalent spellings of a test: `not (a < b)` = `a >= b`; a constant on the left moves to the
    right; for a length or remainder E, `E != 0` / `E > 0` / `E >= 1` = `E` and `E == 0` / `E < 1` / `E <= 0` = `not E`."""
    if isinstance(t, ast.UnaryOp) and isinstance(t.op, ast.Not):
        inner = canon_truth(t.operand)
        if isinstance(inner, ast.UnaryOp) and isinstance(inner.op, ast.Not):
            return inner.operand
        if isinstance(inner, ast.Compare) and len(inner.ops) == 1 and type(inner.ops[0]) in _INV:
            return canon_truth(ast.Compare(left=inner.left, ops=[_INV[type(inner.ops[0])]()], comparators=inner.comparators))
        return ast.UnaryOp(op=ast.Not(), operand=inner)
    if isinstance(t, ast.BoolOp):
        return ast.BoolOp(op=t.op, values=[canon_truth(v) for v in t.values])
    if isinstance(t, ast.Compare) and len(t.ops) == 1:
        a, op, b = t.left, type(t.ops[0]), t.comparators[0]
        if isinstance(a, ast.Constant) and not isinstance(b, ast.Constant) and op in _SWAP:
            a, b, op = b, a, _SWAP[op]
        if _intlike(a) and isinstance(b, ast.Constant) and type(b.value) is int:
            k = b.value
            if (op, k) in ((ast.NotEq, 0), (ast.Gt, 0), (ast.GtE, 1)):
                return a
            if (op, k) in ((ast.Eq, 0), (ast.Lt, 1), (ast.LtE, 0)):
                return ast.UnaryOp(op=ast.Not(), operand=a)
        return ast.Compare(left=a, ops=[op()], comparators=[b])
    return t


def canon_text(t):
    """Text of canon_truth(t) with the operands of and/or sorted."""
    c = canon_truth(t)

    def txt(n):
        if isinstance(n, ast.BoolOp):
            return '(' + (' or ' if isinstance(n.op, ast.Or) else ' and ').join(sorted(txt(v) for v in n.values)) + ')'
        return ast.unparse(n)
    s = txt(c)
    return s[1:-1] if isinstance(c, ast.BoolOp) else s


def find_guard(f, pred, exc=None, before_line=None, dominate_returns=False):
    """An `if <test>: raise X` at the unconditional top level of the function (or nested only under try/with)
    where some disjunct of <test> satisfies ``pred``.  Returns the If node or None."""
    # names that merely hold len(<something>) read as that length in the tests
    import copy as _copy
    cnt = {}
    for x in ast.walk(f.node):
        if isinstance(x, (ast.Assign, ast.AugAssign, ast.AnnAssign)):
            for t in (x.targets if isinstance(x, ast.Assign) else [x.target]):
                for y in ast.walk(t):
                    if isinstance(y, ast.Name):
                        cnt[y.id] = cnt.get(y.id, 0) + 1
    lenalias = {}
    for x in ast.walk(f.node):
        if isinstance(x, ast.Assign) and len(x.targets) == 1 and isinstance(x.targets[0], ast.Name) and cnt.get(x.targets[0].id) == 1 \
                and isinstance(x.value, ast.Call) and isinstance(x.value.func, ast.Name) and x.value.func.id == 'len' and len(x.value.args) == 1:
            lenalias[x.targets[0].id] = x.value
    if lenalias:
        class _Sub(ast.NodeTransformer):
            def visit_Name(self, n):
                if n.id in lenalias and isinstance(n.ctx, ast.Load):
                    return _copy.deepcopy(lenalias[n.id])
                return n
        raw_pred = pred

        def pred(d, raw_pred=raw_pred):
            if raw_pred(d):
                return True
            if any(isinstance(y, ast.Name) and y.id in lenalias for y in ast.walk(d)):
                return raw_pred(_Sub().visit(_copy.deepcopy(d)))
            return False

    inner_pred = pred

    def pred(d, inner_pred=inner_pred):
        if inner_pred(d):
            return True
        c = canon_truth(d)
        return c is not d and ast.dump(c) != ast.dump(d) and inner_pred(c)

    def scan(stmts):
        for s in stmts:
            if before_line is not None and s.lineno >= before_line:
                break
            if dominate_returns and isinstance(s, ast.If) and not any(pred(d) for d in disjuncts(s.test)) and \
                    any(isinstance(x, ast.Return) for b in s.body + s.orelse for x in ast.walk(b)):
                return None      # an early return precedes the guard: the guard does not dominate every exit
            if isinstance(s, ast.If):
                if any(pred(d) for d in disjuncts(s.test)) and exits(s.body):
                    if isinstance(s.body[-1], ast.Raise):
                        names = raises_in(s.body)
                        if exc is None or any(n in exc for n in names):
                            return s
            if isinstance(s, (ast.With, ast.Try)):
                g = scan(s.body)
                if g is not None:
                    return g
            # `if <c>: v = <replacement> elif <guard>: raise`: the branch that skips the guard only re-binds a variable
            if isinstance(s, ast.If) and s.orelse and all(isinstance(b, ast.Assign) and all(isinstance(t, ast.Name) for t in b.targets) for b in s.body):
                g = scan(s.orelse)
                if g is not None:
                    return g
        return None
    return scan(body_wo_doc(f))


def find_early_exit(f, pred):
    """`if <test>: return ...` or raise at the top level with a disjunct satisfying pred."""
    for s in body_wo_doc(f):
        if isinstance(s, ast.If) and any(pred(d) for d in disjuncts(s.test)) and exits(s.body):
            return s
    return None


def rebound_names(f, param):
    """Names that hold the (converted) value of a parameter: the parameter itself plus walrus / assignment targets
    of `_create_from_bitstype(param)` style conversions."""
    out = {param}
    for x in own_walk(f.node):
        tgt = val = None
        if isinstance(x, ast.Assign) and len(x.targets) == 1 and isinstance(x.targets[0], ast.Name):
            tgt, val = x.targets[0].id, x.value
        elif isinstance(x, ast.NamedExpr) and isinstance(x.target, ast.Name):
            tgt, val = x.target.id, x.value
        if tgt and isinstance(val, ast.Call) and val.args and isinstance(val.args[0], ast.Name) and val.args[0].id in out:
            out.add(tgt)
    return out


def handler_names(h):
    if h.type is None:
        return {'*'}
    return {x.id for x in ast.walk(h.type) if isinstance(x, ast.Name)} | {x.attr for x in ast.walk(h.type) if isinstance(x, ast.Attribute)}


def through_delegate(m, f):
    """If the body of method ``f`` (docstring aside) is a single call `self.g(args)` (optionally returned), return
    (g, {parameter of g: argument expression}); else (f, {}).  One level: enough for setters merged into a shared helper."""
    body = body_wo_doc(f)
    if len(body) != 1:
        return f, {}
    st = body[0]
    call = st.value if isinstance(st, (ast.Expr, ast.Return)) else None
    if not (isinstance(call, ast.Call) and isinstance(call.func, ast.Attribute) and isinstance(call.func.value, ast.Name)
            and call.func.value.id == 'self' and f.cls):
        return f, {}
    kind, p = m.lookup(f.cls, call.func.attr)
    if kind != 'method' or len(p) != 1:
        return f, {}
    g = p[0]
    params = g.params()[1:]
    bind = {}
    for a, nm in zip(call.args, params):
        bind[nm] = a
    for k in call.keywords:
        if k.arg:
            bind[k.arg] = k.value
    return g, bind


def pos_if(node):
    """(test, body, orelse) of an If / IfExp with the test made positive: leading `not`s are stripped and a single `!=`
    becomes `==`, swapping the branches each time - so `if not c: B else: A` reads as `if c: A else: B`."""
    t = node.test
    body, orelse = node.body, node.orelse
    while True:
        if isinstance(t, ast.UnaryOp) and isinstance(t.op, ast.Not):
            t = t.operand
            body, orelse = orelse, body
            continue
        if isinstance(t, ast.Compare) and len(t.ops) == 1 and isinstance(t.ops[0], (ast.NotEq, ast.IsNot, ast.NotIn)):
            op = {ast.NotEq: ast.Eq, ast.IsNot: ast.Is, ast.NotIn: ast.In}[type(t.ops[0])]()
            t = ast.Compare(left=t.left, ops=[op], comparators=t.comparators)
            ast.copy_location(t, node.test)
            body, orelse = orelse, body
            continue
        return t, body, orelse


def simple_aliases(f, with_tests=False):
    """Single-assignment locals that only name something else: `x = self.a.b`, `n = len(self)`.  name -> rhs node."""
    cnt, rhs = {}, {}
    for x in ast.walk(f.node):
        if isinstance(x, (ast.Assign, ast.AugAssign, ast.AnnAssign, ast.For, ast.NamedExpr, ast.comprehension)):
            tg = x.targets if isinstance(x, ast.Assign) else [x.target]
            for t in tg:
                for y in ast.walk(t):
                    if isinstance(y, ast.Name):
                        cnt[y.id] = cnt.get(y.id, 0) + 1
        if isinstance(x, ast.Assign) and len(x.targets) == 1 and isinstance(x.targets[0], ast.Name):
            rhs[x.targets[0].id] = x.value
    params = set()
    a = f.node.args
    for p in a.posonlyargs + a.args + a.kwonlyargs:
        params.add(p.arg)

    def pure(e):
        if isinstance(e, ast.Name):
            return True
        if isinstance(e, ast.Attribute):
            return pure(e.value)
        if isinstance(e, ast.Call) and isinstance(e.func, ast.Name) and e.func.id == 'len' and len(e.args) == 1 and not e.keywords:
            return pure(e.args[0])
        return False
    def pure_test(e):
        if pure(e) or isinstance(e, ast.Constant):
            return True
        if isinstance(e, ast.Compare):
            return pure_test(e.left) and all(pure_test(c) for c in e.comparators)
        if isinstance(e, ast.BinOp):
            return pure_test(e.left) and pure_test(e.right)
        if isinstance(e, ast.BoolOp):
            return all(pure_test(v) for v in e.values)
        if isinstance(e, ast.UnaryOp):
            return pure_test(e.operand)
        return False
    ok = pure_test if with_tests else pure
    def fresh(n):
        # a parameter that is re-bound once before anything reads it is a local from then on
        if n not in params:
            return True
        line = rhs[n].lineno
        return not any(isinstance(y, ast.Name) and y.id == n and isinstance(y.ctx, ast.Load) and y.lineno <= line for y in ast.walk(f.node)) \
            and any(rhs[n] is getattr(st, 'value', None) for st in f.node.body)
    return {n: v for n, v in rhs.items() if cnt.get(n) == 1 and fresh(n) and ok(v) and not isinstance(v, (ast.Name, ast.Constant))}


def expand(f, node, aliases=None):
    """Copy of ``node`` with simple aliases of ``f`` replaced by what they name."""
    import copy
    al = simple_aliases(f) if aliases is None else aliases
    if not al or not any(isinstance(y, ast.Name) and y.id in al for y in ast.walk(node)):
        return node

    class Sub(ast.NodeTransformer):
        def visit_Name(self, n):
            if n.id in al and isinstance(n.ctx, ast.Load):
                return copy.deepcopy(al[n.id])
            return n
    return Sub().visit(copy.deepcopy(node))


def cond_values(stmts, kind='return', target=None):
    """What a short block yields under which (positive) test: [(test node or None, value node)], for
        return A if c else B          if c: return A / else: return B          if c: return A; return B
    and the same shapes for assignments to ``target`` (kind='assign').  Tests are made positive with pos_if; the complementary
    branch carries ('not', test).  Returns None when the block has another shape."""
    out = []

    def value_of(s):
        if kind == 'return' and isinstance(s, ast.Return):
            return s.value
        if kind == 'assign' and isinstance(s, ast.Assign) and len(s.targets) == 1 and ast.unparse(s.targets[0]) == target:
            return s.value
        return None

    def add(test, v):
        if isinstance(v, ast.IfExp):
            t, a, b = pos_if(v)
            out.append((_and(test, t), a))
            out.append((_and(test, ('not', t)), b))
        else:
            out.append((test, v))

    def _and(outer, inner):
        return inner if outer is None else ('and', outer, inner)
    stmts = [s for s in stmts if not (isinstance(s, ast.Expr) and isinstance(s.value, ast.Constant))]
    i = 0
    pending = None           # ('not', test) carried past an `if c: return A` without else
    while i < len(stmts):
        s = stmts[i]
        v = value_of(s)
        if v is not None:
            add(pending, v)
            if kind == 'return':
                return out
        elif isinstance(s, ast.If):
            t, body, orelse = pos_if(s)
            vb = [value_of(x) for x in body if value_of(x) is not None]
            ve = [value_of(x) for x in orelse if value_of(x) is not None]
            if vb:
                add(_and(pending, t), vb[-1])
            if ve:
                add(_and(pending, ('not', t)), ve[-1])
            if vb and not ve and kind == 'return':
                pending = _and(pending, ('not', t))
            elif not vb and ve and kind == 'return':
                pending = _and(pending, t)
            elif vb and ve and kind == 'return':
                return out
        i += 1
    return out or None

"""C06: typestate of _pos (definitely assigned, validated writes, rollback, post-conditions, B1 coverage)."""
from __future__ import annotations

import ast

from ..core import own_walk
from ..model import AnalysisError, FAMILY
from ..report import RuleResult, norm
from ..resolve import ANY
from . import guards as G
from .ownership import get_effects, public_roots

STREAMS = ['ConstBitStream', 'BitStream']


def _pos_stores(f):
    out = []
    for x in own_walk(f.node):
        if isinstance(x, ast.Attribute) and x.attr == '_pos' and isinstance(x.ctx, ast.Store):
            out.append(x)
    return out


def rule_C(ctx):
    """Every stream object a public call can return has _pos assigned."""
    m = ctx.m
    E = get_effects(ctx)
    r = RuleResult('C', '_pos is definitely assigned on every stream object that can reach a caller')
    init = m.winner('ConstBitStream', '__init__')
    if len(init) != 1 or not any(isinstance(s, ast.Assign) and ast.unparse(s.targets[0]) == 'self._pos' for s in G.body_wo_doc(init[0])):
        r.fail('bitstream:ConstBitStream.__init__', 'self._pos = pos', 'ConstBitStream.__init__ does not assign _pos unconditionally: every '
               'constructed stream would lack a position', loc='bitstring/bitstream.py')
    else:
        r.ok('ConstBitStream.__init__ assigns _pos')
    bsi = m.winner('BitStream', '__init__')
    if not bsi or 'ConstBitStream.__init__' not in ast.unparse(bsi[0].node) and not any(isinstance(s, ast.Assign) and ast.unparse(s.targets[0]) == 'self._pos' for s in bsi[0].node.body):
        r.fail('bitstream:BitStream.__init__', '_pos initialisation', 'BitStream.__init__ neither calls ConstBitStream.__init__ nor assigns _pos', loc='bitstring/bitstream.py')
    else:
        r.ok('BitStream.__init__ -> ConstBitStream.__init__')
    memo = {}

    def assured(node, stack=()):
        """True if every bitstring object this function returns/yields (in a stream context) has _pos set."""
        if node in memo:
            return memo[node]
        if node in stack:
            return (True, None)
        f = m.funcs[node[0]]
        fa = ctx.fa(node)
        loc = E.locals(node)
        res = (True, None)
        vals = []
        for x in own_walk(f.node):
            if isinstance(x, ast.Return) and x.value is not None:
                vals.append(x.value)
            elif isinstance(x, (ast.Yield, ast.YieldFrom)) and x.value is not None:
                vals.append(x.value)
        for v in vals:
            for e in ([v.body, v.orelse] if isinstance(v, ast.IfExp) else [v]):
                t = fa.expr_type.get(id(e), ANY)
                if not (t & set(STREAMS)):
                    continue
                ok = check_expr(e, node, f, fa, loc, stack)
                if not ok[0]:
                    res = ok
        memo[node] = res
        return res

    def check_expr(e, node, f, fa, loc, stack):
        if isinstance(e, ast.Name):
            if ('self',) in loc.get(e.id, ()):
                return (True, None)
            # explicit `_pos` assignment on this name in the function
            if any(isinstance(x.value, ast.Name) and x.value.id == e.id for x in _pos_stores(f)):
                return (True, None)
            binds = loc.get(e.id, set())
            if not binds:
                return (True, None)
            for b in binds:
                if b[0] == 'alloc' and b[2] == 'ctor':
                    continue
                if b[0] == 'alloc' and b[2] == 'raw':
                    return (False, (f, e))
                if b[0] in ('alloc', 'result'):
                    # produced by a call: the callee must assure it
                    for x in own_walk(f.node):
                        tgt = x.targets[0] if isinstance(x, ast.Assign) and len(x.targets) == 1 else None
                        if isinstance(tgt, ast.Name) and tgt.id == e.id:
                            vs = [x.value.body, x.value.orelse] if isinstance(x.value, ast.IfExp) else [x.value]
                            for v in vs:
                                rr = check_expr(v, node, f, fa, loc, stack)
                                if not rr[0]:
                                    return rr
                if b[0] in ('view', 'param', 'alias'):
                    continue      # the caller's own object: assumed valid
            return (True, None)
        if isinstance(e, ast.Call):
            for cs in fa.calls:
                if cs.node is e and cs.kind == 'call':
                    for (g, c) in cs.targets:
                        if g.name in ('__new__',):
                            continue
                        if g.name == '__init__':
                            continue
                        if c in STREAMS or (c is None and g.cls not in FAMILY):
                            rr = assured(ctx.node(g, c), stack + (node,))
                            if not rr[0]:
                                return rr
            txt = ast.unparse(e.func)
            if txt.endswith('.__new__'):
                return (False, (f, e))
            return (True, None)
        if isinstance(e, (ast.Subscript, ast.BinOp, ast.UnaryOp)):
            for cs in fa.calls:
                if cs.node is e and cs.kind == 'op':
                    for (g, c) in cs.targets:
                        if c in STREAMS:
                            rr = assured(ctx.node(g, c), stack + (node,))
                            if not rr[0]:
                                return rr
            return (True, None)
        return (True, None)

    n = 0
    for c in STREAMS:
        for name, f in public_roots(ctx, c):
            if name in ('__new__', '__init__'):
                continue
            n += 1
            ok, why = assured(ctx.node(f, c))
            if ok:
                r.ok(f'{c}.{name}')
            else:
                g, e = why
                r.fail(g.key, f'{norm(e)} returned without _pos', f"{c}.{name} can return a {c} object built by {g.key} with a raw allocation "
                       f"({norm(e)}) on which _pos is never assigned: the first read/pos access on it raises AttributeError",
                       loc=g.loc(e), extra={'ctx': c})
    if n < 100:
        raise AnalysisError(f'only {n} public stream names examined (floor 100)')
    return r


# ---------------------------------------------------------------------------------------------- pos writes
WRITE_REASONS = {
    ('bitstream:ConstBitStream.readlist', 'result'): 'every step of _readlist is bounded by the read_fn remaining-bits guard (E7) or the decoders\' ReadError (D2)',
    ('bitstream:ConstBitStream.readto', 'match-end'): 'a successful find places the whole pattern inside the data, so pos + len(bs) <= len',
}


def _classify_pos_write_base(f, store, stmt):
    """Kind of the value assigned to X._pos by ``stmt``."""
    root = ast.unparse(store.value)
    if isinstance(stmt, ast.AugAssign):
        if isinstance(stmt.op, ast.Add):
            v = ast.unparse(stmt.value)
            # guard: v <= len(self) - self._pos   (either spelling) raising before
            for s in own_walk(f.node):
                if isinstance(s, ast.If) and s.lineno < stmt.lineno and G.exits(s.body) and isinstance(s.test, ast.Compare):
                    import copy as _cp
                    _al, _Sub = _arith_aliases(f)
                    txt = ast.unparse(_Sub().visit(_cp.deepcopy(s.test)))
                    if v in txt and 'len(self)' in txt and '_pos' in txt and isinstance(s.test.ops[0], (ast.Gt, ast.GtE)):
                        neg = any(G.test_is_negative(d, v) for s2 in own_walk(f.node) if isinstance(s2, ast.If) and s2.lineno < stmt.lineno for d in G.disjuncts(s2.test))
                        return 'bounded-increment' if neg else 'increment-no-lower-bound'
            if _checked_after(f, stmt):
                return 'checked-after'
            if 'len(' in v and any(isinstance(x, ast.Call) and isinstance(x.func, ast.Attribute) and x.func.attr in ('find', 'rfind') for x in own_walk(f.node)):
                return 'match-end'
        return 'unrecognised'
    val = stmt.value
    if isinstance(val, ast.Name) and val.id in _plain_aliases(f):
        val = _plain_aliases(f)[val.id]          # `end = pos + len(bs)` ... `self._pos = end`
    if isinstance(stmt.targets[0], ast.Tuple):
        if _checked_after(f, stmt):
            return 'checked-after'
        return 'result'
    if isinstance(val, ast.Constant) and val.value == 0:
        return 'zero'
    if G.is_len_of(val, root) or (isinstance(val, ast.Call) and ast.unparse(val) in (f'len({root}._bitstore)',)):
        return 'length'
    # match start + pattern length, possibly through a local: `endpos = match[0] + len(bs); self._pos = endpos`
    v2 = G.expand(f, val, _plain_aliases(f))
    if isinstance(v2, ast.BinOp) and isinstance(v2.op, ast.Add):
        for a, b in ((v2.left, v2.right), (v2.right, v2.left)):
            if isinstance(a, ast.Subscript) and isinstance(a.value, ast.Name) and ast.unparse(a.slice) == '0' and isinstance(b, ast.Call) \
                    and ast.unparse(b.func) == 'len' and len(b.args) == 1:
                for x in own_walk(f.node):
                    if isinstance(x, ast.Assign) and isinstance(x.targets[0], ast.Name) and x.targets[0].id == a.value.id and isinstance(x.value, ast.Call) \
                            and isinstance(x.value.func, ast.Attribute) and x.value.func.attr in ('find', 'rfind') and x.value.args \
                            and ast.unparse(x.value.args[0]) == ast.unparse(b.args[0]) and x.lineno < stmt.lineno:
                        return 'match-end'
    if isinstance(val, ast.Name):
        # saved position restored, or validated parameter
        for x in own_walk(f.node):
            if isinstance(x, ast.Assign) and len(x.targets) == 1 and isinstance(x.targets[0], ast.Name) and x.targets[0].id == val.id \
                    and isinstance(x.value, ast.Attribute) and x.value.attr == '_pos' and x.lineno < stmt.lineno:
                return 'restore'
        if val.id in f.params():
            lo = hi = False
            for s in own_walk(f.node):
                if isinstance(s, ast.If) and s.lineno < stmt.lineno and G.exits(s.body) and isinstance(s.body[-1], ast.Raise):
                    for d in G.disjuncts(G.expand(f, s.test, {k: v for k, v in G.simple_aliases(f).items() if k != val.id})):
                        if G.test_is_negative(d, val.id):
                            lo = True
                        if isinstance(d, ast.Compare) and len(d.ops) == 1 and isinstance(d.left, ast.Name) and d.left.id == val.id \
                                and isinstance(d.ops[0], ast.Gt) and 'len(' in ast.unparse(d.comparators[0]):
                            hi = True
                        if isinstance(d, ast.UnaryOp) and isinstance(d.op, ast.Not) and isinstance(d.operand, ast.Compare) \
                                and len(d.operand.ops) == 2 and ast.unparse(d.operand.left) == '0' and ast.unparse(d.operand.comparators[0]) == val.id \
                                and all(isinstance(o, ast.LtE) for o in d.operand.ops) and 'len(' in ast.unparse(d.operand.comparators[1]):
                            lo = hi = True
            if not (lo and hi):
                from .mutate import facts_before
                fx = facts_before(f, val.id, stmt.lineno)
                lo, hi = lo or 'ge0' in fx, hi or 'le_len' in fx
            return 'validated' if (lo and hi) else ('half-validated' if (lo or hi) else 'unvalidated-param')
        return 'unrecognised'
    if isinstance(val, ast.Subscript) and isinstance(val.value, ast.Name) and ast.unparse(val.slice) == '0':
        for x in own_walk(f.node):
            if isinstance(x, ast.Assign) and isinstance(x.targets[0], ast.Name) and x.targets[0].id == val.value.id and isinstance(x.value, ast.Call) \
                    and isinstance(x.value.func, ast.Attribute) and x.value.func.attr in ('find', 'rfind'):
                return 'match'
    if isinstance(val, ast.BinOp) and isinstance(val.op, ast.Add):
        l, rr = val.left, val.right
        if isinstance(l, ast.Name) and isinstance(rr, ast.Call) and ast.unparse(rr.func) == 'len':
            # validated position + operand length
            lo = hi = False
            for s in own_walk(f.node):
                if isinstance(s, ast.If) and s.lineno < stmt.lineno and G.exits(s.body) and isinstance(s.body[-1], ast.Raise):
                    for d in G.disjuncts(G.expand(f, s.test, {k: v for k, v in G.simple_aliases(f).items() if k != l.id})):
                        if G.test_is_negative(d, l.id):
                            lo = True
                        if isinstance(d, ast.Compare) and len(d.ops) == 1 and ast.unparse(d.left) == l.id and isinstance(d.ops[0], ast.Gt) and 'len(self)' in ast.unparse(d.comparators[0]):
                            hi = True
                        if isinstance(d, ast.UnaryOp) and isinstance(d.op, ast.Not) and isinstance(d.operand, ast.Compare) and len(d.operand.ops) == 2 \
                                and ast.unparse(d.operand.comparators[0]) == l.id and 'len(self)' in ast.unparse(d.operand.comparators[1]):
                            lo = hi = True
            if not (lo and hi):
                from .mutate import facts_before
                fx = facts_before(f, l.id, stmt.lineno)
                lo, hi = lo or 'ge0' in fx, hi or 'le_len' in fx
            return 'after-written' if (lo and hi) else 'after-written-unvalidated'
    return 'unrecognised'


def classify_pos_write(f, store, stmt):
    k = _classify_pos_write_base(f, store, stmt)
    if k not in GOOD_KINDS and isinstance(stmt, ast.Assign) and not isinstance(stmt.targets[0], ast.Tuple) \
            and not isinstance(stmt.value, ast.Constant) and _checked_before(f, stmt, stmt.value):
        return 'checked-before'
    return k


def _plain_aliases(f):
    """Single-assignment locals bound to a sum/difference expression (used to look through `endpos = match[0] + len(bs)`)."""
    cnt, rhs = {}, {}
    for x in own_walk(f.node):
        if isinstance(x, (ast.Assign, ast.AugAssign, ast.AnnAssign, ast.For)):
            tg = x.targets if isinstance(x, ast.Assign) else [x.target]
            for t in tg:
                for y in ast.walk(t):
                    if isinstance(y, ast.Name):
                        cnt[y.id] = cnt.get(y.id, 0) + 1
        if isinstance(x, ast.Assign) and len(x.targets) == 1 and isinstance(x.targets[0], ast.Name):
            rhs[x.targets[0].id] = x.value
    return {n: v for n, v in rhs.items() if cnt.get(n) == 1 and n not in f.params() and isinstance(v, ast.BinOp)}


def _arith_aliases(f):
    """Single-assignment locals that are arithmetic over things that do not change before the position write:
    `start = self._pos`, `available = len(self) - start`.  name -> rhs node (already expanded)."""
    import copy
    cnt, rhs = {}, {}
    for x in own_walk(f.node):
        if isinstance(x, (ast.Assign, ast.AugAssign, ast.AnnAssign, ast.For)):
            tg = x.targets if isinstance(x, ast.Assign) else [x.target]
            for t in tg:
                for y in ast.walk(t):
                    if isinstance(y, ast.Name):
                        cnt[y.id] = cnt.get(y.id, 0) + 1
        if isinstance(x, ast.Assign) and len(x.targets) == 1 and isinstance(x.targets[0], ast.Name):
            rhs[x.targets[0].id] = x.value

    def ok(e):
        if isinstance(e, (ast.Name, ast.Constant)):
            return True
        if isinstance(e, ast.Attribute):
            return ok(e.value)
        if isinstance(e, ast.BinOp) and isinstance(e.op, (ast.Add, ast.Sub)):
            return ok(e.left) and ok(e.right)
        if isinstance(e, ast.Call) and isinstance(e.func, ast.Name) and e.func.id == 'len' and len(e.args) == 1:
            return ok(e.args[0])
        return False
    al = {n: v for n, v in rhs.items() if cnt.get(n) == 1 and n not in f.params() and ok(v) and not isinstance(v, ast.Constant)}

    class Sub(ast.NodeTransformer):
        def visit_Name(self, n):
            if n.id in al and isinstance(n.ctx, ast.Load):
                return copy.deepcopy(al[n.id])
            return n
    for _ in range(3):
        al = {n: Sub().visit(copy.deepcopy(v)) for n, v in al.items()}
    return al, Sub


def _checked_before(f, stmt, val):
    """The value written has, before the write, a raising test `value > len(self)` (compared as linear forms after expanding
    the arithmetic locals), and cannot be negative: it is the old position plus terms known to be non-negative."""
    import copy
    from .ingest import _lin, _lin_sub
    al, Sub = _arith_aliases(f)

    def ex(e):
        return Sub().visit(copy.deepcopy(e))
    want = _lin_sub(_lin(ex(val)), {'len(self)': 1})
    upper = False
    for s in own_walk(f.node):
        if isinstance(s, ast.If) and s.lineno < stmt.lineno and G.exits(s.body) and G.raises_in(s.body):
            for d in G.disjuncts(s.test):
                if isinstance(d, ast.Compare) and len(d.ops) == 1 and isinstance(d.ops[0], ast.Gt):
                    if _lin_sub(_lin(ex(d.left)), _lin(ex(d.comparators[0]))) == want:
                        upper = True
                elif isinstance(d, ast.Compare) and len(d.ops) == 1 and isinstance(d.ops[0], ast.Lt):
                    if _lin_sub(_lin(ex(d.comparators[0])), _lin(ex(d.left))) == want:
                        upper = True
    if not upper:
        return False
    # lower bound: every definition of the value is old position (+ non-negative terms), or a position handed back by a reader
    from .mutate import facts_before

    def nonneg(e, depth=0):
        e = ex(e)
        form = _lin(e)
        for k, c in form.items():
            if k == 1:
                if c < 0:
                    return False
                continue
            if c < 0:
                return False
            if k.endswith('._pos') or k.startswith('len(') or k.endswith('.bitlength') or k.endswith('.length'):
                continue
            if k.isidentifier():
                if 'ge0' in facts_before(f, k, stmt.lineno):
                    continue
                defs = [x for x in own_walk(f.node) if isinstance(x, ast.Assign) and any(isinstance(y, ast.Name) and y.id == k for t in x.targets for y in ast.walk(t))]
                if defs and depth < 2 and all(
                        (isinstance(x.targets[0], ast.Tuple) and isinstance(x.value, ast.Call) and 'read' in ast.unparse(x.value.func)) or
                        (isinstance(x.targets[0], ast.Name) and nonneg(x.value, depth + 1)) for x in defs):
                    continue
            return False
        return True
    return nonneg(val)


def _checked_after(f, stmt):
    """A later `if self._pos > len(self): self._pos = <saved>; raise` covers this write."""
    # the write must be able to reach the check: not inside a block that returns first
    for blk in own_walk(f.node):
        for fld in ('body', 'orelse'):
            b = getattr(blk, fld, None)
            if isinstance(b, list) and any(stmt is y for y in b):
                after = b[b.index(stmt) + 1:]
                if blk is not f.node and any(isinstance(y, ast.Return) for y in after):
                    return False
    def restores_then_raises(stmts):
        rs = [x for x in stmts if isinstance(x, ast.Assign) and ast.unparse(x.targets[0]).endswith('._pos') and isinstance(x.value, ast.Name)]
        return bool(rs) and bool(stmts) and isinstance(stmts[-1], ast.Raise)
    for blk in own_walk(f.node):
        for fld in ('body', 'orelse', 'finalbody'):
            lst = getattr(blk, fld, None)
            if not isinstance(lst, list):
                continue
            for i, s in enumerate(lst):
                if not (isinstance(s, ast.If) and s.lineno > stmt.lineno):
                    continue
                t = G.canon_truth(s.test)
                if not (isinstance(t, ast.Compare) and len(t.ops) == 1 and '_pos' in ast.unparse(t.left) and 'len(self)' in ast.unparse(t.comparators[0])):
                    continue
                if isinstance(t.ops[0], ast.Gt) and restores_then_raises(s.body):
                    return True
                # the other way round: `if self._pos <= len(self): return value` and the restore + raise follow
                if isinstance(t.ops[0], ast.LtE) and G.exits(s.body) and not G.raises_in(s.body) and restores_then_raises((s.orelse or []) + lst[i + 1:]):
                    return True
    return False


GOOD_KINDS = {'zero', 'length', 'restore', 'validated', 'match', 'match-end', 'after-written', 'bounded-increment', 'checked-after', 'checked-before'}


def rule_POSW(ctx):
    """Every write of _pos assigns a value that is in [0, len] by construction."""
    m = ctx.m
    r = RuleResult('POSW', 'every _pos write is a constant 0, the length, a validated/restored/found position or a bounded increment')
    from . import mutate as _mu
    _mu._MODEL[0] = m
    n = 0
    E = get_effects(ctx)
    # a _pos write on a local that may BE the receiver (callee can return self) moves the receiver's position
    movers = {'find', 'rfind', 'readto', 'read', 'readlist', 'bytealign'}
    for c in STREAMS:
        for name, f in public_roots(ctx, c):
            if name in movers or f.cls not in STREAMS:
                continue
            node = ctx.node(f, c)
            maybe = E.maybe_self_locals(node)
            for st in _pos_stores(f):
                if isinstance(st.value, ast.Name) and st.value.id in maybe:
                    r.fail(f.key, f'{c}.{name}: {norm(st)} on a possible alias of self', f"in {c}.{name} the object '{st.value.id}' can be the receiver itself "
                           '(the call it comes from may return self), so assigning its _pos moves the position of the operand of a non-moving operation',
                           loc=f.loc(st), extra={'ctx': c})
                else:
                    r.ok(None)
    for f in m.funcs.values():
        if f.mod != 'bitstream' and not _pos_stores(f):
            continue
        stores = _pos_stores(f)
        for st in stores:
            stmt = None
            for x in own_walk(f.node):
                if isinstance(x, (ast.Assign, ast.AugAssign)):
                    tg = x.targets if isinstance(x, ast.Assign) else [x.target]
                    if any(st is y for t in tg for y in ast.walk(t)):
                        stmt = x
            if stmt is None:
                raise AnalysisError(f'{f.key}: _pos store outside an assignment')
            n += 1
            kind = classify_pos_write(f, st, stmt)
            if kind in GOOD_KINDS:
                r.ok(f'{f.key}:{norm(stmt)}', {'instance': f.key, 'write': norm(stmt)[:60], 'kind': kind})
            elif ctx.reason_key(WRITE_REASONS, f.key, kind) is not None:
                r.ok(f'{f.key}:{norm(stmt)}', reason=True, sample={'instance': f.key, 'write': norm(stmt)[:60], 'reason': WRITE_REASONS[ctx.reason_key(WRITE_REASONS, f.key, kind)]})
            else:
                msg = {
                    'half-validated': 'the assigned position is checked against only one of the bounds 0 and len',
                    'unvalidated-param': 'a caller-supplied position is stored without range validation',
                    'after-written-unvalidated': 'pos + len(bs) is stored although pos was not validated against [0, len]',
                    'increment-no-lower-bound': 'the increment has an upper-bound guard but negative amounts are not rejected',
                }.get(kind, 'the assigned value is none of the forms known to stay within [0, len]')
                r.fail(f.key, stmt, f'{msg}: 0 <= pos <= len can be violated', loc=f.loc(stmt), extra={'kind': kind})
    if n < 25:
        raise AnalysisError(f'only {n} _pos writes found (floor 25)')
    return r


# ---------------------------------------------------------------------------------------------- B1
B1_REASONS = {
    '__iand__': 'bitarray &= preserves the length or raises', '__ior__': 'bitarray |= preserves the length or raises',
    '__ixor__': 'bitarray ^= preserves the length or raises',
    '__ilshift__': 'appends n zero bits then truncates n: net length preserved', '__irshift__': 'prepends n zero bits then truncates n',
    '__imul__': 'n == 0 goes through the stream _clear (pos reset); otherwise the length only grows',
    'byteswap': 'equal-length slice assignments', 'invert': 'in-place bit flips', 'set': 'same-length rebuild or item assignment',
    'reverse': 'whole-store reverse or equal-length slice assignment', 'rol': 'deletes k bits and re-inserts the same k bits',
    'ror': 'deletes k bits and re-inserts the same k bits',
}


def _unhandled_effects(ctx, E, node, stack=()):
    """Self effects of ``node`` that are not reached through a stream-class function which itself updates _pos."""
    if node in stack:
        return set()
    f = ctx.m.funcs[node[0]]
    if f.cls in STREAMS and (_pos_stores(f) or any(isinstance(x, ast.Call) and ast.unparse(x.func) == 'self._clear' for x in own_walk(f.node))):
        return set()
    edges, selfname = E.edges(node)
    out = {(e.kind, node[0], e.detail) for e in E.direct(node) if e.root == selfname and e.kind in ('install', 'inplace')}
    for (cn, root, cs) in edges:
        if root is not None and root == selfname:
            out |= _unhandled_effects(ctx, E, cn, stack + (node,))
    return out


def _effect_without_pos_update(ctx, E, node, f):
    from .mutate import _stmt_effect
    selfname = f.params()[0]

    def is_pos_update(s):
        for x in ast.walk(s):
            if isinstance(x, ast.Attribute) and x.attr == '_pos' and isinstance(x.ctx, ast.Store):
                return True
            if isinstance(x, ast.Call) and ast.unparse(x.func) == 'self._clear':
                return True
        return False

    leak = [None]

    def walk(stmts, pending):
        for s in stmts:
            if isinstance(s, ast.Return):
                if pending is not None and leak[0] is None:
                    leak[0] = pending
                return None, True
            if isinstance(s, ast.Raise):
                return None, True
            if isinstance(s, ast.If):
                if is_pos_update(s) and not any(isinstance(x, ast.Return) for x in ast.walk(s)):
                    pending = None        # `if len(self) != length_before: self._pos = 0`
                    continue
                p1, t1 = walk(s.body, pending)
                p2, t2 = walk(s.orelse, pending)
                alive = [p for p, t in ((p1, t1), (p2, t2)) if not t]
                if not alive:
                    return None, True
                pending = next((p for p in alive if p is not None), None)
                continue
            if isinstance(s, (ast.For, ast.While, ast.With, ast.Try)):
                p, t = walk(s.body, pending)
                pending = p if not t else pending
                continue
            if is_pos_update(s):
                pending = None
                # an effect in the same statement as the update (value, self._pos = ...) is covered
                continue
            e = _stmt_effect(ctx, E, node, s, selfname, False)
            if e is not None:
                pending = e
        return pending, False
    from . import guards as G2
    p, t = walk(G2.body_wo_doc(f), None)
    if not t and p is not None and leak[0] is None:
        leak[0] = p
    return leak[0]


def rule_B1(ctx):
    """Every operation that can change a BitStream's length is covered by stream-level code that updates _pos."""
    m = ctx.m
    E = get_effects(ctx)
    r = RuleResult('B1', 'length-changing effects on a BitStream are followed by a _pos update (override coverage)')
    c = 'BitStream'
    n_eff = 0
    roots = public_roots(ctx, c)
    # property assignment of registry dtypes goes to BitArray.__setattr__ or directly to the setter with the current length
    for name, f in roots:
        if name in ('__init__', '__new__') or f.is_classmethod() or f.is_staticmethod():
            continue
        node = ctx.node(f, c)
        eff = E.selfeff(node)
        if not eff:
            continue
        n_eff += 1
        # effects that cannot change the length (trusted bitarray table): whole-store setall/invert/reverse and the
        # in-place bit-wise operators, which keep the length or raise
        same = ('setall', 'invert', 'reverse', 'aug BitAnd', 'aug BitOr', 'aug BitXor')
        if all(e[0] == 'inplace' and e[2].split(' (')[0] in same for e in eff):
            r.ok(f'{c}.{name}', {'instance': f'{c}.{name}', 'verdict': 'length-preserving effects only', 'effects': sorted({e[2] for e in eff})})
            continue
        writes_pos = bool(_pos_stores(f)) or any(isinstance(x, ast.Call) and ast.unparse(x.func) == 'self._clear' for x in own_walk(f.node))
        if f.cls in STREAMS and writes_pos:
            # on every path, an effect on self must be followed by a _pos update before the function returns normally
            leak = _effect_without_pos_update(ctx, E, node, f)
            if leak is not None:
                r.fail(f.key, f'{c}.{name}: {norm(leak)[:60]}', f"{name} changes the stream's content on a path that returns without updating _pos "
                       f"({norm(leak)[:50]}): if the length changed, pos can end up beyond it", loc=f.loc(leak), extra={'props': ['C06', 'C20']})
            else:
                r.ok(f'{c}.{name}', {'instance': f'{c}.{name}', 'handled_by': f.key})
        elif not _unhandled_effects(ctx, E, node):
            # every effect is reached through a stream-level function that updates _pos (e.g. clear -> ConstBitStream._clear)
            r.ok(f'{c}.{name}', {'instance': f'{c}.{name}', 'handled_by': 'stream-level callee that updates _pos'})
        elif name in B1_REASONS:
            r.ok(f'{c}.{name}', reason=True, sample={'instance': f'{c}.{name}', 'reason': B1_REASONS[name]})
        else:
            kinds = sorted({e[2] for e in eff})[:3]
            r.fail(f.key, f'{c}.{name}', f"{name} can change the length of a BitStream (effects {kinds}) but resolves to {f.key}, which knows "
                   'nothing about the stream position: pos can end up beyond the new length', loc=f.loc(), extra={'props': ['C06', 'C20']})
    if n_eff < 18:
        raise AnalysisError(f'only {n_eff} effectful public names on BitStream (floor 18)')
    return r


# ---------------------------------------------------------------------------------------------- post-conditions
POST = {
    # method: (expected kind of the _pos value, conditional on a length change?)
    'append': ('length', False), '__iadd__': ('length', False), 'prepend': ('zero', False), 'clear': ('zero', False),
    '__delitem__': ('zero', True), '__setitem__': ('zero', True), 'replace': ('zero', True),
    'insert': ('after-written', False), 'overwrite': ('after-written', False), 'find': ('match', False), 'rfind': ('match', False),
    '__getitem__': ('zero', False), '__copy__': ('zero', False), '__add__': ('zero', False), '__and__': ('zero', False),
    '__or__': ('zero', False), '__xor__': ('zero', False), 'fromstring': ('zero', False),
}


def rule_POST(ctx):
    """Operations move pos exactly as documented (kind of the assigned value, per method)."""
    m = ctx.m
    r = RuleResult('POST', 'documented position after append/prepend/insert/overwrite/find/deletions/new objects')
    from . import mutate as _mu
    _mu._MODEL[0] = m
    c = 'BitStream'
    for name, (want, conditional) in POST.items():
        fs = m.winner(c, name)
        if not fs:
            raise AnalysisError(f'BitStream.{name} does not resolve')
        f = fs[0]
        if name == 'clear':
            fs = m.winner(c, '_clear')
            f = fs[0]
        kinds = []
        for st in _pos_stores(f):
            for x in own_walk(f.node):
                if isinstance(x, (ast.Assign, ast.AugAssign)):
                    tg = x.targets if isinstance(x, ast.Assign) else [x.target]
                    if any(st is y for t in tg for y in ast.walk(t)):
                        kinds.append((classify_pos_write(f, st, x), x))
        got = [k for k, _ in kinds]
        if want not in got:
            r.fail(f.key, f'{name}: pos -> {want}', f"after {name} the position must be {'0' if want == 'zero' else want}; {f.key} assigns "
                   f"{got or 'nothing'}", loc=f.loc())
            continue
        if conditional:
            # guarded by a comparison of the length before and after (or unconditional, which is stricter)
            stmt = [x for k, x in kinds if k == want][0]
            guarded = [s for s in own_walk(f.node) if isinstance(s, ast.If) and any(stmt is y for y in s.body) and 'len(self)' in ast.unparse(s.test)
                       and isinstance(s.test, ast.Compare) and isinstance(s.test.ops[0], ast.NotEq)]
            top = any(stmt is y for y in f.node.body)
            if not guarded and not top:
                r.fail(f.key, f'{name}: pos reset condition', 'the reset must happen whenever the length changed', loc=f.loc(stmt))
                continue
        r.ok(f'{name}', {'instance': f'BitStream.{name}', 'pos_after': want})
    # __repr__ of a stream carries its pos
    for cc in STREAMS:
        rp = m.winner(cc, '__repr__')
        if not rp or '_pos' not in ast.unparse(rp[0].node):
            r.fail(rp[0].key if rp else 'bitstream:ConstBitStream.__repr__', '__repr__ pos', 'repr of a stream must carry its position', loc='bitstring/bitstream.py',
                   extra={'props': ['C19']})
        else:
            r.ok(f'{cc}.__repr__')
    return r


# ---------------------------------------------------------------------------------------------- rollback
def rule_RB(ctx):
    """A failing read leaves pos unchanged; peek/peeklist restore it."""
    m = ctx.m
    r = RuleResult('RB', 'read rolls back before raising; peek/peeklist restore the saved position')
    rd = m.winner('ConstBitStream', 'read')
    if len(rd) != 1:
        raise AnalysisError('ConstBitStream.read does not resolve')
    f = rd[0]

    def walk(stmts, dirty):
        for s in stmts:
            if isinstance(s, ast.Raise):
                if dirty:
                    r.fail(f.key, s, 'raises after _pos has been advanced without restoring the saved position: a failing read moves pos',
                           loc=f.loc(s))
                else:
                    r.ok(f'{f.key}:{norm(s)[:50]}')
                return None
            if isinstance(s, ast.Return):
                return None
            if isinstance(s, (ast.Assign, ast.AugAssign)):
                tg = s.targets if isinstance(s, ast.Assign) else [s.target]
                for t in tg:
                    for y in ast.walk(t):
                        if isinstance(y, ast.Attribute) and y.attr == '_pos':
                            kind = classify_pos_write(f, y, s)
                            dirty = kind != 'restore'
            if isinstance(s, ast.If):
                a = walk(s.body, dirty)
                b = walk(s.orelse, dirty)
                alive = [x for x in (a, b) if x is not None]
                if not alive:
                    return None
                dirty = any(alive_d for alive_d in alive)
            elif isinstance(s, (ast.For, ast.While, ast.With)):
                d2 = walk(s.body, dirty)
                dirty = dirty or bool(d2)
            elif isinstance(s, ast.Try):
                d2 = walk(s.body, dirty)
                for h in s.handlers:
                    walk(h.body, True if d2 else dirty)
                dirty = bool(d2) or dirty
        return dirty
    walk(G.body_wo_doc(f), False)
    for nm, callee in (('peek', 'read'), ('peeklist', 'readlist')):
        fs = m.winner('ConstBitStream', nm)
        if len(fs) != 1:
            raise AnalysisError(f'ConstBitStream.{nm} does not resolve')
        g = fs[0]
        body = G.body_wo_doc(g)
        saves = [s for s in body if isinstance(s, ast.Assign) and isinstance(s.value, ast.Attribute) and s.value.attr == '_pos' and isinstance(s.targets[0], ast.Name)]
        calls = [s for s in body if any(isinstance(x, ast.Call) and isinstance(x.func, ast.Attribute) and x.func.attr == callee for x in ast.walk(s))]
        restores = [s for s in body if isinstance(s, ast.Assign) and ast.unparse(s.targets[0]) == 'self._pos' and isinstance(s.value, ast.Name)]
        ok = bool(saves and calls and restores) and saves[0].lineno < calls[0].lineno < restores[-1].lineno \
            and restores[-1].value.id == saves[0].targets[0].id
        # finally-form is fine too
        fin = [s for s in body if isinstance(s, ast.Try) and s.finalbody and any(ast.unparse(x.targets[0]) == 'self._pos' for x in s.finalbody if isinstance(x, ast.Assign))]
        if ok or (saves and fin):
            r.ok(f'{g.key}', {'instance': g.key, 'save': norm(saves[0]), 'restore': norm(restores[-1]) if restores else 'finally'})
            continue
        # or it never touches the position: nothing it can reach (on either stream class) stores _pos
        touched = None
        for c in ('ConstBitStream', 'BitStream'):
            par = ctx.reachable([ctx.node(g, c)])
            for node in par:
                h = m.funcs[node[0]]
                if h.mod == 'bitstream' and _pos_stores(h) and h.name not in ('__init__', '__new__', '__copy__', '_copy'):
                    touched = touched or (h, ctx.fmt_path(ctx.path_to(par, node)))
        if touched is None:
            r.ok(f'{g.key}', {'instance': g.key, 'verdict': 'reaches no write of _pos'})
        else:
            r.fail(g.key, f'{nm}: save/restore of _pos', f'{nm} must leave the position where it was: save before {callee}, restore after', loc=g.loc())
    # readlist assigns _pos only together with the successful result
    rl = m.winner('ConstBitStream', 'readlist')
    if len(rl) != 1:
        raise AnalysisError('ConstBitStream.readlist does not resolve')
    for st in _pos_stores(rl[0]):
        stmt = [x for x in own_walk(rl[0].node) if isinstance(x, ast.Assign) and any(st is y for t in x.targets for y in ast.walk(t))][0]
        if isinstance(stmt.targets[0], ast.Tuple) and isinstance(stmt.value, ast.Call):
            r.ok(f'{rl[0].key}:{norm(stmt)}')
        else:
            r.fail(rl[0].key, stmt, 'readlist must move pos only in the statement that receives the successful result', loc=rl[0].loc(stmt))
    return r


# ---------------------------------------------------------------------------------------------- NOMOVE
MOVERS = {'read', 'readlist', 'readto', 'peek', 'peeklist', 'find', 'rfind', 'bytealign', 'pos', 'bitpos', 'bytepos',
          'append', '__iadd__', 'prepend', 'clear', '__delitem__', '__setitem__', 'replace', 'insert', 'overwrite',
          '__init__', '__new__', 'fromstring', '__setattr__', '__copy__', 'copy', '__getitem__', '__add__', '__and__', '__or__',
          '__xor__'}
NOMOVE_REASONS = {
    ('reverse', '__setitem__'): 'equal-length slice assignment: the reset in BitStream.__setitem__ is conditional on a length change',
    ('__imul__', '_clear'): 'n == 0 empties the stream; position 0 is the only valid one',
    ('__ilshift__', '_clear'): '_truncateleft clears only when asked to remove every bit; _ilshift removes n of 2n bits',
    ('__irshift__', '_clear'): '_truncateright clears only when asked to remove every bit; _irshift removes n of 2n bits',
    ('__ilshift__', '__setattr__'): 'slot assignments (_bitstore) take the underscore branch of BitStream.__setattr__, which never touches _pos',
}


def _nomove_premise(ctx, op, callee):
    """The structural premise of a NOMOVE reason, where it has one.  For the in-place shifts the reason is "n of the 2n.. bits
    are removed, never all of them": that holds only while the padding is added BEFORE the truncation."""
    if (op, callee) not in (('__ilshift__', '_clear'), ('__irshift__', '_clear')):
        return True
    m = ctx.m
    core = m.classes['Bits'].methods.get('_ilshift' if op == '__ilshift__' else '_irshift')
    cands = [core] if core is not None else []
    for c in ('BitArray', 'BitStream'):
        cands += m.winner(c, op)
    for f in cands:
        calls = [x for x in own_walk(f.node) if isinstance(x, ast.Call) and isinstance(x.func, ast.Attribute)]
        trunc = [x for x in calls if x.func.attr in ('_truncateleft', '_truncateright')]
        grow = [x for x in calls if x.func.attr in ('_addright', '_addleft', '_append', '_prepend', 'append', 'prepend')]
        if trunc:
            return bool(grow) and min(g_.lineno for g_ in grow) < min(t_.lineno for t_ in trunc)
    return True          # no truncation helper on this route: nothing to order


def rule_NOMOVE(ctx):
    """Operations that are not documented to move pos never run (on self) a stream-level function that writes _pos."""
    m = ctx.m
    E = get_effects(ctx)
    r = RuleResult('NOMOVE', 'non-moving BitStream/ConstBitStream operations reach no _pos write on self')
    n = 0
    for c in STREAMS:
        for name, f in public_roots(ctx, c):
            if name in MOVERS or f.is_classmethod() or f.is_staticmethod():
                continue
            n += 1
            node = ctx.node(f, c)
            seen = set()
            work = [(node, (name,))]
            bad = None
            while work and bad is None:
                cur, path = work.pop()
                if cur in seen:
                    continue
                seen.add(cur)
                edges, selfname = E.edges(cur)
                for (cn, root, cs) in edges:
                    if root is None or root != selfname:
                        continue
                    g = m.funcs[cn[0]]
                    gself = g.params()[0] if g.params() else 'self'
                    if g.cls in STREAMS and any(isinstance(st.value, ast.Name) and st.value.id == gself for st in _pos_stores(g)):
                        if (name, g.name) in NOMOVE_REASONS and _nomove_premise(ctx, name, g.name):
                            continue
                        bad = (g, cs, path + (g.name,))
                        break
                    work.append((cn, path + (g.name,)))
            if bad:
                g, cs, path = bad
                r.fail(f.key, f'{c}.{name} -> {g.key.split(":")[1]}', f"{name} is not documented to move the stream position, but on a {c} it runs "
                       f"{g.key} ({' -> '.join(path)}), which assigns _pos: the next read starts from the wrong place", loc=m.funcs[cur[0]].loc(cs.node))
            else:
                r.ok(f'{c}.{name}')
    if n < 80:
        raise AnalysisError(f'only {n} non-moving public names examined (floor 80)')
    return r


def rule_SELFOP(ctx):
    """An in-place operation may be handed the object itself as operand (s.insert(s, k), s.overwrite(s, k), a ^= a).  Once
    the receiver has been changed, reading the operand again reads the CHANGED receiver - e.g. `self._pos = pos + len(bs)`
    after the write uses the new length.  So in every mutator of the stream classes that reads an operand after its first
    effect on self, the operand is decoupled first (`if bs is self: bs = <copy>`) or the value was taken before."""
    from .mutate import _stmt_effect
    from .ownership import get_effects
    m = ctx.m
    E = get_effects(ctx)
    r = RuleResult('SELFOP', 'an operand that may be the receiver itself is not read again after the receiver has been changed')
    n = 0
    n_mut = 0
    for c in ('BitStream',):
        for name, f in sorted(m.classes[c].methods.items()):
            node = ctx.node(f, c)
            ps = f.params()[1:]
            if not ps:
                continue
            fa = ctx.fa(node)
            # operands: parameters that are (or are promoted to) bitstrings
            ops = set()
            for x in own_walk(f.node):
                if isinstance(x, ast.Call) and isinstance(x.func, ast.Attribute) and x.func.attr in m.promoters and x.args \
                        and isinstance(x.args[0], ast.Name) and x.args[0].id in ps:
                    ops.add(x.args[0].id)
            if not ops:
                continue
            body = G.body_wo_doc(f)
            first = None
            for i, s in enumerate(body):
                if _stmt_effect(ctx, E, node, s, 'self', False) is not None:
                    first = i
                    break
            if first is None:
                continue
            n_mut += 1
            for op in sorted(ops):
                later = [y for s in body[first + 1:] for y in ast.walk(s) if isinstance(y, ast.Name) and y.id == op and isinstance(y.ctx, ast.Load)]
                if not later:
                    r.ok(f'{f.key}:{op}', {'instance': f.key, 'operand': op, 'verdict': 'not read again after the first effect on self'})
                    continue
                n += 1
                decoupled = False
                for s in body[:first]:
                    if isinstance(s, ast.If):
                        t = ast.unparse(s.test)
                        if t in (f'{op} is self', f'self is {op}') and any(isinstance(y, ast.Assign) and any(isinstance(tt, ast.Name) and tt.id == op for tt in y.targets)
                                                                               and isinstance(y.value, ast.Call) and 'copy' in ast.unparse(y.value.func) for y in s.body):
                            decoupled = True
                    # unconditional private copy of the operand
                    if isinstance(s, ast.Assign) and any(isinstance(tt, ast.Name) and tt.id == op for tt in s.targets) and isinstance(s.value, ast.Call) \
                            and ast.unparse(s.value.func).endswith(('_copy', '__copy__')):
                        decoupled = True
                if decoupled:
                    r.ok(f'{f.key}:{op}', {'instance': f.key, 'operand': op, 'read_after_effect': norm(later[0]), 'verdict': 'decoupled from self before the effect'})
                else:
                    r.fail(f.key, f'{name}: {op} read after self was changed', f"{c}.{name} reads its operand '{op}' after it has changed self, without first "
                           f"replacing it by a copy when `{op} is self`: for s.{name}(s, ...) the value read (e.g. len({op})) is that of the already "
                           'changed object, so the position ends up beyond the written bits', loc=f.loc(later[0]))
    if n_mut < 2:
        raise AnalysisError(f'only {n_mut} stream mutators with a bitstring operand and an effect found (insert and overwrite expected)')
    return r
